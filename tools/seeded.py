#!/usr/bin/env python3
"""Seeded property-breaking changes (/verif/seeded/<name>/{patch.diff, demo file, meta.json}).

  tools/seeded.py verify <name>   confirm in a scratch worktree of /repo: the change applies and
                                  compiles, the package's existing tests still pass, the demo FAILS
                                  with the change and PASSES without it
  tools/seeded.py check <name> [quick|thorough]
                                  run the checks of the properties named in meta.json against a
                                  scratch worktree with the change applied (VERIF_REPO), record
                                  whether each prints VIOLATION
  tools/seeded.py all             check every seeded change, print a table

meta.json: {"property": "C01", "breaks": [...ids...], "needs": "...", "demo": "<file>",
            "demo_dir": "loom", "demo_cmd": "go test -tags verif -run TestX ./loom",
            "tests_cmd": "go test -count=1 ./loom", "source": "...", "results": {...}}
Nothing is ever applied to /repo itself.
"""
import json
import os
import shutil
import subprocess
import sys
import tempfile

V = os.path.dirname(os.path.dirname(os.path.abspath(__file__)))
SEEDED = os.path.join(V, "seeded")
ENV = dict(os.environ, GOFLAGS="-mod=mod", GOPROXY="off", GOSUMDB="off", GOTOOLCHAIN="local")


def sh(cmd, cwd, timeout=1800, env=ENV):
    p = subprocess.run(cmd, shell=True, cwd=cwd, env=env, stdout=subprocess.PIPE, stderr=subprocess.STDOUT,
                       text=True, timeout=timeout)
    return p.returncode, p.stdout


class Scratch:
    def __init__(self, patch=None):
        self.dir = tempfile.mkdtemp(prefix="seeded-")
        os.rmdir(self.dir)
        rc, out = sh("git -C /repo worktree add -q --detach %s HEAD" % self.dir, "/")
        if rc != 0:
            raise RuntimeError(out)
        if patch:
            rc, out = sh("git apply %s" % patch, self.dir)
            if rc != 0:
                # the tree moved on since the change was seeded (fix / hook commits): 3-way merge
                rc, out = sh("git apply --3way %s" % patch, self.dir)
            if rc != 0:
                self.close()
                raise RuntimeError("patch does not apply: " + out)

    def close(self):
        sh("git -C /repo worktree remove --force %s" % self.dir, "/")
        shutil.rmtree(self.dir, ignore_errors=True)


def load(name):
    d = os.path.join(SEEDED, name)
    return d, json.load(open(os.path.join(d, "meta.json")))


def verify(name):
    d, meta = load(name)
    patch = os.path.join(d, "patch.diff")
    res = {}
    for label, p in (("with_change", patch), ("without_change", None)):
        s = Scratch(p)
        try:
            if label == "with_change":
                rc, out = sh("go build ./... ", s.dir)
                res["compiles"] = rc == 0
                rc, out = sh(meta["tests_cmd"], s.dir)
                res["existing_tests_pass"] = rc == 0
                if rc != 0:
                    res["existing_tests_output"] = out[-1500:]
            if meta.get("demo"):
                shutil.copy(os.path.join(d, meta["demo"]), os.path.join(s.dir, meta.get("demo_dir", "."), meta.get("demo_as", meta["demo"])))
            rc, out = sh(meta["demo_cmd"], s.dir, timeout=900)
            res["demo_" + label] = "FAIL" if rc != 0 else "PASS"
            res["demo_output_" + label] = out[-800:]
        finally:
            s.close()
    ok = res.get("compiles") and res.get("existing_tests_pass") and res["demo_with_change"] == "FAIL" and res["demo_without_change"] == "PASS"
    res["confirmed"] = bool(ok)
    meta["verification"] = res
    json.dump(meta, open(os.path.join(d, "meta.json"), "w"), indent=1)
    print("%s: confirmed=%s (compiles=%s tests=%s demo with=%s without=%s)" % (
        name, ok, res.get("compiles"), res.get("existing_tests_pass"), res["demo_with_change"], res["demo_without_change"]))
    return ok


def check(name, tier="quick", props=None):
    d, meta = load(name)
    s = Scratch(os.path.join(d, "patch.diff"))
    out_all = {}
    try:
        for pid in (props or meta.get("breaks") or [meta["property"]]):
            env = dict(ENV, VERIF_REPO=s.dir)
            rc, out = sh("./check %s %s" % (pid, tier), V, timeout=7200, env=env)
            viol = [l for l in out.split("\n") if l.startswith("VIOLATION")]
            kind = "missed"
            if rc not in (0, 1) or "Traceback (most recent call last)" in out:
                kind = "check-error"
            if viol:
                kind = "caught-no-failing-input" if "no-failing-input-found" in viol[0] else "caught-with-failing-input"
            first = [l for l in out.split("\n") if l.startswith(("failing-input", "divergence", "proof gate", "infra"))][:2]
            out_all[pid] = dict(tier=tier, exit=rc, verdict=kind, detail=[f[:400] for f in first])
            print("%s  %s  %s  %s" % (name, pid, kind, (first[0][:160] if first else "")))
    finally:
        s.close()
    meta.setdefault("results", {}).update(out_all)
    json.dump(meta, open(os.path.join(d, "meta.json"), "w"), indent=1)
    return out_all


def main():
    cmd = sys.argv[1]
    if cmd == "verify":
        sys.exit(0 if verify(sys.argv[2]) else 1)
    elif cmd == "check":
        check(sys.argv[2], sys.argv[3] if len(sys.argv) > 3 else "quick", sys.argv[4:] or None)
    elif cmd == "pending":
        # verify what was never verified; (re)run checks with no verdict or a missed/check-error verdict
        for name in sorted(os.listdir(SEEDED)):
            mp = os.path.join(SEEDED, name, "meta.json")
            if not os.path.exists(mp):
                continue
            meta = json.load(open(mp))
            try:
                if not meta.get("verification"):
                    verify(name)
                    meta = json.load(open(mp))
                todo = [p for p in (meta.get("breaks") or [meta["property"]])
                        if meta.get("results", {}).get(p, {}).get("verdict") in (None, "missed", "check-error")]
                if todo:
                    check(name, "quick", todo)
            except Exception as ex:
                print("%s: ERROR %r" % (name, ex))
            sys.stdout.flush()
    elif cmd == "table":
        for name in sorted(os.listdir(SEEDED)):
            mp = os.path.join(SEEDED, name, "meta.json")
            if os.path.exists(mp):
                meta = json.load(open(mp))
                v = meta.get("verification", {})
                print("%-48s confirmed=%-5s %s" % (name, v.get("confirmed"), "  ".join(
                    "%s:%s" % (p, r.get("verdict")) for p, r in sorted(meta.get("results", {}).items()))))
    elif cmd == "all":
        for name in sorted(os.listdir(SEEDED)):
            if os.path.exists(os.path.join(SEEDED, name, "meta.json")):
                check(name, sys.argv[2] if len(sys.argv) > 2 else "quick")


if __name__ == "__main__":
    main()
