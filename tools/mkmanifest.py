#!/usr/bin/env python3
# Regenerates MANIFEST.json from the fragments manifest.d/<ID>.json (keys: text, note,
# technique, design). A property without a fragment is listed under not_applicable with
# the reason in manifest.d/<ID>.na (one line) or the default "under construction" text.
import json, os, glob
V = os.path.dirname(os.path.dirname(os.path.abspath(__file__)))
ALL = ["C%02d" % i for i in range(1, 21)]
PENDING_REASON = "check under construction; not claimed until its Coq model, theorems and correspondence run green on the unchanged tree"
def main():
    claimed = {}
    for f in sorted(glob.glob(os.path.join(V, "manifest.d", "C*.json"))):
        claimed[os.path.basename(f)[:-5]] = json.load(open(f))
    checks = []
    for pid in ALL:
        if pid in claimed:
            c = claimed[pid]
            checks.append(dict(property_id=pid, quick_cmd="./check %s quick" % pid, thorough_cmd="./check %s thorough" % pid,
                evidence_file="evidence/%s.json" % pid, replay_cmd_template="./check %s --replay {path}" % pid,
                engine="coq-model-correspondence",
                level_claimed=dict(category="proof", text=c["text"], design_ref="DESIGN.md section " + c["design"]),
                level_note=c["note"], technique=c["technique"]))
    na = []
    for p in ALL:
        if p in claimed:
            continue
        f = os.path.join(V, "manifest.d", p + ".na")
        na.append(dict(property_id=p, reason=(open(f).read().strip() if os.path.exists(f) else PENDING_REASON)))
    m = dict(version=1, setup_cmd="./check setup",
      hooks=dict(guard="verif", enable="go build -tags verif (harness module replaces github.com/lixianmin/got => /repo)",
                 baseline_off_cmd="cd /repo && go test -json -vet=off -count=1 -timeout 25m ./...",
                 source_commits=[], add_only=True),
      engines=[dict(name="coq-model-correspondence", path="check", serves_properties=sorted(claimed),
                    kind_free_text="Coq 8.16 theorems about hand-written executable Gallina models (coq/), extracted to OCaml (ocaml/) and run against the real Go code (harness/) on the same inputs/schedules; python driver vlib/")],
      checks=checks,
      notes="See DESIGN.md. known_findings.txt lists open/fixed findings.",
      not_applicable=na)
    hooks_file = os.path.join(V, "tools", "hook_commits.txt")
    if os.path.exists(hooks_file):
        m["hooks"]["source_commits"] = [l.strip() for l in open(hooks_file) if l.strip()]
    json.dump(m, open(os.path.join(V, "MANIFEST.json"), "w"), indent=1)
main()
