#!/usr/bin/env python3
# Regenerates MANIFEST.json from the table below (kept in one place so it stays valid).
import json, os
V = os.path.dirname(os.path.dirname(os.path.abspath(__file__)))
ALL = ["C%02d" % i for i in range(1, 21)]
CLAIMED = {
 "C14": dict(
   text="Coq theorems over an executable Gallina transcription of sortx.Search (all counts < 2^63, all predicates consistent with a sorted list: result = first match or complement of insertion point, probes valid, <= ceil(log2(n+1)) less-probes, 64-bit midpoint exact), tied to /repo on every run by a differential correspondence check (exhaustive small scopes + boundary-biased large sizes + concrete lists) between the real function, the extracted model and vm_compute.",
   note="Trusted: Coq kernel, extraction (ExtrOcamlBasic only), OCaml/Go/Python glue. Modelled: Go int as 64-bit two's complement; predicates as total boolean functions.",
   technique="Coq proof of executable model + differential correspondence with the Go code", design="5 C14"),
}
PENDING_REASON = "check under construction in this session; not claimed until its Coq model, theorems and correspondence run green"
def main():
    checks = []
    for pid in ALL:
        if pid in CLAIMED:
            c = CLAIMED[pid]
            checks.append(dict(property_id=pid, quick_cmd="./check %s quick" % pid, thorough_cmd="./check %s thorough" % pid,
                evidence_file="evidence/%s.json" % pid, replay_cmd_template="./check %s --replay {path}" % pid,
                engine="coq-model-correspondence",
                level_claimed=dict(category="proof", text=c["text"], design_ref="DESIGN.md section " + c["design"]),
                level_note=c["note"], technique=c["technique"]))
    m = dict(version=1, setup_cmd="./check setup",
      hooks=dict(guard="verif", enable="go build -tags verif (harness module replaces github.com/lixianmin/got => /repo)",
                 baseline_off_cmd="cd /repo && go test -json -vet=off -count=1 -timeout 25m ./...",
                 source_commits=[], add_only=True),
      engines=[dict(name="coq-model-correspondence", path="check", serves_properties=sorted(CLAIMED),
                    kind_free_text="Coq 8.16 theorems about hand-written executable Gallina models (coq/), extracted to OCaml (ocaml/) and run against the real Go code (harness/) on the same inputs/schedules; python driver vlib/")],
      checks=checks,
      notes="See DESIGN.md. known_findings.txt lists open/fixed findings.",
      not_applicable=[dict(property_id=p, reason=PENDING_REASON) for p in ALL if p not in CLAIMED])
    hooks_file = os.path.join(V, "tools", "hook_commits.txt")
    if os.path.exists(hooks_file):
        m["hooks"]["source_commits"] = [l.strip() for l in open(hooks_file) if l.strip()]
    json.dump(m, open(os.path.join(V, "MANIFEST.json"), "w"), indent=1)
main()
