#!/usr/bin/env python3
# Regenerates seeded/README.md and the table of DESIGN.md section 12 from seeded/*/meta.json.
import json, os, re
ROOT = os.path.dirname(os.path.dirname(os.path.abspath(__file__)))
SD = os.path.join(ROOT, "seeded")
rows, n, allc = [], 0, True
V = {"caught-with-failing-input": "F", "caught-no-failing-input": "N", "missed": "MISSED", "check-error": "ERROR", None: "?"}
for name in sorted(os.listdir(SD)):
    mp = os.path.join(SD, name, "meta.json")
    if not os.path.exists(mp):
        continue
    m = json.load(open(mp))
    n += 1
    allc = allc and bool(m.get("verification", {}).get("confirmed"))
    res = m.get("results", {})
    br = m.get("breaks") or [m["property"]]
    order = [m["property"]] + [p for p in br if p != m["property"]]
    verd = "  ".join("%s %s" % (p, V.get(res.get(p, {}).get("verdict"), "?")) for p in order if p in br)
    rows.append("| %s | %s | %s |" % (name, m.get("needs", "").replace("|", "/"), verd))
head = ("| Seeded change | needs | verdict (F = VIOLATION with a concrete failing input, N = VIOLATION ... no-failing-input-found) |\n|---|---|---|\n")
table = head + "\n".join(rows) + "\n"
open(os.path.join(SD, "README.md"), "w").write(
    "# Seeded property-breaking changes\n\nEach directory: `patch.diff` (against /repo), the demonstration (fails with the change, passes without), "
    "`meta.json` (what it needs, what was run, verdicts). Re-evaluate with `tools/seeded.py verify <name>` and `tools/seeded.py check <name> [quick|thorough] [props]`; "
    "regenerate this file with `tools/seeded_table.py`.\n\n%d changes, %s re-confirmed (compiles, existing tests pass, demo FAIL with / PASS without).\n\n%s" % (
        n, "all" if allc else "NOT all", table))
dp = os.path.join(ROOT, "DESIGN.md")
s = open(dp).read()
i = s.index("| Seeded change | needs |")
j = s.index("\n\n", i)
s = s[:i] + table.rstrip("\n") + s[j:]
open(dp, "w").write(s)
bad = [r for r in rows if any(w in r.split("|")[-2] for w in ("MISSED", "ERROR", "?"))]
print("%d rows, all confirmed: %s, not caught: %d" % (n, allc, len(bad)))
for r in bad:
    print(r[:200])
