#!/usr/bin/env python3
# prints the prompt given to an independent sub-agent that seeds a property-breaking change
import json, sys
pid = sys.argv[1]; wt = sys.argv[2]; n = sys.argv[3] if len(sys.argv) > 3 else "2"
ROUND2 = len(sys.argv) > 4
ROUND3 = len(sys.argv) > 4 and sys.argv[4] in ("r3", "r4")
ROUND4 = len(sys.argv) > 4 and sys.argv[4] == "r4"
for l in open('/verif/properties.jsonl'):
    p = json.loads(l)
    if p['id'] == pid:
        break
print(f"""You are testing how robust a Go library is against subtle regressions. You work ONLY inside the git worktree {wt} (a scratch copy of the library github.com/lixianmin/got; Go module, no dependencies, default `go` is 1.23.5; there is no network: always `export GOFLAGS=-mod=mod GOPROXY=off GOSUMDB=off GOTOOLCHAIN=local`). Do not look at or touch any other directory (in particular not /verif and not /repo).

The library is expected to satisfy this property:

TITLE: {p['title']}
STATEMENT: {p['statement']}
QUANTIFIED OVER: {p['quantifier']['text']}
RELEVANT FILES: {', '.join(p['anchors']['files'])}

Your job: produce {n} DIFFERENT small source changes ("mutants") to the library, each of which BREAKS this property while (a) still compiling, and (b) still passing the library's existing tests for the affected package(s) (run them: for package ants ONLY run `go test -count=1 -run 'TestPool_Send|TestPool_GetMultiTimes|TestPool_HandleTooLongTime' ./ants` because other ants tests hang; for cachex the tests TestCache_Predecessor and TestCache_GetSet are flaky under load — ignore those two). Prefer changes that need something specific to manifest — a particular interleaving of goroutines, a fault or completion at a particular instant, a multi-step sequence of operations, an unusual input, or two cooperating sites that each look fine alone — NOT ones that ordinary use would expose at once. """ + ("An earlier round already produced the obvious candidates (dropping a helping branch, flipping a comparison at a boundary, reverting a recent fix, moving a store before a callback, replacing a CAS by a store). Go further: rarely-taken branches, capacity/threshold arithmetic, an error path, the second call of a sequence, state left behind by a previous operation, option handling, integer width, two sites that only fail together. " if ROUND2 else "") + ("A further round covered those as well. Now look for what is left: goroutine / timer / channel lifecycle (start, stop, close, reuse after close), resources or buffers reused between calls, defaults and zero values of options, exactly equal instants and zero or negative durations, values near the limits of their integer or float type, behaviour only visible with three or more goroutines or after many operations, tolerated API misuse the statement still covers, and 'optimisations' that cache or skip work that was needed in a rare case. " if ROUND3 else "") + ("Those have been tried too. What is left now: other entry points reaching the same behaviour (the same operation exposed by several types, wrappers or convenience functions - change one and leave its sibling intact), helper functions in OTHER packages of this repository that the code relies on, constructors / option functions / package-level variables shared between objects, behaviour after an error was already returned once, sizes and values exactly at the code's internal thresholds (e.g. 12, 64, 127/128, 16383/16384, 2^k and 2^k +- 1, the last valid index), the interplay of two different API calls on the same object, and changes that keep every single call's immediate result right but corrupt what a LATER call sees. Each of your changes must be of a different kind. " if ROUND4 else "") + f"""Changes must be realistic (the kind of thing a refactoring or an 'optimisation' could introduce), must not touch files named verif_on.go / verif_off.go, must not remove the existing `verifYield(...)` calls, and must not edit tests.

For EACH mutant k = 1..{n}:
1. start from a clean tree (`git -C {wt} checkout -- . && git -C {wt} clean -fdq`), make the change, save it with `git -C {wt} diff > {wt}-out/{pid}-mut$k.diff` (the directory {wt}-out/ exists; all your output files go there).
2. write a demonstration: a standalone Go test file or small program (save a copy in {wt}-out/ as {pid}-mut$k-demo_test.go or -demo.go, with a comment on top saying in which package directory it must be placed and how to run it) that FAILS (non-zero exit / test failure) with the change applied and PASSES on the clean tree. The demo may use internal access (same package test), goroutines, timing, or the build tag `verif` hooks (`loom.VerifYield` is a `func(site int)` variable called before each atomic step of loom's lock-free code when built with `-tags verif`; see loom/verif_on.go) to force an interleaving. Run it both ways and record the outputs.
3. confirm the package's existing tests still pass with the change.
Finally restore the clean tree. Report for each mutant: the diff, what the change needs in order to manifest, the exact commands you ran and their outcomes (demo fails with / passes without; existing tests pass). Keep it factual and short.""")
