#!/usr/bin/env python3
# tools/seed_import.py <prop> <k> <name> <demo_dir> "<demo_cmd>" "<tests_cmd>" "<needs>" [breaks...]
import json, os, shutil, sys, glob
prop, k, name, demo_dir, demo_cmd, tests_cmd, needs = sys.argv[1:8]
breaks = sys.argv[8:] or [prop]
src = os.environ.get("SEED_SRC", "/tmp/mut-%s-out") % prop
d = "/verif/seeded/%s" % name
os.makedirs(d, exist_ok=True)
shutil.copy("%s/%s-mut%s.diff" % (src, prop, k), d + "/patch.diff")
demos = [f for f in glob.glob("%s/%s-mut%s-demo*" % (src, prop, k)) if f.endswith(".go")]
demo = None
if demos:
    demo = os.path.basename(demos[0]).replace("%s-mut%s-" % (prop, k), "%s_" % name.replace("-", "_"))
    shutil.copy(demos[0], d + "/" + demo)
meta = dict(property=prop, breaks=breaks, needs=needs, demo=demo, demo_dir=demo_dir, demo_cmd=demo_cmd, tests_cmd=tests_cmd,
            source="independent sub-agent given only the property text and a scratch worktree of /repo")
json.dump(meta, open(d + "/meta.json", "w"), indent=1)
print(d, demo)
