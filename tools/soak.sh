#!/bin/bash
# Flakiness soak: run every quick check on the unchanged tree under several seeds; anything but
# "OK" on the last line is a false alarm to be investigated. Usage: tools/soak.sh <logfile> <seed>...
cd "$(dirname "$0")/.." || exit 2
log=$1; shift
for seed in "$@"; do
  for p in $(python3 -c "import json;print(' '.join(c['property_id'] for c in json.load(open('MANIFEST.json'))['checks']))"); do
    out=$(VERIF_SEED=$seed timeout 1800 ./check $p quick 2>&1 | grep -v conda | tail -3)
    rc=$?
    last=$(echo "$out" | tail -1)
    case "$last" in OK*) echo "seed=$seed $last" >> "$log";; *) echo "seed=$seed NOT-OK $p :: $out" >> "$log";; esac
  done
done
echo "soak done" >> "$log"
