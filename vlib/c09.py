# C09 -- taskx.Queue hands tasks over in send order and Get returns the handler's result.
# Model: coq/models/TaskQueue.v ; theorems: coq/props/C09.v ; vehicle: harness/cmd/fttaskx
# (faketime): real goroutines, the k-th scripted action happens at virtual instant (k+1)*STEP.
#
# Trace validation: the implementation's log is turned into the model's schedule (which
# blocked sender a receive admitted, which branch a select with both branches ready took and
# when a handler finished are read from the log); the extracted model must accept every step
# and predict the same returns / blocking / receive order / Get results / buffer lengths.
import json
import re

from . import common, fttaskx, pure

PROOFS = ["proofs/TaskQueueProofs.v", "models/TaskQueue.v"]
STEP = 1024


# ------------------------------------------------------------------ scripts
class Script:
    def __init__(self, size, nprod, acts, stream=""):
        self.size, self.nprod, self.acts, self.stream = size, nprod, list(acts), stream

    def line(self):
        return "c09 size=%d prods=%d step=%d %s" % (self.size, self.nprod, STEP, " ".join(self.acts))

    @staticmethod
    def parse(line, stream="corpus"):
        t = line.split()
        size = nprod = 0
        acts = []
        for x in t[1:]:
            if x.startswith("size="):
                size = int(x[5:])
            elif x.startswith("prods="):
                nprod = int(x[6:])
            elif x.startswith("step="):
                pass
            else:
                acts.append(x)
        return Script(size, nprod, acts, stream)

    def instant(self, k):
        return (k + 1) * STEP


class Log:
    """parsed implementation log"""

    def __init__(self, line):
        self.ok = not (line.startswith("PANIC") or line.startswith("HANG") or line.startswith("CRASH") or line == "BADCASE")
        self.L, self.calls, self.rets, self.busy, self.R = {}, {}, {}, set(), {}
        self.x, self.y, self.g, self.blocked, self.Z = {}, {}, {}, set(), []
        self.xorder, self.yorder, self.dup_exec = [], [], None
        self.end = None
        if not self.ok:
            return
        after = False
        zpend = False
        for t in line.split():
            f = t.split(":")
            if f[0] == "END":
                self.end = int(f[1])
                after = True
            elif after:
                if f[0] == "Z":
                    zpend = True
                elif f[0] == "x" and zpend:
                    self.Z.append((int(f[1]), int(f[2])))
                    zpend = False
                continue
            elif f[0] == "L":
                self.L[int(f[1])] = int(f[2])
            elif f[0] == "c":
                self.calls[(int(f[1]), int(f[2]))] = int(f[3])
            elif f[0] == "r":
                self.rets[(int(f[1]), int(f[2]))] = (int(f[3]), f[4])
            elif f[0] == "b":
                self.busy.add((int(f[1]), int(f[2])))
            elif f[0] == "R":
                self.R[int(f[1])] = f[2]
            elif f[0] == "x":
                k = (int(f[1]), int(f[2]))
                if k in self.x and self.dup_exec is None:
                    self.dup_exec = (k, self.x[k], int(f[3]))
                self.x[k] = int(f[3])
                self.xorder.append((k, int(f[3])))
            elif f[0] == "y":
                self.y[(int(f[1]), int(f[2]))] = int(f[3])
                self.yorder.append(((int(f[1]), int(f[2])), int(f[3])))
            elif f[0] == "g":
                if f[2] == "noref":
                    self.g[int(f[1])] = None
                else:
                    self.g[int(f[1])] = (int(f[2]), int(f[3]), int(f[4]), int(f[5]))
            elif f[0] == "blocked":
                self.blocked.add(int(f[1]))


def issued_ops(script, log):
    """per producer: the ops of its P actions that were really called (not skipped busy), and for
    each action index the (i, j) of the call or None"""
    progs = [[] for _ in range(script.nprod)]
    callof = {}
    for k, a in enumerate(script.acts):
        if a[0] != "P":
            continue
        f = a.split(":")
        i = int(f[0][1:])
        if (i, script.instant(k)) in log.busy:
            callof[k] = None
            continue
        callof[k] = (i, len(progs[i]))
        progs[i].append(f[1:])
    return progs, callof


def model_line(script, log):
    """-> (line, steps) ; steps = [(token, instant, action index | None, (i,j) | None)]"""
    progs, callof = issued_ops(script, log)
    ptxt = []
    for p in progs:
        ops = []
        for f in p:
            if f[0] in "ht":
                ops.append("%s:%s:%s" % (f[0], f[1], f[2]))
            else:
                ops.append(f[0])
        ptxt.append(",".join(ops) if ops else "-")
    steps = []
    ends = sorted(log.yorder, key=lambda e: e[1])
    ei = 0
    blocked = []   # producers blocked, in blocking order
    closed_at = None
    present = set(log.x) | set(log.Z)
    for k, a in enumerate(script.acts):
        t = script.instant(k)
        while ei < len(ends) and ends[ei][1] < t:
            steps.append(("S", ends[ei][1], None, ends[ei][0]))
            steps.append(("D", ends[ei][1], None, ends[ei][0]))
            ei += 1
        if a[0] == "P":
            i = int(a.split(":")[0][1:])
            call = callof[k]
            c = 1
            if call is not None and closed_at is not None:
                c = 1 if call in present else 0
            steps.append(("P:%d:%d" % (i, c), t, k, call))
            if call is not None:
                r = log.rets.get(call)
                if r is None or r[0] > t:
                    blocked.append(call)
        elif a == "R":
            kk = 0
            for idx, call in enumerate(blocked):
                # a blocked call that returned at this instant was admitted
                r = log.rets.get(call)
                if r is not None and r[0] == t:
                    kk = idx
                    blocked.pop(idx)
                    break
            steps.append(("R:%d" % kk, t, k, None))
        elif a == "C":
            steps.append(("C", t, k, None))
            if closed_at is None:
                closed_at = t
            blocked = []
        elif a[0] == "G":
            f = a.split(":")
            steps.append(("G:%s:%s" % (f[1], f[2]), t, k, None))
    while ei < len(ends):
        steps.append(("S", ends[ei][1], None, ends[ei][0]))
        steps.append(("D", ends[ei][1], None, ends[ei][0]))
        ei += 1
    line = "c09m size=%d progs=%s %s" % (script.size, "/".join(ptxt), " ".join(s[0] for s in steps))
    return line, steps


def compare(script, impl_line, mline, steps, log):
    if impl_line == "SKIPPED":
        return None
    if not log.ok:
        return "implementation produced no log: " + impl_line[:200]
    if mline.startswith("MODEL-EXN") or " | " not in mline + " ":
        return "model failed: " + mline[:200]
    head, tail = mline.split(" | ") if " | " in mline else (mline.rstrip(" |"), "")
    evs = head.split()
    if len(evs) != len(steps):
        return "model produced %d events for %d steps" % (len(evs), len(steps))
    fin = {}
    grets = {}
    for t in tail.split():
        if t.startswith("gret:"):
            f = t.split(":")
            grets[int(f[1])] = (f[2], int(f[3]), int(f[4]))
        elif "=" in t:
            k, v = t.split("=", 1)
            fin[k] = v
    lens = [int(x) for x in fin["len"].split(",")] if fin.get("len") else []
    progs, callof = issued_ops(script, log)
    release = {}   # producer -> instant at which the model releases its blocked call
    pending_block = {}
    for n, ((tok, t, k, ref), ev) in enumerate(zip(steps, evs)):
        f = ev.split(":")
        if k is not None and tok[0] != "G" or tok[0] == "G":
            pass
        if k is not None and log.L.get(t) is not None and lens[n] != log.L[t]:
            return "step %d (%s at %d): len(Queue.C) is %d, model buffer holds %d" % (n, tok, t, log.L[t], lens[n])
        if tok[0] == "P":
            i = int(tok.split(":")[1])
            if ref is None:
                if f[0] != "none":
                    return "step %d: producer %d was still inside its previous call at %d but the model says it is idle (%s)" % (n, i, t, ev)
                continue
            r = log.rets.get(ref)
            if f[0] == "none":
                return "step %d: model says producer %d cannot call at %d (blocked) but it did" % (n, i, t)
            if (int(f[1]), int(f[2])) != ref if f[0] in ("sent", "blocked", "skipped") else False:
                return "step %d: model task id %s, implementation call %s" % (n, ev, ref)
            if f[0] in ("sent", "skipped", "empty", "nil"):
                want = {"sent": "T", "skipped": "T", "empty": "E", "nil": "N"}[f[0]]
                if r is None or r[0] != t:
                    return "step %d: model says the call %s returns at once (%s) but it %s" % (
                        n, ref, ev, "never returned" if r is None else "returned at %d, called at %d" % (r[0], t))
                if r[1] != want:
                    return "step %d: call %s returned kind %s, model %s" % (n, ref, r[1], ev)
            elif f[0] == "blocked":
                if r is not None and r[0] == t:
                    return "step %d: model says call %s blocks (queue full, open) but it returned at once" % (n, ref)
                pending_block[i] = ref
        elif tok[0] == "R":
            got = log.R.get(t) == "got"
            if f[0] == "recv":
                tid = (int(f[1]), int(f[2]))
                if not got or log.x.get(tid) != t:
                    return "step %d: model consumer receives task %s at %d, implementation: %s" % (n, tid, t, log.R.get(t))
                if f[3] != "-":
                    release[int(f[3])] = t
            elif got:
                return "step %d: implementation consumer received a task at %d, model: %s" % (n, t, ev)
        elif tok in ("S", "D"):
            want = ("store" if tok == "S" else "done") + ":%d:%d" % ref
            if ev != want:
                return "step %d: handler of task %s ended at %d, model: %s" % (n, ref, t, ev)
        elif tok == "C":
            if f[0] == "close" and f[1] != "-":
                for i in f[1].split("+"):
                    release[int(i)] = t
        elif tok[0] == "G":
            gi = log.g.get(k, "missing")
            two = script.acts[k].startswith("G2")
            gf = script.acts[k].split(":")
            if int(gf[2]) < len(progs[int(gf[1])]) and progs[int(gf[1])][int(gf[2])][0] == "t":
                continue   # Get of a user task is the harness's own code
            if f[1] == "noref":
                if gi is not None:
                    return "step %d: model: no task returned yet for %s, implementation getter: %s" % (n, tok, gi)
                continue
            if gi is None or gi == "missing":
                return "step %d: getter %s: implementation had no task (%s), model %s" % (n, tok, gi, ev)
            t0, t1, r, e = gi
            if f[1] == "blocked":
                st, mr, me = grets.get(n, ("never", 0, 0))
                mt = -1 if st == "never" else steps[int(st)][1]
            else:
                mt, mr, me = t, int(f[1]), int(f[2])
            if not two:
                me = 0
            if (t1, r, e) != (mt, mr, me) if mt != -1 else t1 != -1:
                return "step %d: getter %s started %d: implementation returned (%d,%d) at %d, model (%d,%d) at %d" % (n, tok, t0, r, e, t1, mr, me, mt)
    for i, ref in pending_block.items():
        pass
    # blocked calls: return instant predicted by the model
    for n, ((tok, t, k, ref), ev) in enumerate(zip(steps, evs)):
        if tok[0] == "P" and ev.startswith("blocked"):
            i = int(tok.split(":")[1])
            r = log.rets.get(ref)
            # the release that follows this step
            rel = None
            for m in range(n + 1, len(steps)):
                f = evs[m].split(":")
                if f[0] == "recv" and f[3] != "-" and int(f[3]) == i:
                    rel = steps[m][1]
                    break
                if f[0] == "close" and f[1] != "-" and str(i) in f[1].split("+"):
                    rel = steps[m][1]
                    break
            if rel is None:
                if r is not None:
                    return "call %s blocked at %d: implementation returned at %d, model: blocked for ever" % (ref, t, r[0])
                if i not in log.blocked:
                    return "call %s: model blocked for ever, harness does not report producer %d blocked" % (ref, i)
            elif r is None or r[0] != rel:
                return "call %s blocked at %d: model releases it at %d, implementation %s" % (
                    ref, t, rel, "never returned" if r is None else "returned at %d" % r[0])
    buf = [tuple(int(x) for x in b.split(".")) for b in fin.get("buf", "").split(",") if b]
    if buf != log.Z:
        return "buffer at the end: implementation %s, model %s" % (log.Z, buf)
    blk = set(int(x) for x in fin.get("blk", "").split(",") if x)
    if blk != log.blocked:
        return "producers blocked at the end: implementation %s, model %s" % (sorted(log.blocked), sorted(blk))
    return None


# ------------------------------------------------------------------ monitors (raw log only)
def monitor(script, impl_line):
    if impl_line == "SKIPPED":
        return None
    log = Log(impl_line)
    if not log.ok:
        return ("hang" if impl_line.startswith("HANG") else "panic", "the scenario does not finish / panics: " + impl_line[:300])
    progs, callof = issued_ops(script, log)
    close_t = None
    for k, a in enumerate(script.acts):
        if a == "C":
            close_t = script.instant(k)
            break
    # exactly once on the channel
    if log.dup_exec:
        return ("duplicate", "task %s came out of Queue.C twice (executed at %d and %d)" % log.dup_exec)
    chan_order = [k for k, _ in sorted(log.xorder, key=lambda e: e[1])] + log.Z
    if len(set(chan_order)) != len(chan_order):
        return ("duplicate", "a task is on the channel twice: " + str(chan_order))
    for tid in chan_order:
        if tid not in log.calls:
            return ("invented", "task %s came out of Queue.C but was never sent" % (tid,))
    # per-producer order
    for i in range(script.nprod):
        js = [j for (ii, j) in chan_order if ii == i]
        if js != sorted(js):
            return ("order", "tasks of producer %d appear on Queue.C in the order %s (send order is increasing)" % (i, js))
    for (i, j), tc in sorted(log.calls.items()):
        op = progs[i][j]
        r = log.rets.get((i, j))
        real = op[0] in "ht"
        # none dropped while open
        if real and r is not None and (close_t is None or r[0] < close_t) and (i, j) not in chan_order:
            return ("dropped", "call %s (%s) returned at %d while the queue was open%s but the task never appeared on Queue.C or in its buffer" % (
                (i, j), ":".join(op), r[0], "" if close_t is None else " (closed at %d)" % close_t))
        if real and r is not None and close_t is None and (i, j) not in chan_order:
            return ("dropped", "call %s returned but its task is nowhere" % ((i, j),))
        # nil handler / nil task
        if op[0] == "n" and (r is None or r[0] != tc or r[1] != "E"):
            return ("nil-handler", "SendCallback(nil) at %d: %s (want an already completed empty task at once)" % (tc, r))
        if op[0] == "z" and (r is None or r[0] != tc or r[1] != "N"):
            return ("nil-task", "SendTask(nil) at %d: %s" % (tc, r))
        # send after close never blocks
        if close_t is not None:
            if tc >= close_t and (r is None or r[0] != tc):
                return ("blocks-after-close", "call %s made at %d after the close at %d %s" % (
                    (i, j), tc, close_t, "never returned" if r is None else "returned only at %d" % r[0]))
            if tc < close_t and (r is None or r[0] > close_t):
                return ("blocks-after-close", "call %s made at %d was still blocked after the close at %d (%s)" % (
                    (i, j), tc, close_t, "never returned" if r is None else "returned at %d" % r[0]))
        # a full open queue blocks the sender (so nothing is dropped): covered by 'dropped'
    # Get
    for k, gi in log.g.items():
        if gi is None:
            continue
        f = script.acts[k].split(":")
        i, j = int(f[1]), int(f[2])
        if j >= len(progs[i]):
            continue
        op = progs[i][j]
        t0, t1, r, e = gi
        if op[0] == "n":
            if (t1, r, e) != (t0, 0, 0):
                return ("get-empty", "Get on the task of SendCallback(nil): returned (%d,%d) at %d, started %d" % (r, e, t1, t0))
            continue
        if op[0] != "h":
            continue
        want = (int(op[1]), int(op[2]) if f[0] == "G2" else 0)
        yt = log.y.get((i, j))
        if yt is None:
            if t1 != -1:
                return ("get-early", "%s on task %s returned (%d,%d) at %d although the task was never executed" % (f[0], (i, j), r, e, t1))
            continue
        if t1 == -1:
            return ("get-stuck", "%s on task %s started %d never returned although the handler finished at %d" % (f[0], (i, j), t0, yt))
        if t1 != max(t0, yt):
            return ("get-time", "%s on task %s started %d returned at %d; the handler finished at %d" % (f[0], (i, j), t0, t1, yt))
        if (r, e) != want:
            return ("get-value", "%s on task %s returned (%d,%d); its handler returned (%s,%s)" % (f[0], (i, j), r, e, op[1], op[2]))
    return None


# ------------------------------------------------------------------ generators
DURS = [1, 3, 5, 301, 1025, 2049, 3001]


def rand_op(rng):
    c = rng.below(20)
    if c < 14:
        return "h:%d:%d:%d" % (rng.range(0, 9), rng.choice([0, 0, 1, 2, 7]), rng.choice(DURS))
    if c < 16:
        return "n"
    if c < 19:
        return "t:0:%d:%d" % (rng.choice([0, 3]), rng.choice(DURS))
    return "z"


def gen_random(rng, size, nprod, length, close=True, slow=True):
    acts = []
    ncalls = [0] * nprod
    closed = False
    for _ in range(length):
        c = rng.below(100)
        if c < (55 if slow else 40):
            i = rng.below(nprod)
            acts.append("P%d:%s" % (i, rand_op(rng)))
            ncalls[i] += 1
        elif c < (70 if slow else 75):
            acts.append("R")
        elif c < 92:
            i = rng.below(nprod)
            j = rng.below(ncalls[i] + 1) if rng.chance(1, 6) else rng.below(max(1, ncalls[i]))
            acts.append("G%d:%d:%d" % (rng.range(1, 2), i, j))
        elif close and not closed and rng.chance(1, 2):
            acts.append("C")
            closed = True
        else:
            acts.append("R")
    return acts


def gen(rng, tier):
    mult = 1 if tier == "quick" else 12
    out = []
    # close at every position of short histories
    for _ in range(40 * mult):
        size, nprod = rng.range(1, 3), rng.range(1, 3)
        base = gen_random(rng, size, nprod, rng.range(6, 10), close=False)
        for pos in range(len(base) + 1):
            out.append(Script(size, nprod, base[:pos] + ["C"] + base[pos:] + ["R", "R"], "close-every-position"))
    for _ in range(1200 * mult):
        size, nprod = rng.range(1, 8), rng.range(1, 4)
        out.append(Script(size, nprod, gen_random(rng, size, nprod, rng.range(8, 40)), "random"))
    for _ in range(400 * mult):
        size, nprod = rng.range(1, 2), rng.range(2, 4)
        out.append(Script(size, nprod, gen_random(rng, size, nprod, rng.range(10, 30), slow=True), "full-multi-blocked"))
    for _ in range(300 * mult):
        size, nprod = rng.range(1, 8), rng.range(1, 4)
        out.append(Script(size, nprod, gen_random(rng, size, nprod, rng.range(10, 40), slow=False), "fast-consumer"))
    return out


# ------------------------------------------------------------------ running
def process(chk, binary, scripts, record=True):
    impl = fttaskx.run(binary, [s.line() for s in scripts])
    logs = [Log(il) for il in impl]
    mls, stepss = [], []
    for s, lg in zip(scripts, logs):
        if lg.ok and impl[len(mls)] != "SKIPPED":
            ml, st = model_line(s, lg)
        else:
            ml, st = "c09m size=1 progs=-", []
        mls.append(ml)
        stepss.append(st)
    mo = common.run_model(mls)
    stats = dict(multi_blocked=0, admitted_not_fifo=0, after_close_sent=0, after_close_skipped=0, getters_blocked=0, blocked_calls=0)
    for s, il, lg, ml, st, m in zip(scripts, impl, logs, mls, stepss, mo):
        case = s.line()
        if record:
            chk.count_case(s.stream, case, len(lg.x) >= 2 if lg.ok else False)
            chk.cov["programs"] += 1
            chk.cov["disagreements_checked"] += 1
        note = compare(s, il, m, st, lg)
        if note is not None:
            chk.diverge(s.stream, case, m[:600], il[:600], note)
        elif record:
            chk.cov["traces_validated_against_impl"] += 1
        mf = monitor(s, il)
        if mf is not None:
            chk.monitor_fail(mf[0], case, il[:800], mf[1])
        nb, closed = 0, False
        for ev in m.split(" | ")[0].split():
            if ev.startswith("blocked:"):
                nb += 1
                stats["blocked_calls"] += 1
                if nb >= 2:
                    stats["multi_blocked"] += 1
            elif ev.startswith("recv:") and not ev.endswith(":-"):
                nb -= 1
            elif ev.startswith("close:"):
                nb, closed = 0, True
            elif ev.startswith("sent:") and closed:
                stats["after_close_sent"] += 1
            elif ev.startswith("skipped:"):
                stats["after_close_skipped"] += 1
            elif ev == "get:blocked":
                stats["getters_blocked"] += 1
        stats["admitted_not_fifo"] += sum(1 for x in st if x[0].startswith("R:") and x[0] != "R:0")
    return impl, mls, mo, stats


def coq_crosscheck(chk, mls, mo):
    items = []
    for ml, m in zip(mls, mo):
        t = ml.split()
        if len(t) < 4 or len(t) > 60 or " | " not in m + " ":
            continue
        size = int(t[1][5:])
        progs = []
        for p in t[2][6:].split("/"):
            ops = []
            for o in ([] if p in ("-", "") else p.split(",")):
                f = o.split(":")
                if f[0] == "h":
                    ops.append("TqCallback (Some (%s, %s)%%Z)" % (f[1], f[2]))
                elif f[0] == "n":
                    ops.append("TqCallback None")
                elif f[0] == "t":
                    ops.append("TqTask (Some (%s, %s)%%Z)" % (f[1], f[2]))
                else:
                    ops.append("TqTask None")
            progs.append("[" + ";".join(ops) + "]")
        sched, exp, wexp = [], [], []
        evs = m.split(" | ")[0].split()
        popsl = [([] if p in ("-", "") else p.split(",")) for p in t[2][6:].split("/")]
        grets = {}
        for x in m.split(" | ")[1].split() if " | " in m else []:
            if x.startswith("gret:"):
                g = x.split(":")
                grets[int(g[1])] = g[2:]
        for n, (tok, ev) in enumerate(zip(t[3:], evs)):
            f = tok.split(":")
            e = ev.split(":")
            if f[0] == "G":
                if ev == "get:noref":
                    continue
                # the handle the call returned (theorem tq_call_returns_own_handle)
                op = popsl[int(f[1])][int(f[2])]
                sched.append("TqGGet TqHEmpty" if op == "n" else "TqGGet (TqHTask (%s, %s))" % (f[1], f[2]))
                if e[1] == "blocked":
                    exp.append("(11,0,0)")
                    g = grets.get(n)
                    wexp.append("None" if g is None or g[0] == "never" else "Some (%s, %s)%%Z" % (g[1], g[2]))
                else:
                    exp.append("(10,%s,%s)" % (e[1], e[2]))
                    wexp.append("Some (%s, %s)%%Z" % (e[1], e[2]))
                continue
            if f[0] == "P":
                sched.append("TqGBase (TqProd %s %s)" % (f[1], "true" if f[2] == "1" else "false"))
            elif f[0] == "R":
                sched.append("TqGBase (TqRecv %s)" % f[1])
            else:
                sched.append("TqGBase " + {"S": "TqStore", "D": "TqDone", "C": "TqClose"}[f[0]])
            code = ["sent", "blocked", "skipped", "empty", "nil", "recv", "store", "done", "close", "none"].index(e[0])
            a, b = (int(e[1]), int(e[2])) if e[0] in ("sent", "blocked", "skipped", "recv", "store", "done") else (0, 0)
            exp.append("(%d,%d,%d)" % (code, a, b))
        items.append("(%d, [%s], [%s], [%s], [%s])" % (size, ";".join(progs), ";".join(sched), ";".join(exp), ";".join(wexp)))
        if len(items) >= 150:
            break
    if not items:
        return 0
    body = """From Got Require Import Base TaskQueue.
Local Open Scope nat_scope.
Definition code (e : tq_ev) : nat * nat * nat :=
  match e with
  | TqESent _ t => (0, fst (tq_id t), snd (tq_id t)) | TqEBlocked _ t => (1, fst (tq_id t), snd (tq_id t))
  | TqESkipped _ t => (2, fst (tq_id t), snd (tq_id t)) | TqERetEmpty _ => (3, 0, 0) | TqERetNil _ => (4, 0, 0)
  | TqERecv t _ => (5, fst (tq_id t), snd (tq_id t)) | TqEStore t => (6, fst (tq_id t), snd (tq_id t))
  | TqEDone t => (7, fst (tq_id t), snd (tq_id t)) | TqEClose _ => (8, 0, 0) | TqENone => (9, 0, 0) end.
Definition gcode (e : tq_gev) : nat * nat * nat :=
  match e with
  | TqGEBase b _ => code b | TqGERet _ p => (10, Z.to_nat (fst p), Z.to_nat (snd p)) | TqGEPark _ => (11, 0, 0) end.
Fixpoint eqb3 (a b : list (nat * nat * nat)) : bool :=
  match a, b with
  | [], [] => true
  | (x1, y1, z1) :: a', (x2, y2, z2) :: b' => (x1 =? x2) && (y1 =? y2) && (z1 =? z2) && eqb3 a' b'
  | _, _ => false end.
Definition eqbo (a b : option tq_pair) : bool :=
  match a, b with
  | None, None => true
  | Some (x1, y1), Some (x2, y2) => (x1 =? x2)%%Z && (y1 =? y2)%%Z
  | _, _ => false end.
Fixpoint eqbw (a b : list (option tq_pair)) : bool :=
  match a, b with
  | [], [] => true
  | x :: a', y :: b' => eqbo x y && eqbw a' b'
  | _, _ => false end.
(* the waiters' returns reported by the events = the waiters' final states *)
Definition rets_of_events (n : nat) (tr : list tq_gev) : list (option tq_pair) :=
  map (fun w => option_map snd (find (fun x => fst x =? w) (tq_greturns tr))) (seq 0 n).
Definition ok (c : nat * list (list tq_op) * list tq_gact * list (nat * nat * nat) * list (option tq_pair)) : bool :=
  match c with (cap, progs, gs, e, we) =>
    let '(g, tr) := tq_grun (tq_ginit cap progs) gs in
    eqb3 (map gcode tr) e && eqbw (map tq_w_ret (tq_waiters g)) we &&
    eqbw (rets_of_events (length (tq_waiters g)) tr) we &&
    eqb3 (map code (tq_gbase_trace tr)) (map code (tq_trace (tq_init cap progs) (tq_gbase_sched gs))) end.
Definition cases := [%s].
Definition bad := Eval vm_compute in length (filter (fun c => negb (ok c)) cases).
Print bad.
""" % ";\n".join(items)
    out = common.run_coq_eval(body)
    if not re.search(r"bad = 0(%nat)?\s", out.replace("\n", " ") + " "):
        chk.diverge("vm_compute-vs-extraction", "sample of %d cases" % len(items), out[-300:], "", "extracted OCaml model disagrees with vm_compute")
    return len(items)


def corpus_scripts():
    return [Script.parse(c) for c in pure.corpus_cases("C09") if c.startswith("c09 ")]


def run(chk):
    chk.trusted = common.BASE_TRUSTED + [
        "Go faketime runtime (playground clock) as the source of virtual time; harness/cmd/fttaskx orchestration (one action per virtual instant)",
        "modelled, not verified: Go buffered channel = bounded FIFO with queued blocked senders (a receive from a full buffer admits one blocked sender in the "
        "same step; which one is read from the log), select with both branches ready takes either, close wakes every blocked sender through the close branch, "
        "sync.WaitGroup (Get blocks until Done), a handler as the constant pair it returns",
    ]
    chk.assumptions = ["one consumer that executes each received task once (the property's quantifier)", "a task object is sent once"]
    chk.cov["rule"] = ("case = script of 8..40 actions (producer calls SendCallback/SendTask incl. nil, consumer receive+execute, close, Get1/Get2 start) for queue "
                       "sizes 1-8 and 1-4 producers, each action at its own virtual instant; streams: close at every position of short histories, random, "
                       "size 1-2 with several producers blocked at once, fast consumer; non-trivial = at least 2 tasks executed; distinct = distinct script")
    chk.run_proof_gate(PROOFS)
    binary = fttaskx.build(chk)
    if binary:
        scripts = corpus_scripts() + gen(chk.rng, chk.tier)
        try:
            impl, mls, mo, stats = process(chk, binary, scripts)
            chk.cov.update(stats)
            seen = set()
            for s, il, m in zip(scripts, impl, mo):
                if s.stream not in seen:
                    seen.add(s.stream)
                    chk.sample(dict(stream=s.stream, case=s.line()[:500], model=m[:400], impl=il[:400]), limit=8)
            race_stream(chk, binary)
            identity_stream(chk, binary)
            try:
                chk.cov["vm_compute_crosschecked"] = coq_crosscheck(chk, mls, mo)
            except Exception as ex:
                chk.infra_errors.append("vm_compute cross-check failed: %r" % (ex,))
        except Exception as ex:
            import traceback
            chk.infra_errors.append("correspondence run failed: %r %s" % (ex, traceback.format_exc()[-800:]))
    chk.finish(search=search)


def race_stream(chk, binary):
    """Producers released at the SAME virtual instant race for the last free slots (the runtime
    interleaves them for real on 2 Ps), no consumer, then the close channel is closed: every send
    must return. Monitor only (theorem: tq_send_after_close_never_blocks)."""
    quick = chk.tier == "quick"
    trials = 10000 if quick else 60000
    cfgs = [(1, 8, 1, "cb"), (4, 16, 2, "cb")] if quick else [(1, 8, 1, "cb"), (2, 4, 1, "task"), (4, 16, 2, "cb"), (2, 2, 1, "cb"), (8, 12, 3, "task")]
    cases = ["c09race size=%d prods=%d free=%d trials=%d kind=%s" % (s_, p_, f_, trials, k_) for s_, p_, f_, k_ in cfgs]
    outs = fttaskx.run(binary, cases)
    for c, o in zip(cases, outs):
        chk.count_case("simultaneous-producers-then-close", c, True)
        m = re.match(r"trials=(\d+) stuck=(\d+) first=(-?\d+) maxlen=(\d+)$", o)
        if not m:
            chk.monitor_fail("crash", c, o[:300], "race scenario gave no result")
        elif int(m.group(2)) > 0:
            chk.monitor_fail("blocks-after-close", c, o, "%s of %s trials: a send that raced for the last free slot was still blocked 1 ms (virtual) after the close channel was closed (first: trial %s)" % (m.group(2), m.group(1), m.group(3)))
    chk.sample(dict(stream="simultaneous-producers-then-close", case=cases[0], impl=outs[0]), limit=9)


def identity_stream(chk, binary):
    """One producer, nobody consuming between the sends of a run: what arrives on C is compared BY IDENTITY and in order with
    what was sent, for every kind of Task -- user tasks, callback tasks and the already-completed empty task handed to SendTask
    (SendCallback(nil) / SendTask(nil) send nothing). Monitor only."""
    rng = chk.rng.fork()
    cases = []
    for _ in range(60 if chk.tier == "quick" else 600):
        n = rng.range(1, 12)
        seq = [rng.choice(["e", "e", "h", "t", "h", "n", "z"]) for _ in range(n)]
        cases.append("c09e size=%d seq=%s" % (rng.choice([1, 1, 2, 3, 8]), ",".join(seq)))
    cases += ["c09e size=1 seq=e", "c09e size=2 seq=h,e,h", "c09e size=4 seq=e,e,t,e"]
    outs = fttaskx.run(binary, cases)
    for c, o in zip(cases, outs):
        seq = c.split("seq=")[1].split(",")
        chk.count_case("sent-tasks-by-identity", c, "e" in seq)
        want = sum(1 for k in seq if k in "eht")
        m = re.match(r"sent=(\d+) got=(\d+) match=(\S+)$", o)
        if not m:
            chk.monitor_fail("crash", c, o[:300], "identity scenario gave no result")
        elif int(m.group(1)) != want or int(m.group(2)) != want or m.group(3) != "ok":
            chk.monitor_fail("dropped-or-reordered", c, o, "one producer sent %d tasks (kinds %s; e = the empty task through SendTask), nobody else used the queue: "
                             "%s arrived on the channel, first difference from the sent sequence (by identity) at position %s" % (
                                 want, ",".join(seq), m.group(2), m.group(3)))
    chk.sample(dict(stream="sent-tasks-by-identity", case=cases[0], impl=outs[0]), limit=9)


def search(chk):
    binary = fttaskx.build(chk)
    if not binary:
        return
    scripts = corpus_scripts() + gen(chk.rng.fork(), "thorough")[:3000]
    impl = fttaskx.run(binary, [s.line() for s in scripts])
    for s, il in zip(scripts, impl):
        mf = monitor(s, il)
        if mf:
            chk.monitor_fail(mf[0], s.line(), il[:800], mf[1])


def replay(chk, path):
    rep = json.load(open(path))
    binary = fttaskx.build(chk)
    cases = [x["case"] for x in rep.get("failing_inputs", []) + rep.get("divergences", [])
             if isinstance(x.get("case"), str) and x["case"].startswith("c09 ")]
    bad = 0
    for c in cases:
        s = Script.parse(c)
        il = fttaskx.run(binary, [s.line()])[0]
        lg = Log(il)
        note, m = "no log", ""
        if lg.ok:
            ml, st = model_line(s, lg)
            m = common.run_model([ml])[0]
            note = compare(s, il, m, st, lg)
        mf = monitor(s, il)
        print("case=%s\n  model=%s\n  impl=%s\n  monitor=%s compare=%s" % (c[:600], m[:600], il[:600], mf, note))
        if mf or note:
            bad += 1
    print("replayed %d case(s), %d still failing" % (len(cases), bad))
    raise SystemExit(1 if bad else 0)
