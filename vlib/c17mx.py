# C17, stream family "mutex-stepped": MutexWord.v's thread model (mx_step) against the REAL source of
# sync.Mutex of the Go toolchain in use + the real loom.Mutex.TryLock, on ONE state word.
#
# On every run vlib/mxgen.py reads $GOROOT/src/sync/mutex.go (Go <= 1.23) or
# $GOROOT/src/internal/sync/mutex.go (newer), copies Lock/lockSlow/Unlock/unlockSlow with token
# substitutions only (atomic accesses of m.state and the semaphore calls -> shims that yield first)
# into the scratch build directory and builds harness/cmd/mxstep with `go build -overlay` (nothing
# generated is ever in the tree). The copy operates on the state word of the embedded sync.Mutex of a
# real loom.Mutex, so loom's TryLock (its own three verif yield sites) and the copy's Lock/Unlock
# meet on the same word under the cooperative scheduler. The extracted model runs the same programs and
# schedule; every step is compared exactly: thread, pc before, the access with its operands and outcome
# (CAS old/new/ok, AddInt32 delta, load, Semacquire/Semrelease+handoff), pc after or returned value,
# the word after the step, the semaphore tokens after the step.
import hashlib
import json
import os
import re
import shutil

from . import common
from . import mxgen

ALL_PCS = ["LFast", "LLoad", "LSpin", "LCas", "LSleep", "LWoke", "LHand", "T1", "T2", "T3", "U1", "USlow", "ULoad", "URel"]

# functions_sha256 (mxgen: const block + struct + the four methods, comments stripped) of the sources
# that were read line by line against MutexWord.v
READ_AGAINST_MODEL = {
    "84080f70748c474e5b713aba4b1002a949b3ec575404f6d62968ce251bfbf970": "go1.23.5 src/sync/mutex.go",
    "7fb477326ee793026e4c05c50742f61e46aa6d5b006919c76acc76c74d59ad29": "go1.26.8 src/internal/sync/mutex.go",
}


# ------------------------------------------------------------------ build
def build(chk):
    """-> (binary | None, info). info['skipped'] is set when the toolchain's source is not recognised."""
    try:
        # VERIF_MUTEX_GOROOT: read the source under another root (to try the generator on other toolchains' sources)
        text, info = mxgen.generate(env=common.GOENV, root=os.environ.get("VERIF_MUTEX_GOROOT") or None)
    except mxgen.NotRecognised as e:
        return None, dict(e.info or {}, skipped="sync.Mutex source of this toolchain not recognised; stream skipped (%s)" % e)
    except Exception as e:  # unreadable GOROOT etc.: a toolchain matter, not one of lixianmin/got
        return None, dict(skipped="sync.Mutex source of this toolchain not readable; stream skipped (%r)" % (e,))
    info["read_against_model"] = READ_AGAINST_MODEL.get(info["functions_sha256"], "no (shape recognised, text differs from the versions read by hand)")
    td = common.tmpdir()
    gen = os.path.join(td, "mutex_gen.go")
    with open(gen, "w") as f:
        f.write(text)
    ov = os.path.join(td, "overlay.json")
    with open(ov, "w") as f:
        json.dump({"Replace": {os.path.join(common.HARNESS, "cmd", "mxstep", "mutex_gen.go"): gen}}, f)
    out = os.path.join(td, "mxstep")
    cmd = ["go", "build", "-tags", "verif mxgen", "-overlay", ov]
    if os.path.realpath(common.REPO) != "/repo":
        mf = os.path.join(td, "go.mod")
        with open(mf, "w") as f:
            f.write(open(os.path.join(common.HARNESS, "go.mod")).read().replace("=> /repo", "=> " + os.path.realpath(common.REPO)))
        if os.path.exists(os.path.join(common.HARNESS, "go.sum")):
            shutil.copy(os.path.join(common.HARNESS, "go.sum"), os.path.join(td, "go.sum"))
        cmd.append("-modfile=" + mf)
    cmd += ["-o", out, "./cmd/mxstep"]
    rc, log = common.sh(cmd, cwd=common.HARNESS, env=common.GOENV, timeout=900)
    if rc != 0:
        # a source text never seen before whose copy does not compile with the shims: a toolchain matter (note);
        # anything else (known source, or errors in loom / the harness itself) is an error of this check
        if "mutex_gen.go" in log and "lixianmin" not in log and info["functions_sha256"] not in READ_AGAINST_MODEL:
            return None, dict(info, skipped="generated copy of sync.Mutex does not compile with the shims; stream skipped: " + log[-400:])
        chk.infra_errors.append("mxstep harness does not build against /repo working tree: " + log[-1500:])
        return None, info
    lay = common.run_impl(out, ["c17xinfo"])[0]
    info["layout"] = lay
    if "generated=true" not in lay:
        chk.infra_errors.append("mxstep binary does not contain the generated copy of sync.Mutex: " + lay)
        return None, info
    if not lay.startswith("layout=true"):
        return None, dict(info, skipped="sync.Mutex of this toolchain is not struct{state int32; sema uint32} at offset 0; stream skipped: " + lay)
    return out, info


# ------------------------------------------------------------------ cases
def case_x(progs, sched):
    return "c17x progs=%s sched=%s" % (";".join(".".join(p) for p in progs), ",".join(map(str, sched)))


def enum(items, mode, mx, depth=None):
    """items: [(progs, prefix)] -> [(progs, nstates, scheds)] with one model call"""
    lines = []
    for progs, prefix in items:
        l = "c17xenum mode=%s max=%d progs=%s" % (mode, mx, ";".join(".".join(p) for p in progs))
        if prefix:
            l += " prefix=" + ",".join(map(str, prefix))
        if depth:
            l += " depth=%d" % depth
        lines.append(l)
    outs = common.run_model(lines) if lines else []
    res = []
    for (progs, _), out in zip(items, outs):
        m = re.match(r"states=(\d+) scheds=(.*)$", out)
        if not m:
            raise RuntimeError("c17xenum failed: " + out[:200])
        res.append((progs, int(m.group(1)), [[int(x) for x in s.split(",")] for s in m.group(2).split(";") if s]))
    return res


def subsample(rng, l, n):
    if len(l) <= n:
        return l
    idx = list(range(len(l)))
    rng.shuffle(idx)
    return [l[i] for i in sorted(idx[:n])]


def random_schedule(rng, nthreads, length):
    sched = []
    prio = list(range(nthreads))
    rng.shuffle(prio)
    while len(sched) < length:
        burst = rng.choice([1, 1, 1, 2, 2, 3, 4, 6])
        t = prio[0] if rng.chance(1, 2) else rng.choice(prio)
        sched += [t] * burst
        if rng.chance(1, 3):
            rng.shuffle(prio)
    return sched[:length]


def L(sp=0, st=0):
    return "L%d:%d" % (sp, st)


def rand_prog(rng, nops):
    p = []
    for _ in range(nops):
        if rng.chance(1, 3):
            p += ["T", "U"]
        else:
            p += [L(rng.choice([0, 0, 1, 2]), rng.choice([0, 0, 1, 2])), "U"]
    return p


def gen(chk, tier):
    rng = chk.rng
    quick = tier == "quick"
    streams = []
    nst = 0

    # (1) every interleaving of 2 threads
    lu = [[L(0, 0), "U"], [L(1, 0), "U"], [L(2, 1), "U"], [L(0, 1), "U"], [L(0, 2), "U"], ["T", "U"]]
    items = []
    for i, a in enumerate(lu):
        for b in lu[i:]:
            items.append(([a, b], None))
    # two rounds for one thread: the waiter loses the race after its wake-up, switches to starvation
    # mode, gets the lock by hand-off (deterministically covered: every interleaving)
    items.append(([[L(0, 9), "U", L(0, 9), "U"], [L(0, 0), "U"]], None))
    items.append(([[L(0, 9), "U", "T", "U"], [L(0, 0), "U"]], None))
    items.append(([["T", "U", "T", "U"], [L(1, 1), "U"]], None))
    ex = []
    for progs, _, scheds in enum(items, "all", 20000 if quick else 400000):
        ex += [case_x(progs, s) for s in scheds]
    streams.append(("mx-all-interleavings-2thr", ex))

    # (2) 3 threads: one schedule per reachable (model state, enabled thread) edge
    items = [([[L(0, 0), "U"], [L(0, 0), "U"], ["T", "U"]], None),          # TryLock CAS2 against unlockSlow: ULoad
             ([[L(0, 0), "U"], [L(0, 0), "U"], [L(2, 0), "U"]], None),      # spin CAS sets mutexWoken: LSpin
             ([[L(0, 9), "U", L(0, 9), "U"], [L(0, 0), "U"], ["T", "U"]], None),   # TryLock in starvation mode / hand-off window
             ([[L(1, 1), "U"], [L(2, 0), "U"], [L(0, 2), "U"]], None)]
    for _ in range(2 if quick else 12):
        items.append(([rand_prog(rng, rng.range(1, 2)) for _ in range(3)], None))
    ed = []
    for k, (progs, n, scheds) in enumerate(enum(items, "edges", 400000)):
        nst += n
        keep = scheds if k < 2 else subsample(rng, scheds, 1200 if quick else 40000)
        ed += [case_x(progs, s) for s in keep]
    streams.append(("mx-state-edge-cover-3thr", ed))

    # (3) 4 threads: edge cover (sampled in the quick tier), spin / starve oracles in {0,1,2}
    items = [([[L(0, 0), "U"], [L(0, 0), "U"], [L(0, 0), "U"], ["T", "U"]], None),
             ([[L(1, 1), "U"], [L(0, 0), "U"], [L(0, 1), "U"], ["T", "U"]], None)]
    for _ in range(1 if quick else 6):
        items.append(([rand_prog(rng, 1) for _ in range(4)], None))
    ed4 = []
    for progs, n, scheds in enum(items, "edges", 300000 if quick else 2000000):
        nst += n
        ed4 += [case_x(progs, s) for s in subsample(rng, scheds, 700 if quick else 60000)]
    streams.append(("mx-state-edge-cover-4thr", ed4))

    # (4) random bursty schedules, 3-4 threads, 1-3 acquire/release pairs each
    rd = []
    for _ in range(700 if quick else 30000):
        nt = rng.choice([3, 4, 4])
        progs = [rand_prog(rng, rng.range(1, 3)) for _ in range(nt)]
        total = sum(len(p) for p in progs)
        rd.append(case_x(progs, random_schedule(rng, nt, rng.range(6, 9 * total))))
    streams.append(("mx-random-3-4thr", rd))
    chk.cov["mx_model_states_enumerated"] = nst
    return streams


# ------------------------------------------------------------------ parsing
def parse(line):
    """-> dict(steps=[(tid, what, word, tokens)], fin=[...], stuck, msg) or None"""
    if not line.startswith("steps="):
        return None
    d = dict(steps=[], fin=[], stuck=False, msg="")
    for tok in line.split(" "):
        if tok.startswith("steps=") or tok.startswith("fin="):
            key, body = tok.split("=", 1)
            for st in body.split(";"):
                if not st:
                    continue
                f = st.split(",")
                if len(f) != 4:
                    return None
                try:
                    d[key].append((int(f[0]), f[1], int(f[2]), int(f[3])))
                except ValueError:
                    return None
        elif tok == "STUCK":
            d["stuck"] = True
        elif tok.startswith("msg="):
            d["msg"] = tok[4:]
    return d


def strip_msg(line):
    return re.sub(r" msg=\S*$", "", line)


def compare(case, model, impl):
    if impl.startswith("layout="):
        return None
    if model == strip_msg(impl):
        return None
    pm, pi = parse(model), parse(impl)
    if pm is None:
        return "model produced no trace (%s)" % model[:200]
    if pi is None:
        return "implementation produced no trace (%s)" % impl[:200]
    for phase in ("steps", "fin"):
        for k, (a, b) in enumerate(zip(pm[phase], pi[phase])):
            if a != b:
                return ("%s step %d differs (thread, pc:access>pc', word, tokens): model %s, implementation %s"
                        % ("scheduled" if phase == "steps" else "completion", k, a, b))
        if len(pm[phase]) != len(pi[phase]):
            return "%s phase: model %d steps, implementation %d" % (phase, len(pm[phase]), len(pi[phase]))
    return "trace differs (stuck: model %s, implementation %s)" % (pm["stuck"], pi["stuck"])


def nontrivial(case, model):
    return ("blocked" in model) or (":0>" in model) or ("LSleep" in model)


# ------------------------------------------------------------------ monitor (implementation side only)
def monitor(case, impl, skip=()):
    """C17 restated on the implementation's own trace: a holder = thread between a successful Lock/TryLock
    return and its Unlock call; at most one at any step; TryLock returns true only on a word that is neither
    locked nor starving and only sets the locked bit; Unlock by a holder never panics; no throw/fatal; no
    thread stays blocked for ever; when every call has returned the word is 0 and no token is left."""
    if impl.startswith("PANIC") or impl == "BADCASE" or impl.startswith("HANG") or impl.startswith("SKIPPED"):
        return ("crash", "harness/handler failure: " + impl[:200])
    p = parse(impl)
    if p is None:
        return ("crash", "no trace from the implementation: " + impl[:200])
    holders = []
    word = 0
    seq = p["steps"] + p["fin"]
    fails = []
    for k, (tid, what, w, tok) in enumerate(seq):
        before = word
        word = w
        if what.endswith(">panic"):
            fails.append(("mutex-throw", "step %d: thread %d at %s: the mutex code threw (%s) -- sync.Mutex's own consistency check / "
                          "'unlock of unlocked mutex' fired under Lock/TryLock/Unlock by well-formed callers" % (k, tid, what, p["msg"])))
            if tid in holders:
                holders.remove(tid)
        if what == "inv>U1":
            if tid in holders:
                holders.remove(tid)
        elif what.endswith(">ret:lock") or what.endswith(">ret:try=true"):
            holders.append(tid)
            if len(holders) > 1:
                fails.append(("two-holders", "step %d: thread %d returned from %s while thread %d still holds the mutex (word before %d, after %d): "
                              "two holders" % (k, tid, "TryLock()=true" if "try" in what else "Lock()", holders[0], before, w)))
            if what.endswith("try=true") and "trylock-while-held" not in skip:
                if before & 1 or before & 4:
                    fails.append(("trylock-while-held", "step %d: TryLock returned true on state word %d (locked=%d starving=%d)" % (k, before, before & 1, (before >> 2) & 1)))
                if w != before | 1:
                    fails.append(("trylock-word", "step %d: TryLock returned true: word %d -> %d, must only set the locked bit" % (k, before, w)))
        elif what.endswith(">ret:try=false") or what.startswith("T1:") or what.startswith("T2:"):
            if w != before:
                fails.append(("trylock-word", "step %d: a TryLock access that did not acquire changed the word %d -> %d" % (k, before, w)))
        if holders and not (w & 1):
            fails.append(("holder-unlocked-word", "step %d: thread %d holds the mutex but the locked bit of the word %d is clear" % (k, holders[0], w)))
        if w < 0:
            fails.append(("word-negative", "step %d: state word %d" % (k, w)))
    if p["stuck"]:
        fails.append(("lost-wakeup", "threads stay blocked in SemacquireMutex for ever although every holder unlocked (word %d)" % word))
    if seq and (seq[-1][2] != 0 or seq[-1][3] != 0) and not holders and not p["stuck"]:
        fails.append(("unlock", "every call returned but the state word is %d with %d semaphore token(s) left" % (seq[-1][2], seq[-1][3])))
    if not fails:
        return None
    # one case, one report: the gravest consequence first, then the earliest
    prio = ["two-holders", "mutex-throw", "lost-wakeup", "holder-unlocked-word", "trylock-while-held", "trylock-word", "word-negative", "unlock"]
    fails.sort(key=lambda f: prio.index(f[0]))
    what = fails[0][1]
    if len(fails) > 1:
        what += " [also: " + "; ".join(sorted(set(f[0] for f in fails[1:]))) + "]"
    return (fails[0][0], what)


def coverage(impl_lines):
    pcs = {}
    feats = dict(starvation_mode=0, handoff_acquire=0, spin_cas_ok=0, woken_waiter=0, trylock_in_starvation=0,
                 trylock_true_cas2=0, unlockslow_reload=0, cas_failed=0, blocked_steps=0, steps=0)
    for line in impl_lines:
        p = parse(line)
        if p is None:
            continue
        word = 0
        for tid, what, w, tok in p["steps"] + p["fin"]:
            feats["steps"] += 1
            pc = what.split(":", 1)[0] if ":" in what and ">" in what else None
            if pc:
                pcs[pc] = pcs.get(pc, 0) + 1
            if w & 4:
                feats["starvation_mode"] += 1
            if what.startswith("LHand:") and what.endswith("ret:lock"):
                feats["handoff_acquire"] += 1
            if what.startswith("LSpin:") and ":1>" in what:
                feats["spin_cas_ok"] += 1
            if what.startswith("LSleep:acq"):
                feats["woken_waiter"] += 1
            if what.startswith("T2:") and word & 4:
                feats["trylock_in_starvation"] += 1
            if what.startswith("T3:") and what.endswith("try=true"):
                feats["trylock_true_cas2"] += 1
            if what.startswith("ULoad:"):
                feats["unlockslow_reload"] += 1
            if re.match(r"\w+:cas:-?\d+:-?\d+:0>", what):
                feats["cas_failed"] += 1
            if what == "blocked":
                feats["blocked_steps"] += 1
            word = w
    return pcs, feats


# ------------------------------------------------------------------ canary
CANARY = [
    # thread 3's TryLock ignores mutexStarving/mutexWoken (op B, harness-side mutated copy of loom's TryLock):
    # it takes the word {starving, 1 waiter} in the hand-off window; the woken waiter's AddInt32 then makes a second holder
    ("c17x progs=L0:9.U.L0:9.U;L0:0.U;B.U sched=0,0,1,1,1,1,0,0,0,0,0,0,0,0,1,1,1,0,0,0,1,1,2,2,2,2,1", "two-holders"),
]


def canary(chk, binary):
    cases = [c for c, _ in CANARY]
    impl = common.run_impl(binary, cases)
    model = common.run_model(cases)
    for (c, want), m, i in zip(CANARY, model, impl):
        mf = monitor(c, i, skip=("trylock-while-held",))   # the step-local TryLock check fires one step earlier
        cmpr = compare(c, m, i)
        if mf is None or mf[0] != want or cmpr is None:
            chk.diverge("mx-canary", c, m, i,
                        "a TryLock that ignores mutexStarving must be caught by the stepped stream (monitor %s, want %s; compare %s): "
                        "the observation is too weak" % (mf, want, cmpr))
    chk.cov["mx_canary"] = "mutated TryLock (ignores starving/woken) -> monitor two-holders + model divergence: caught"


# ------------------------------------------------------------------ vm_compute cross-check
def coq_prog(p):
    out = []
    for o in p:
        if o[0] == "L":
            a, b = o[1:].split(":")
            out.append("XLock %s %s" % (a, b))
        elif o[0] in "TB":
            out.append("XTryLock")
        else:
            out.append("XUnlock")
    return "[" + ";".join(out) + "]"


def coq_crosscheck(chk, cases, model_out):
    items = []
    for c, m in zip(cases, model_out):
        f = dict(t.split("=", 1) for t in c.split()[1:])
        progs = [[o for o in p.split(".") if o] for p in f["progs"].split(";")]
        sched = [x for x in f.get("sched", "").split(",") if x]
        pm = parse(m)
        if pm is None or len(pm["steps"]) != len(sched):
            continue
        items.append("(mx_obs (mx_init [%s]) [%s]%%nat, [%s])" % (
            ";".join(coq_prog(p) for p in progs), ";".join(sched),
            ";".join("(%d,%d)" % (w, t) for _, _, w, t in pm["steps"])))
    body = """From Got Require Import Base MutexWord.
Local Open Scope Z_scope.
Fixpoint mx_obs (s : mx_state) (sched : list nat) : list (Z * Z) :=
  match sched with
  | [] => []
  | i :: r => let s1 := fst (mx_step s i) in (mx_enc (xword s1), Z.of_nat (xsema s1)) :: mx_obs s1 r
  end.
Definition p_eqb (a b : Z * Z) : bool := (fst a =? fst b) && (snd a =? snd b).
Fixpoint l_eqb (a b : list (Z * Z)) : bool :=
  match a, b with [], [] => true | x :: a', y :: b' => p_eqb x y && l_eqb a' b' | _, _ => false end.
Definition cases := [%s].
Definition bad := Eval vm_compute in length (filter (fun c => negb (l_eqb (fst c) (snd c))) cases).
Print bad.
""" % ";\n".join(items)
    out = common.run_coq_eval(body)
    if "bad = 0%nat" not in out.replace("\n", " "):
        chk.diverge("mx-vm_compute-vs-extraction", "sample of %d cases" % len(items), out[-300:], "",
                    "extracted OCaml model (mx_step) disagrees with vm_compute")
    return len(items)


# ------------------------------------------------------------------ entry points used by c17.py
def run(chk):
    binary, info = build(chk)
    chk.cov["mx_source"] = {k: info[k] for k in ("file", "sha256", "goversion", "functions_sha256", "read_against_model", "sites", "layout") if k in info}
    if binary is None:
        if info.get("skipped"):
            chk.cov["mx_note"] = info["skipped"]
        return
    from . import pure
    streams = [("mx-corpus", [c for c in pure.corpus_cases("C17") if c.startswith("c17x")])] + gen(chk, chk.tier)
    names, cases = [], []
    for n, cs in streams:
        names += [n] * len(cs)
        cases += cs
    try:
        impl = common.run_impl(binary, cases)
    except common.ImplCrash as e:
        chk.infra_errors.append("mxstep harness crashed: " + str(e)[-1500:])
        return
    model = common.run_model(cases)
    seen = set()
    unread = info["functions_sha256"] not in READ_AGAINST_MODEL
    stale = []
    for n, c, m, i in zip(names, cases, model, impl):
        chk.count_case(n, c, nontrivial(c, m))
        chk.cov["programs"] += 1
        note = compare(c, m, i)
        chk.cov["disagreements_checked"] += 1
        if note is not None and unread:
            # a source text nobody compared with MutexWord.v: a step difference says the MODEL does not describe
            # this toolchain's sync.Mutex -- a toolchain matter; the monitors below still judge the real code
            stale.append((c, note))
        elif note is not None:
            chk.diverge(n, c, m, i, note)
        else:
            chk.cov["traces_validated_against_impl"] += 1
        mf = monitor(c, i)
        if mf is not None:
            chk.monitor_fail(mf[0], c, i, mf[1])
        if n not in seen:
            seen.add(n)
            chk.sample(dict(stream=n, case=c[:400], model=m[:400], impl=i[:400]), limit=16)
    if stale:
        chk.cov["mx_note"] = ("the sync.Mutex source of this toolchain has the known shape but a text that was not read against MutexWord.v, and "
                              "the model does not step like it (%d of %d cases differ; first: %s -- %s); the stream is inconclusive for this toolchain, "
                              "only its monitors were applied" % (len(stale), len(cases), stale[0][0][:300], stale[0][1][:300]))
    pcs, feats = coverage(impl)
    chk.cov["mx_pcs_stepped"] = pcs
    chk.cov["mx_features"] = feats
    missing = [p for p in ALL_PCS if not pcs.get(p)]
    wanted = [k for k in ("starvation_mode", "handoff_acquire", "spin_cas_ok", "woken_waiter", "trylock_in_starvation",
                          "trylock_true_cas2", "unlockslow_reload") if not feats[k]]
    if (missing or wanted) and not stale:
        chk.infra_errors.append("mutex-stepped stream did not exercise: pcs %s, situations %s" % (missing, wanted))
    if stale:
        return
    try:
        canary(chk, binary)
        sample = []
        for n, cs in streams[1:]:
            sample += cs[:: max(1, len(cs) // 15)][:15]
        chk.cov["mx_vm_compute_crosschecked"] = coq_crosscheck(chk, sample, common.run_model(sample))
    except Exception as ex:
        chk.infra_errors.append("mutex-stepped canary / vm_compute cross-check failed: %r" % (ex,))


def search(chk):
    binary, info = build(chk)
    if binary is None:
        return
    cases = [c for _, cs in gen(chk, "quick") for c in cs]
    for c, i in zip(cases, common.run_impl(binary, cases)):
        mf = monitor(c, i)
        if mf:
            chk.monitor_fail(mf[0], c, i, mf[1])
            return


def replay_cases(chk, cases):
    """-> number still failing"""
    if not cases:
        return 0
    binary, info = build(chk)
    if binary is None:
        print("mutex-stepped stream not available: %s" % info.get("skipped"))
        return 0
    impl = common.run_impl(binary, cases)
    model = common.run_model(cases)
    bad = 0
    for c, m, i in zip(cases, model, impl):
        mf = monitor(c, i)
        cmpr = compare(c, m, i)
        print("case=%s\n  model=%s\n  impl=%s\n  monitor=%s compare=%s" % (c, m, i, mf, cmpr))
        if mf or cmpr:
            bad += 1
    return bad
