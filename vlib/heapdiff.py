# heapdiff.py -- differential test of coq/lib/Heap.v (model of container/heap) against
#   * the real std.PriorityQueue (std/priority_queue.go)          tag "heap"
#   * container/heap driven directly by the harness               tag "heapraw"
#   * container/heap.Init                                         tag "heapinit"
# Random Push/Pop/Top/Fix/Remove sequences with integer priorities (many equal
# priorities; items are (priority, id) so equal priorities stay distinguishable); after
# every call the whole backing array and the returned value are compared EXACTLY.
# Go handlers: harness/cmd/pure/heap.go ; model handlers: ocaml/drv_heap.ml.
#
# Reusable:  heapdiff.run(chk, binary)            adds the streams to a Check
#            heapdiff.monitor(case, impl)         heap-property monitor on the implementation
#                                                 (used by a property ABOUT the queue, e.g. C10)
from . import common, pure

STREAM_PQ = "heap-vs-std.PriorityQueue"
STREAM_RAW = "heap-vs-container/heap"
STREAM_INIT = "heap-init-vs-container/heap.Init"


def gen_ops(rng, length, prio_hi, panic_ok):
    """one op sequence; tracks the size so that ops are mostly valid"""
    ops = []
    size = 0
    nid = 0
    for _ in range(length):
        r = rng.below(100)
        if size == 0:
            r = r if (panic_ok and rng.chance(1, 40)) else rng.below(45)
        if r < 45:
            nid += 1
            ops.append("P:%d:%d" % (rng.range(-prio_hi, prio_hi), nid))
            size += 1
        elif r < 70:
            ops.append("O")
            if size == 0:
                break  # panics: sequence ends
            size -= 1
        elif r < 80:
            ops.append("T")
        elif r < 90:
            i = rng.below(size) if size and not (panic_ok and rng.chance(1, 40)) else size + rng.below(3)
            nid += 1
            ops.append("F:%d:%d:%d" % (i, rng.range(-prio_hi, prio_hi), nid))
            if i >= size:
                break
        else:
            i = rng.below(size) if size and not (panic_ok and rng.chance(1, 40)) else size + rng.below(3)
            ops.append("R:%d" % i)
            if i >= size:
                break
            size -= 1
    return ops


def gen(rng, tier, which=("heap", "heapraw", "heapinit")):
    cnt = 600 if tier == "quick" else 10000
    streams = []
    for tag, name in (("heap", STREAM_PQ), ("heapraw", STREAM_RAW)):
        if tag not in which:
            continue
        cs = []
        for k in range(cnt):
            length = rng.choice([3, 8, 20, 60, 150]) if k % 10 else 400
            prio_hi = rng.choice([0, 1, 2, 5, 50, 1 << 40])
            basic_only = rng.chance(1, 3)
            ops = gen_ops(rng, length, prio_hi, panic_ok=True)
            if basic_only:
                ops = [o for o in ops if o[0] in "POT"]
            cs.append(tag + " " + " ".join(ops))
        # many pushes beyond the initial capacity, then drain completely
        for n in (1, 2, 33, 129, 300):
            ops = ["P:%d:%d" % (rng.range(0, 7), i) for i in range(n)] + ["O"] * (n + 1)
            cs.append(tag + " " + " ".join(ops))
        streams.append((name, cs))
    if "heapinit" in which:
        cs = []
        for _ in range(cnt):
            n = rng.choice([0, 1, 2, 3, 4, 5, 7, 8, 16, 31, rng.range(0, 200)])
            hi = rng.choice([0, 1, 3, 100])
            cs.append("heapinit " + " ".join("%d:%d" % (rng.range(-hi, hi), i) for i in range(n)))
        streams.append((STREAM_INIT, cs))
    return streams


def compare(case, model, impl):
    if model.startswith("MODEL-EXN") or "NOFUEL" in model:
        return "model failed: " + model[:100]
    if model != impl:
        ms, is_ = model.split(";"), impl.split(";")
        for k, (a, b) in enumerate(zip(ms, is_)):
            if a != b:
                return "array/returned value differ at call %d: model %s, implementation %s" % (k, a, b)
        return "different number of completed calls: model %d, implementation %d" % (len(ms), len(is_))
    return None


def parse_steps(line):
    steps = []
    if not line.strip():
        return steps
    for s in line.split(";"):
        if s == "PANIC":
            steps.append(None)
            break
        arr, val = s.split(">")
        arr = arr.strip("[]")
        items = [tuple(int(x) for x in it.split(".")) for it in arr.split(",")] if arr else []
        steps.append((items, val))
    return steps


def monitor(case, impl):
    """Heap properties restated on the implementation's observation: after every call the
    array is a heap, Pop/Top return a minimum of the array before the call, the multiset
    changes by exactly the pushed / returned item, a panic only for Pop-on-empty or a bad index."""
    toks = case.split()
    if toks[0] == "heapinit":
        return None
    ops = toks[1:]
    try:
        steps = parse_steps(impl)
    except Exception:
        return ("heap-parse", "unparsable observation " + impl[:100])
    prev = []
    for k, (op, st) in enumerate(zip(ops, steps)):
        f = op.split(":")
        if st is None:
            legit = (f[0] == "O" and not prev) or (f[0] in "FR" and int(f[1]) >= len(prev))
            if not legit:
                return ("heap-panic", "call %d (%s) panicked on array %s" % (k, op, prev))
            return None
        arr, val = st
        for c in range(1, len(arr)):
            if arr[c][0] < arr[(c - 1) // 2][0]:
                return ("heap-invariant", "after call %d (%s): element %d %s < its parent %s" % (k, op, c, arr[c], arr[(c - 1) // 2]))
        if f[0] == "P":
            exp = sorted(prev + [(int(f[1]), int(f[2]))])
        elif f[0] in "OR":
            v = tuple(int(x) for x in val.split("."))
            if f[0] == "O" and any(x[0] < v[0] for x in prev):
                return ("heap-pop-min", "call %d: Pop returned %s but the queue held a smaller priority: %s" % (k, v, prev))
            exp = sorted(prev)
            if v not in exp:
                return ("heap-multiset", "call %d: returned %s which was not in the queue" % (k, v))
            exp.remove(v)
        elif f[0] == "T":
            want = "nil" if not prev else None
            if (want == "nil") != (val == "nil"):
                return ("heap-top", "call %d: Top returned %s on %s" % (k, val, prev))
            if prev and any(x[0] < int(val.split(".")[0]) for x in prev):
                return ("heap-top", "call %d: Top returned %s, not a minimum of %s" % (k, val, prev))
            exp = sorted(prev)
        else:  # F
            exp = sorted(prev[:int(f[1])] + prev[int(f[1]) + 1:] + [(int(f[2]), int(f[3]))])
        if sorted(arr) != exp:
            return ("heap-multiset", "call %d (%s): contents %s, expected multiset %s" % (k, op, arr, exp))
        prev = arr
    return None


def nontrivial(case, model):
    return model.count(";") >= 4 or (case.startswith("heapinit") and case.count(":") >= 3)


def run(chk, binary, which=("heap", "heapraw", "heapinit"), with_monitor=False):
    """Adds the heap streams to chk (divergence = Heap.v does not describe container/heap /
    std.PriorityQueue). with_monitor=True also applies monitor() (for properties about the queue)."""
    streams = gen(chk.rng.fork(), chk.tier, which)
    mon = monitor if with_monitor else (lambda c, i: None)
    pure.run_streams(chk, binary, streams, compare, mon, nontrivial)
    return streams


def coq_crosscheck(chk, cases, model_out):
    """vm_compute of hp_run on a sample of op sequences vs the extracted OCaml result."""
    items = []
    for c, m in zip(cases, model_out):
        toks = c.split()
        if toks[0] not in ("heap", "heapraw") or len(toks) > 60:
            continue
        ops = []
        for o in toks[1:]:
            f = o.split(":")
            if f[0] == "P":
                ops.append("HpPush ((%s), (%s))" % (f[1], f[2]))
            elif f[0] == "O":
                ops.append("HpPop")
            elif f[0] == "T":
                ops.append("HpTop")
            elif f[0] == "F":
                ops.append("HpFixAt %s%%nat ((%s), (%s))" % (f[1], f[2], f[3]))
            else:
                ops.append("HpRemoveAt %s%%nat" % f[1])
        steps = parse_steps(m) if m else []
        if steps and steps[-1] is None:
            exp = "None"
        else:
            arr = steps[-1][0] if steps else []
            exp = "Some [" + ";".join("((%d), (%d))" % it for it in arr) + "]"
        items.append("(hp_run hp_zless [] [%s], %s)" % ("; ".join(ops), exp))
    if not items:
        return 0
    body = """From Got Require Import Base Heap.
Local Open Scope Z_scope.
Definition it_eqb (a b : Z * Z) : bool := (fst a =? fst b) && (snd a =? snd b).
Fixpoint l_eqb (a b : list (Z * Z)) : bool :=
  match a, b with [], [] => true | x :: a', y :: b' => it_eqb x y && l_eqb a' b' | _, _ => false end.
Definition ok (c : hp_res (list hp_zitem * list (option hp_zitem)) * option (list (Z * Z))) : bool :=
  match c with
  | (HpOk (l, _), Some e) => l_eqb l e
  | (HpPanic, None) => true
  | _ => false end.
Definition cases := [%s].
Definition bad := Eval vm_compute in length (filter (fun c => negb (ok c)) cases).
Print bad.
""" % ";\n".join(items)
    out = common.run_coq_eval(body)
    if "bad = 0%nat" not in out.replace("\n", " "):
        chk.diverge("vm_compute-vs-extraction(heap)", "sample of %d cases" % len(items), out[-300:], "", "extracted OCaml Heap model disagrees with vm_compute")
    return len(items)
