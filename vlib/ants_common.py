# ants_common.py -- shared by the C07 and C08 checks of /repo/ants (goroutine pool).
# Vehicle: faketime trace validation (DESIGN.md 4.3, tools/AGENT_GUIDE.md last section).
#   harness/cmd/ftants executes a timed script on the real pool under the virtual clock and
#   returns its log; log_to_history() turns the log into the model's input event history;
#   the extracted model (ocaml/drv_c07.ml, coq/models/Ants.v) replays it and must accept
#   every event and reproduce the observables; monitors restate C07/C08 on the raw log.
import os
import re

from . import common

PROOFS = ["proofs/AntsProofs.v", "proofs/AntsCancelProofs.v", "models/Ants.v"]
MS = 1000000

TRUSTED = [
    "modelled, not verified: Go channel semantics (FIFO buffer, FIFO blocked senders, hand-off = append + receiver step), "
    "sync.WaitGroup, context.WithTimeout (ctx1.Done() closed at the deadline or when the parent context is cancelled, whichever is first; "
    "Deadline() still reports creation + T), select choosing any ready case",
    "modelled: the dispatcher's 'store result/err, test err == nil, retry or onError, wg.Done' after its select is one model step "
    "(exact for the per-attempt-channel code: nobody else accesses result/err before wg.Done)",
    "faketime runtime (virtual clock advances only when every goroutine is blocked); cmd/ftants log; python log->history conversion "
    "(pickup / attempt-creation instants are taken from the handler's ctx deadline minus T; enqueue instants are chosen by the model)",
    "multi-pool scripts (ants_mp.py): python splits the log by pool and replays each pool on its own (ants_multi_pool_projection); the configuration used by the "
    "monitors is python's reading of the documented option semantics (eff_pool / eff_task), the one used by the replay is the model's (apo_create / ato_create); "
    "Get1() / Err() are replayed as AnGet2 reads (Get1 = Get2 with the error dropped; models/AntsGetters.v)",
    "replay driver (ocaml/drv_c07.ml): the log does not order the steps of ONE virtual instant; the driver tries the sorted order greedily and, if that rejects, "
    "searches all orders of the instant's enabled events (node budget 60000): a history is accepted iff some order is a run of the model",
]


def build(chk):
    try:
        return common.build_go("./cmd/ftants", tags="verif faketime")
    except common.BuildError as e:
        chk.infra_errors.append("ftants harness does not build against /repo working tree: " + str(e)[-1500:])
        return None


FT_ENV = dict(os.environ, GOMAXPROCS="2")


# ---------------------------------------------------------------- scripts
HUGE_R = 64
DEFAULT_T = 365 * 86400 * 10 ** 9   # createTaskOptions: timeout = 365 * timex.Day when WithTimeout is not given


class Task:
    def __init__(self, send, T, R, discard, onerr, behs, cancels=None):
        self.send, self.T, self.R, self.discard, self.onerr, self.behs = send, T, R, discard, onerr, behs
        # cancels[i]: the handler of behaviour i cancels the dispatchers' parent context right before it returns
        self.cancels = list(cancels) if cancels else [False] * len(behs)

    def tok(self, model=False):
        # the model's retry count is a nat: a retry count beyond HUGE_R ("retry until success": the scripted behaviours
        # end in a success) is passed to the model as the number of scripted attempts -- attempts stop at the first
        # success (ants_attempts_bounded / ants_result_matches), so the model's answers do not depend on the excess
        R = self.R if not (model and self.R > HUGE_R) else len(self.behs)
        return "%d,%d,%d,%d,%d|" % (self.send, self.T, R, int(self.discard), int(self.onerr)) + \
               "|".join("%d:%d:%d:%d" % (d, int(h), v, e) + (":1" if c else "") for (d, h, v, e), c in zip(self.behs, self.cancels))

    def prompt(self):
        """returns promptly once its context is cancelled: every behaviour honours ctx"""
        return all(h for _, h, _, _ in self.behs)


class TaskList(list):
    """the tasks of a script; pc: None = pool built without WithContextBuilder, t >= 0 = pool built with one shared
    cancellable parent context that the script cancels at t, -1 = such a pool, never cancelled by the script"""
    pc = None


def parse_script(line):
    t = line.split()
    assert t[0] == "ants"
    tasks = TaskList()
    rest = t[2:]
    if rest and rest[0].startswith("pc="):
        tasks.pc = int(rest[0][3:])
        rest = rest[1:]
    for tok in rest:
        parts = tok.split("|")
        h = [int(x) for x in parts[0].split(",")]
        behs = [tuple(int(x) for x in b.split(":")) for b in parts[1:]]
        tasks.append(Task(h[0], h[1], h[2], h[3] == 1, h[4] == 1, [(b[0], b[1] == 1, b[2], b[3]) for b in behs],
                          [len(b) == 5 and b[4] == 1 for b in behs]))
    return int(t[1]), tasks


def script_line(N, tasks):
    pc = getattr(tasks, "pc", None)
    return "ants %d %s%s" % (N, "" if pc is None else "pc=%d " % pc, " ".join(t.tok() for t in tasks))


# ---------------------------------------------------------------- log
class Obs:
    """Observation of one scenario, parsed from the harness log."""

    def __init__(self, line, ntasks):
        self.raw = line
        self.ok = False
        self.err = None
        if not line.startswith("N="):
            self.err = "no log: " + line[:200]
            return
        parts = line.split(";")
        self.N = int(parts[0][2:])
        self.S = {}
        self.SR = {}
        self.HS = {k: [] for k in range(ntasks)}   # per task list of dict(n,t,dl,run,idx)
        self.HE = {}                               # (k,n) -> dict(t,v,e,c,run,idx)
        self.OE = {k: [] for k in range(ntasks)}
        self.G = {}
        self.GG = {}
        self.G1 = {}                               # Get1 (own goroutine, started right after Send returned): dict(t,v,idx)
        self.ER = {}                               # Err() right after the first Get2 returned: dict(t,e,idx)
        self.hang = []
        self.hang1 = []
        self.PC = []                               # parent-context cancellations: dict(t,k,n,idx), logged before cancel() is called
        self.end = None
        self.runs = []                             # (idx, t, run) samples of the running counter
        for idx, p in enumerate(parts[1:]):
            f = p.split(",")
            kind = f[0]
            if kind == "S":
                self.S[int(f[1])] = dict(t=int(f[2]), idx=idx)
            elif kind == "SR":
                self.SR[int(f[1])] = dict(t=int(f[2]), idx=idx)
            elif kind == "HS":
                self.HS[int(f[1])].append(dict(n=int(f[2]), t=int(f[3]), dl=int(f[4]), run=int(f[5]), idx=idx))
                self.runs.append((idx, int(f[3]), int(f[5])))
            elif kind == "HE":
                self.HE[(int(f[1]), int(f[2]))] = dict(t=int(f[3]), v=f[4], e=f[5], c=int(f[6]), run=int(f[7]), idx=idx)
                self.runs.append((idx, int(f[3]), int(f[7])))
            elif kind == "OE":
                self.OE[int(f[1])].append(dict(t=int(f[2]), e=f[3], idx=idx))
            elif kind == "G":
                self.G[int(f[1])] = dict(t=int(f[2]), v=f[3], e=f[4], idx=idx)
            elif kind == "GG":
                self.GG[int(f[1])] = dict(t=int(f[2]), v=f[3], e=f[4], idx=idx)
            elif kind == "G1":
                self.G1[int(f[1])] = dict(t=int(f[2]), v=f[3], idx=idx)
            elif kind == "ER":
                self.ER[int(f[1])] = dict(t=int(f[2]), e=f[3], idx=idx)
            elif kind == "HANG":
                self.hang.append(int(f[1]))
            elif kind == "HANG1":
                self.hang1.append(int(f[1]))
            elif kind == "PC":
                self.PC.append(dict(t=int(f[1]), k=int(f[2]), n=int(f[3]), idx=idx))
            elif kind == "END":
                self.end = dict(t=int(f[1]), run=int(f[2]), hs=int(f[3]), he=int(f[4]))
        self.ok = self.end is not None

    def discarded(self, k):
        """rejected as busy: Get2 reported the discard error WITHOUT waiting (at the instant Send returned).  A task whose
        handler returned some pool's discard error as its own error (behaviour error code 101) also ends with DISC, but
        only after its attempts"""
        return k in self.G and self.G[k]["e"] == "DISC" and (k not in self.SR or self.G[k]["t"] == self.SR[k]["t"])

    def cancel(self):
        """the first cancellation of the dispatchers' parent context (dict t,k,n,idx) or None"""
        return self.PC[0] if self.PC else None

    def done_at(self, h):
        """instant at which the context of handler invocation h is done: its deadline or the parent's cancellation"""
        q = self.cancel()
        return min(h["dl"], q["t"]) if q else h["dl"]

    def attempts(self, k):
        """handler invocations of task k ordered by ctx deadline (= attempt order)"""
        return sorted(self.HS[k], key=lambda h: (h["dl"], h["idx"]))


def align_behaviours(tasks, obs):
    """The harness hands behaviour i of a task to the i-th handler invocation of that task that reaches its log mutex.
    Two attempts of one task can be received by two inner workers in the same virtual instant (attempt a still queued
    when the parent context is cancelled, attempt a+1 created, decided and enqueued in that instant) and reach the
    mutex in the other order: attempt a (attempts are identified by their ctx deadline) then ran behaviour n_a != a.
    The scripted behaviours are an input the theorems quantify over, so the model is given them in the order in which
    the attempts actually ran them (the script line itself is unchanged).  Returns the number of tasks re-ordered."""
    changed = 0
    if not obs.ok:
        return 0
    for k, t in enumerate(tasks):
        att = obs.attempts(k)
        ns = [h["n"] - 1 for h in att]
        if ns == list(range(len(ns))) or len(set(ns)) != len(ns) or any(n >= len(t.behs) for n in ns):
            continue
        order = ns + [i for i in range(len(t.behs)) if i not in ns]
        t.behs = [t.behs[i] for i in order]
        t.cancels = [t.cancels[i] for i in order]
        changed += 1
    return changed


def structural_problems(tasks, obs):
    """things that make the log unusable for a replay (each is itself a property violation
    or a harness problem); returned as [(key, what)]"""
    out = []
    if not obs.ok:
        return [("no-log", obs.err or "log has no END record: " + obs.raw[:300])]
    for k in obs.hang:
        out.append(("get2-never-returns", "task %d: Get2 had not returned at the horizon" % k))
    for k in obs.hang1:
        if k not in obs.hang:
            out.append(("get1-never-returns", "task %d: Get1 had not returned at the horizon although Get2 had" % k))
    if obs.end["run"] != 0 or obs.end["hs"] != obs.end["he"]:
        out.append(("handler-still-running", "at the horizon %d handler(s) still running (%d starts, %d ends)" % (obs.end["run"], obs.end["hs"], obs.end["he"])))
    for k, t in enumerate(tasks):
        for h in obs.HS[k]:
            if h["dl"] < 0:
                out.append(("no-deadline", "task %d invocation %d: handler context has no deadline" % (k, h["n"])))
            if (k, h["n"]) not in obs.HE:
                out.append(("handler-still-running", "task %d invocation %d never returned" % (k, h["n"])))
        if k not in obs.S or k not in obs.SR:
            out.append(("send-never-returns", "task %d: Send did not return" % k))
    return out


def find_ties(tasks, obs):
    """instants with >= 2 independent timed triggers. Returns (handler_deadline_ties, other_ties):
    the first are {(k, n)} attempts whose handler returned by its own timer exactly at its ctx deadline."""
    trig = {}
    for k, s in obs.S.items():
        trig.setdefault(s["t"], []).append(("S", k))
    for k, t in enumerate(tasks):
        if obs.discarded(k):
            continue
        att = obs.attempts(k)
        for i, h in enumerate(att):
            he = obs.HE.get((k, h["n"]))
            beh = t.behs[min(i, len(t.behs) - 1)]
            if he and he["t"] > h["t"] and (he["c"] == 0 or h["t"] + beh[0] == he["t"]):
                # returned by its own timer (for an honouring handler: its timer was due at this instant too)
                trig.setdefault(he["t"], []).append(("HE", k, h["n"]))
            # the deadline acted if the dispatcher decided at it or the handler was cancelled at it
            dec_t = att[i + 1]["dl"] - t.T if i + 1 < len(att) else obs.G.get(k, dict(t=None))["t"]
            if dec_t == h["dl"] or (he and he["c"] == 1 and he["t"] == h["dl"]):
                trig.setdefault(h["dl"], []).append(("DL", k, h["n"]))
    for q in obs.PC:
        if q["k"] < 0:   # a cancellation by the script is an independent timed action (one by a handler is part of that handler's return)
            trig.setdefault(q["t"], []).append(("PC",))
    hd, other = set(), []
    for t, l in trig.items():
        if len(l) < 2:
            continue
        if len(l) == 2 and {l[0][0], l[1][0]} == {"HE", "DL"} and l[0][1:] == l[1][1:]:
            hd.add(l[0][1:])
        else:
            other.append((t, l))
    return hd, other


# order of the event bag of one instant (the driver applies the first enabled one): dispatcher decisions,
# sends, pickups, enqueues, then handler starts/returns in the order of the log, then Get2 reads
RANK = dict(C=-1, D=0, S=1, P=2, Q=3, H=4, R=4, U=4, X=4, G=5)


def log_to_history(tasks, obs, hd_ties):
    """The model's input event history (tokens for ocaml/drv_c07.ml), from the log."""
    evs = []  # (t, rank, sub, token)
    hs_order = sorted((h["idx"], k, h["n"]) for k in obs.HS for h in obs.HS[k])
    seq_of = {(k, n): i for i, (_, k, n) in enumerate(hs_order)}
    hs_times = sorted(h["t"] for k in obs.HS for h in obs.HS[k])
    import bisect
    lo_of = lambda t: bisect.bisect_left(hs_times, t)   # handler starts stamped strictly earlier

    def add(t, kind, sub, rest):
        evs.append((t, RANK[kind], sub, "%d:%s:%s" % (t, kind, rest)))

    q = obs.cancel()
    for pc in obs.PC:
        if pc["k"] < 0:
            add(pc["t"], "C", 0, "0")
        else:   # by a handler about to return: right before that return
            att = obs.attempts(pc["k"])
            a = [i for i, h in enumerate(att) if h["n"] == pc["n"]][0] + 1
            add(pc["t"], "X", pc["idx"], "%d:%d" % (pc["k"], a))
    for k, t in enumerate(tasks):
        add(obs.S[k]["t"], "S", k, "%d" % k)
        if k in obs.G:
            add(obs.G[k]["t"], "G", k, "%d" % k)
        if k in obs.GG:
            add(obs.GG[k]["t"], "G", k + 0.9, "%d" % k)
        # Get1() is `result, _ = my.Get2()` and Err() after Get2 reads the same field: both are replayed as reads
        # of the model (event AnGet2: must be ENABLED at their stamp, i.e. the WaitGroup is open) and compared on
        # their component (models/AntsGetters.v, ants_getters_agree)
        if k in obs.G1:
            add(obs.G1[k]["t"], "G", k + 0.3, "%d" % k)
        if k in obs.ER:
            add(obs.ER[k]["t"], "G", k + 0.6, "%d" % k)
        if obs.discarded(k):
            continue
        att = obs.attempts(k)
        for i, h in enumerate(att):
            a = i + 1
            c = h["dl"] - t.T
            he = obs.HE[(k, h["n"])]
            if i == 0:
                add(c, "P", k, "%d" % k)
            add(c, "Q", seq_of[(k, h["n"])], "%d:%d:%d:%d" % (k, a, seq_of[(k, h["n"])], lo_of(h["t"])))
            add(h["t"], "H", h["idx"], "%d:%d" % (k, a))
            tie = (k, h["n"]) in hd_ties
            if q and q["idx"] < he["idx"]:
                saw = "1"   # the parent context was cancelled before this return: ctx1 is done
            elif he["t"] < h["dl"]:
                saw = "0"
            elif he["t"] > h["dl"] or he["c"] == 1:
                saw = "1"
            else:
                saw = "?"
            add(he["t"], "R", he["idx"], "%d:%d:%s" % (k, a, saw))
            add(he["t"], "U", he["idx"] + 0.5, "%d:%d" % (k, a))
            if i + 1 < len(att):
                dec_t = att[i + 1]["dl"] - t.T
            elif k in obs.G:
                dec_t = obs.G[k]["t"]
            else:
                continue
            if q and q["t"] <= dec_t and q["t"] <= h["dl"]:
                if he["idx"] < q["idx"] and he["t"] == q["t"] == dec_t and saw == "0":
                    # the handler returned (and published its own pair) BEFORE the cancellation, in the same instant, and
                    # the dispatcher decided in that instant too: doneChan (the handler's pair) and ctx1.Done() are both
                    # ready when it looks -- the select may take either: both resolutions are enumerated
                    via = "?"
                else:
                    via = "0"   # decided after the cancellation: ctx1.Done() is ready (doneChan, if also ready, carries the same pair)
            elif dec_t < h["dl"]:
                via = "1"
            elif dec_t == h["dl"] and tie and saw == "?":
                via = "?"
            else:
                via = "0"
            add(dec_t, "D", k, "%d:%s" % (k, via))
    evs.sort(key=lambda x: (x[0], x[1], x[2]))
    return [e[3] for e in evs]


def model_line(mode, urg, N, tasks, evtoks, tag="antsrun"):
    return "%s %s %d %d %d %s %s" % (tag, mode, int(urg), N, len(tasks), " ".join(t.tok(model=True) for t in tasks), " ".join(evtoks))


TASK_RE = re.compile(r"k=(\d+),(\w+),inv=(\d+),dec=(\d+),f=(\S+?),g=\[(.*?)\],oe=\[(.*?)\],rel=\[(.*?)\],pk=(-?\d+),B=(-?\d+),L=(-?\d+),hr=\[(.*?)\]$")


def parse_model_ok(out):
    """'OK maxrun=.. now=.. k=...' -> dict(maxrun, tasks={k: dict})"""
    toks = out.split()
    res = dict(maxrun=int(toks[1].split("=")[1]), now=int(toks[2].split("=")[1]), tasks={})
    for tok in toks[3:]:
        m = TASK_RE.match(tok)
        if not m:
            raise ValueError("bad model task token " + tok)
        res["tasks"][int(m.group(1))] = dict(
            phase=m.group(2), inv=int(m.group(3)), dec=int(m.group(4)), f=m.group(5),
            g=[x for x in m.group(6).split(";") if x], oe=[x for x in m.group(7).split(";") if x],
            rel=[int(x) for x in m.group(8).split(";") if x], pk=int(m.group(9)), B=int(m.group(10)), L=int(m.group(11)),
            hr=[x for x in m.group(12).split(";") if x])
    return res


def overlap_bounds(obs):
    """(lo, hi): the maximum number of simultaneously running handlers computed from the start / return STAMPS only:
    lo = a handler returning at t does not overlap one starting at t, hi = it does.  The order of starts and returns
    within ONE virtual instant is the runtime's; the replay may pick another accepted order of that instant, so its
    running maximum can be anywhere in [lo, hi] (the implementation's own counter is in it too)."""
    evs = []
    for k in obs.HS:
        for h in obs.HS[k]:
            he = obs.HE.get((k, h["n"]))
            evs.append((h["t"], 1))
            if he:
                evs.append((he["t"], -1))

    def sweep(ends_first):
        cur = mx = 0
        for _, d in sorted(evs, key=lambda e: (e[0], e[1] if ends_first else -e[1])):
            cur += d
            mx = max(mx, cur)
        return mx
    return sweep(True), sweep(False)


def impl_projection(tasks, obs, with_pairs=True):
    """what the model must reproduce, computed from the log"""
    res = dict(maxrun=max([r for _, _, r in obs.runs] + [0]), tasks={})
    res["maxrun_lo"], res["maxrun_hi"] = overlap_bounds(obs)
    for k, t in enumerate(tasks):
        g = []   # reads in the order of the history: Get2, Get1 (value only), Err() (error only), final Get2
        for sub, d in ((0, obs.G.get(k)), (0.3, obs.G1.get(k)), (0.6, obs.ER.get(k)), (0.9, obs.GG.get(k))):
            if d:
                g.append((d["t"], sub, "%s/%s@%d" % (d.get("v", "*"), d.get("e", "*"), d["t"])))
        g = [x[2] for x in sorted(g)]
        oe = ["%s@%d" % (o["e"], o["t"]) for o in obs.OE[k]]
        if obs.discarded(k):
            res["tasks"][k] = dict(phase="disc", inv=len(obs.HS[k]), dec=0, g=g, oe=oe, rel=[], pk=0, hr=[])
            continue
        att = obs.attempts(k)
        hr = []
        for i, h in enumerate(att):
            he = obs.HE[(k, h["n"])]
            hr.append((he["t"], he["idx"], "%d:%s/%s@%d" % (i + 1, he["v"], he["e"], he["t"]) if with_pairs else "%d@%d" % (i + 1, he["t"])))
        res["tasks"][k] = dict(phase="done", inv=len(att), dec=len(att), g=g, oe=oe,
                               rel=[obs.G[k]["t"]] if k in obs.G else [], pk=(att[0]["dl"] - t.T) if att else 0,
                               hr=[x[2] for x in sorted(hr)])
    return res


def read_matches(impl, model):
    """'v/e@t' of the implementation ('*' = component not returned by this entry point) vs the model's read"""
    iv, ie_t = impl.split("/", 1)
    mv, me_t = model.split("/", 1)
    ie, it = ie_t.rsplit("@", 1)
    me, mt = me_t.rsplit("@", 1)
    return it == mt and iv in ("*", mv) and ie in ("*", me)


def compare_one(want, got, with_pairs=True):
    """impl projection vs one model OK result: None or a note"""
    if want["maxrun"] != got["maxrun"] and not (want.get("maxrun_lo", want["maxrun"]) <= got["maxrun"] <= want.get("maxrun_hi", want["maxrun"])):
        return "maximum number of simultaneously running handlers: implementation %d, model %d" % (want["maxrun"], got["maxrun"])
    for k, w in want["tasks"].items():
        m = got["tasks"].get(k)
        if m is None:
            return "task %d missing in the model" % k
        for key in ("phase", "inv", "dec", "g", "oe", "rel", "pk"):
            if key == "g":
                if len(w["g"]) == len(m["g"]) and all(read_matches(a, b) for a, b in zip(w["g"], m["g"])):
                    continue
                return "task %d Get2/Get1/Err reads: implementation %s, model %s" % (k, w[key], m[key])
            if w[key] != m[key]:
                return "task %d %s: implementation %s, model %s" % (k, key, w[key], m[key])
        mh = []
        for x in m["hr"]:
            mm = re.match(r"(\d+):(\S+?):([01])@(-?\d+)$", x)
            mh.append("%s:%s@%s" % (mm.group(1), mm.group(2), mm.group(4)) if with_pairs else "%s@%s" % (mm.group(1), mm.group(4)))
        if sorted(w["hr"]) != sorted(mh):
            return "task %d handler returns: implementation %s, model %s" % (k, w["hr"], mh)
    return None


def compare(tasks, obs, model_out, has_tie):
    """None or note. For a SET answer: some accepted resolution must match."""
    want = impl_projection(tasks, obs, with_pairs=not has_tie)
    if model_out.startswith("SET "):
        alts = model_out[4:].split(" || ")
    else:
        alts = [model_out]
    notes = []
    for a in alts:
        if a.startswith("OK "):
            try:
                n = compare_one(want, parse_model_ok(a), with_pairs=not has_tie)
            except ValueError as ex:
                n = str(ex)
            if n is None:
                return None
            notes.append(n)
        else:
            notes.append(a[:300])
    return "model does not reproduce the log: " + " | ".join(notes[:3])


def model_info(model_out):
    """first accepted result of the model (for B), or None"""
    alts = model_out[4:].split(" || ") if model_out.startswith("SET ") else [model_out]
    for a in alts:
        if a.startswith("OK "):
            try:
                return parse_model_ok(a)
            except ValueError:
                return None
    return None


# ---------------------------------------------------------------- monitors (raw log, no model)
def monitor_c07(tasks, obs):
    """C07 restated on the raw log.  "Timed out" is read as "the attempt's context was done": by its own deadline
    T after its creation or, for a pool built with WithContextBuilder, by the cancellation of the dispatchers'
    parent context (PC record; the code reports context.DeadlineExceeded in both cases)."""
    out = []
    q = obs.cancel()
    for k, t in enumerate(tasks):
        if k not in obs.G:
            continue
        g = obs.G[k]
        gg = obs.GG.get(k)
        att = obs.attempts(k)
        # the other entry points of Task: Get1 unblocks together with Get2 and returns the first component of its
        # pair; Err() called after Get2 returned reports Get2's error (callback tasks and discarded tasks alike)
        g1, er = obs.G1.get(k), obs.ER.get(k)
        if g1 is not None and g1["t"] != g["t"]:
            out.append(("get1-unblock", "task %d: Get1 returned at %d but Get2 unblocked at %d (Get1 must wait for the task exactly as Get2 does)" % (k, g1["t"], g["t"])))
        if g1 is not None and g1["v"] != g["v"]:
            out.append(("get1-value", "task %d: Get1 returned %s (at %d) but Get2 returned (%s,%s) (at %d)" % (k, g1["v"], g1["t"], g["v"], g["e"], g["t"])))
        if er is not None and er["e"] != g["e"]:
            out.append(("err-after-get2", "task %d: Err() called after Get2 returned gave %s, Get2 had returned (%s,%s)" % (k, er["e"], g["v"], g["e"])))
        if obs.discarded(k):
            if att:
                out.append(("discard-handler-ran", "task %d was rejected as busy but its handler ran %d time(s)" % (k, len(att))))
            if (g["v"], g["e"]) != ("nil", "DISC"):
                out.append(("discard-result", "task %d discarded but Get2 = (%s,%s)" % (k, g["v"], g["e"])))
            want = 1 if t.onerr else 0
            if len(obs.OE[k]) != want or any(o["e"] != "DISC" for o in obs.OE[k]):
                out.append(("discard-callback", "task %d discarded: error callback calls %s, want %d x DISC" % (k, [(o["e"], o["t"]) for o in obs.OE[k]], want)))
            if not t.discard:
                out.append(("discard-unrequested", "task %d sent without discardOnBusy was discarded" % k))
            continue
        # attempts in [1, R]
        if not (1 <= len(att) <= t.R):
            out.append(("attempt-count", "task %d: handler invoked %d time(s), retry count R=%d" % (k, len(att), t.R)))
            if not att:
                continue
        # a further attempt only after the previous one failed or timed out
        for i in range(len(att) - 1):
            h, nx = att[i], att[i + 1]
            he = obs.HE[(k, h["n"])]
            created = nx["dl"] - t.T
            done = obs.done_at(h)
            failed = he["t"] <= created and he["e"] != "nil"
            timed_out = created >= done
            if timed_out and q and done == q["t"] < h["dl"] and created == done and nx["idx"] < q["idx"]:
                timed_out = False   # the next attempt's handler was already running when the parent was cancelled
            if not (failed or timed_out) or nx["t"] < created:
                out.append(("attempt-order", "task %d: attempt %d created at %d although attempt %d (context done at %d, returned (%s,%s) at %d) had neither failed nor timed out"
                            % (k, i + 2, created, i + 1, done, he["v"], he["e"], he["t"])))
            if he["t"] < done and he["e"] == "nil" and he["t"] <= created:
                out.append(("attempt-after-success", "task %d: attempt %d returned (%s,nil) at %d before its context was done (%d), yet attempt %d was made"
                            % (k, i + 1, he["v"], he["t"], done, i + 2)))
        # Get2 pair = first attempt that finished within T without error, else the last attempt's outcome
        last = att[-1]
        he = obs.HE[(k, last["n"])]
        done = obs.done_at(last)
        if he["t"] < done:
            allowed = {(he["v"], he["e"])}
        elif he["t"] == done and done == last["dl"] and he["c"] == 0:
            allowed = {(he["v"], he["e"]), ("nil", "DE")}
        elif he["t"] == done and done < last["dl"] and he["idx"] < q["idx"]:
            allowed = {(he["v"], he["e"]), ("nil", "DE")}   # returned at the instant of the cancellation, logged before it
        else:
            allowed = {("nil", "DE")}
        if (g["v"], g["e"]) not in allowed:
            out.append(("get2-pair", "task %d: Get2 = (%s,%s) but its last attempt %d (context done at %d) returned (%s,%s) at %d: want one of %s"
                        % (k, g["v"], g["e"], len(att), done, he["v"], he["e"], he["t"], sorted(allowed))))
        if g["e"] != "nil" and len(att) != t.R:
            out.append(("early-give-up", "task %d: final error %s after %d attempt(s), R=%d" % (k, g["e"], len(att), t.R)))
        if gg and (gg["v"], gg["e"]) != (g["v"], g["e"]):
            out.append(("get2-unstable", "task %d: Get2 returned (%s,%s) at %d and (%s,%s) at %d" % (k, g["v"], g["e"], g["t"], gg["v"], gg["e"], gg["t"])))
        # error callback exactly once iff the final error is non-nil, same error, before Get2 unblocks
        oe = obs.OE[k]
        want = 1 if (t.onerr and g["e"] != "nil") else 0
        if len(oe) != want:
            out.append(("onerror-count", "task %d: error callback ran %d time(s) %s, final Get2 error %s" % (k, len(oe), [(o["e"], o["t"]) for o in oe], g["e"])))
        elif want and (oe[0]["e"] != g["e"] or oe[0]["idx"] > g["idx"]):
            out.append(("onerror-arg", "task %d: error callback got %s at %d, Get2 error %s at %d" % (k, oe[0]["e"], oe[0]["t"], g["e"], g["t"])))
    return out


def running_profile(obs):
    """max over time of the number of running handlers, recomputed from start/end records"""
    evs = []
    for k in obs.HS:
        for h in obs.HS[k]:
            evs.append((h["idx"], 1))
            he = obs.HE.get((k, h["n"]))
            if he:
                evs.append((he["idx"], -1))
    cur = mx = 0
    for _, d in sorted(evs):
        cur += d
        mx = max(mx, cur)
    return mx


def overdue_saturation(tasks, obs, lo, hi):
    """during the whole interval [lo, hi): were all N workers running handlers, at least one of them
    beyond its ctx deadline without honouring it?  (raw-log evidence for the K1 class)"""
    ivs = []
    for k in obs.HS:
        for h in obs.HS[k]:
            he = obs.HE.get((k, h["n"]))
            ivs.append((h["t"], he["t"] if he else None, h["dl"]))
    points = sorted({lo} | {s for s, _, _ in ivs if lo < s < hi} | {e for _, e, _ in ivs if e is not None and lo < e < hi})
    for p in points:
        running = [(s, e, dl) for s, e, dl in ivs if s <= p and (e is None or e > p)]
        if len(running) < obs.N:
            return False
        if not any(dl <= p for _, _, dl in running):
            return False
    return True


def monitor_c08(tasks, obs, model, all_prompt, other_ties):
    """model: parsed OK result of the replay (only used to classify a bound excess as the known K1 class)"""
    out = []
    mx = max([r for _, _, r in obs.runs] + [0])
    if mx > obs.N or running_profile(obs) > obs.N:
        out.append(("concurrency", "%d handler invocations running at once in a pool of size %d" % (max(mx, running_profile(obs)), obs.N)))
    pick = {}
    for k, t in enumerate(tasks):
        att = obs.attempts(k)
        if att and not obs.discarded(k):
            pick[k] = att[0]["dl"] - t.T
    for k, t in enumerate(tasks):
        if k not in obs.G:
            continue
        if obs.discarded(k):
            st = obs.S[k]
            # tasks accepted before this Send (their Send had returned) and not yet picked up by a dispatcher
            buf_lo = [j for j in range(len(tasks)) if j != k and j in obs.SR and not obs.discarded(j)
                      and obs.SR[j]["idx"] < st["idx"] and (j not in pick or pick[j] > st["t"])]
            buf_hi = [j for j in range(len(tasks)) if j != k and j in obs.SR and not obs.discarded(j)
                      and obs.SR[j]["idx"] < st["idx"] and (j not in pick or pick[j] >= st["t"])]
            if not (len(buf_lo) <= obs.N <= len(buf_hi)) and not (len(buf_lo) == obs.N):
                out.append(("busy-not-full", "task %d rejected as busy at %d while the pending-task queue held %d task(s) %s, capacity %d"
                            % (k, st["t"], len(buf_lo), buf_lo, obs.N)))
            continue
        if k not in pick or not t.prompt():
            continue
        bound = pick[k] + t.R * t.T
        g = obs.G[k]
        if g["t"] > bound:
            excess = g["t"] - bound
            what = "prompt task %d picked up at %d (T=%d, R=%d): Get2 unblocked at %d = bound + %d" % (k, pick[k], t.T, t.R, g["t"], excess)
            # raw log: attempts decided later than their own deadline (the dispatcher was not watching it)
            att = obs.attempts(k)
            late_iv = []
            for i, h in enumerate(att):
                dec_t = att[i + 1]["dl"] - t.T if i + 1 < len(att) else g["t"]
                if dec_t > h["dl"]:
                    late_iv.append((h["dl"], dec_t))
            late = sum(b - a for a, b in late_iv)
            known = False
            if not all_prompt and 0 < excess <= late and all(overdue_saturation(tasks, obs, a, b) for a, b in late_iv):
                if model is not None and k in model["tasks"]:
                    mt = model["tasks"][k]
                    if mt["rel"] == [g["t"]] and mt["pk"] == pick[k] and mt["L"] == late and late <= mt["B"]:
                        known = True
                        what += ("; explained: its dispatcher was blocked in sendInnerCallback (model: B=%d, of which %d beyond the attempt deadlines = the "
                                 "implementation's %d) while all %d inner workers ran handlers, at least one beyond its cancelled context" % (mt["B"], mt["L"], late, obs.N))
                    else:
                        what += "; NOT explained by blocked enqueuing (model B=%s L=%s rel=%s, implementation late=%d)" % (mt["B"], mt["L"], mt["rel"], late)
                elif other_ties:
                    known = True  # history not replayable (accidental same-instant tie): raw-log evidence only
                    what += "; all inner workers were saturated with an overdue handler during the %d ns beyond the attempt deadlines" % late
            else:
                what += "; NOT explained by blocked enqueuing (late=%d, all_prompt=%s)" % (late, all_prompt)
            out.append(("get2-bound-blocked-enqueue" if known else "get2-bound", what))
    return out


# ---------------------------------------------------------------- generators
def jit(rng, x):
    """x ns rounded to a multiple of 16"""
    return (x // 16) * 16


def gen_beh(rng, T, style):
    """one behaviour; durations are odd-ish (never a multiple of 16) so that they do not coincide with send instants"""
    r = rng.below(100)
    if style == "prompt":
        hon = True
    elif style == "stubborn":
        hon = False
    else:
        hon = rng.chance(1, 2)
    if r < 18:
        dur = T - 1
    elif r < 36:
        dur = T + 1
    elif r < 50:
        dur = T // 2 + 1 + 2 * rng.below(50)
    elif r < 62:
        dur = T // 3 + 3 + 2 * rng.below(50)
    elif r < 72:
        dur = 2 * T + 5 + 2 * rng.below(50)
    elif r < 80:
        dur = 101 + 2 * rng.below(500)
    elif r < 90:
        dur = T - 1 - 2 * rng.below(40)
    else:
        dur = T + 1 + 2 * rng.below(40)
    if style == "stubborn":
        dur = rng.choice([3, 5, 10]) * T + 7 + 2 * rng.below(50)
    if dur % 16 == 0:
        dur += 1
    val = rng.choice([-1, rng.range(0, 99)])
    err = rng.choice([0, 0, 0, rng.range(1, 5)]) if rng.chance(1, 2) else rng.choice([0, rng.range(1, 5)])
    return (dur, hon, val, err)


def gen_pcancel(rng):
    """pool built with WithContextBuilder (one shared cancellable parent for all dispatchers); the parent is
    cancelled by the script (before the first Send / during the first attempt / anywhere / never) or by one handler
    right before it returns"""
    N = rng.choice([1, 1, 2, 2, 3])
    tasks = TaskList()
    now = 0
    nt = rng.range(1, 5)
    for i in range(nt):
        T = rng.choice([1, 1, 2, 3]) * MS + 16 * rng.below(200) + 2
        R = rng.choice([1, 2, 2, 3, 3, 4])
        behs = [gen_beh(rng, T, rng.choice(["mixed", "mixed", "prompt"])) for _ in range(R)]
        tasks.append(Task(now, T, R, rng.chance(1, 5), rng.chance(5, 6), behs))
        gap = rng.choice([16, T // 4, T // 2, T, 2 * T])
        now += jit(rng, gap) or 16
    mode = rng.below(10)
    t0 = tasks[0]
    if mode < 3:      # one handler cancels (a failing / succeeding / timing-out attempt alike)
        t = rng.choice(tasks)
        i = rng.below(len(t.behs))
        t.cancels[i] = True
        tasks.pc = -1
    elif mode < 4:    # before anything is sent: every attempt's context is done at creation
        tasks.pc = 0
        for t in tasks:
            t.send += 32
    elif mode < 7:    # during the first attempt of the first task
        tasks.pc = jit(rng, rng.range(1, max(2, min(t0.T, t0.behs[0][0]) - 1))) + 8
    elif mode < 9:    # anywhere
        tasks.pc = jit(rng, rng.range(0, now + 3 * t0.T)) + 8
    else:             # never: only the builder is used
        tasks.pc = -1
    return N, tasks


def gen_huge_retry(rng):
    """'retry until success': R near the limits of int (2^63-1, 2^31-1, ...) with 1-3 scripted attempts, the last
    of which succeeds in time; the earlier ones fail with an error or time out."""
    N = rng.choice([1, 2])
    tasks = []
    now = 0
    for i in range(rng.range(1, 3)):
        T = rng.choice([1, 2]) * MS + 16 * rng.below(200) + 2
        R = rng.choice([2 ** 63 - 1, 2 ** 63 - 1, 2 ** 63 - 2, 2 ** 62, 2 ** 32, 2 ** 31 - 1, 2 ** 31, HUGE_R + 1])
        n = rng.range(1, 3)
        behs = []
        for a in range(n - 1):
            b = gen_beh(rng, T, "prompt")
            if b[3] == 0 and b[0] < T:            # make it a failing attempt
                b = (b[0], b[1], b[2], rng.choice([3, 5, 9]))
            behs.append(b)
        behs.append((rng.choice([16, 48, T // 2, T - 16]), True, 40 + i, 0))
        tasks.append(Task(now, T, R, False, rng.chance(4, 5), behs))
        now += jit(rng, rng.choice([16, T, 3 * T])) or 16
    return N, tasks


def gen_tiny_timeout(rng):
    """extreme option values: timeouts far below a millisecond (1 ns .. 1 us) with many retries; handlers honour
    their context, most attempts time out: Get2 must unblock within R*T of the pick-up (the harness runs on the
    virtual clock, so nanosecond timeouts are exact)"""
    N = rng.choice([1, 1, 2, 3])
    tasks = []
    now = 0
    for i in range(rng.range(1, 4)):
        T = rng.choice([1, 3, 7, 17, 333, 999, 1001])
        R = rng.choice([1, 2, 5, 20, 50])
        behs = []
        for a in range(R):
            if a == R - 1 and rng.chance(1, 3):
                behs.append((max(1, T - 1 - 2 * rng.below(2)) if T > 2 else 1, True, 60 + i, 0))   # finishes just in time (T = 1: a tie, handled as such)
            else:
                # honours ctx: ends at the deadline (half of them would otherwise run for milliseconds)
                behs.append((rng.choice([T + 1 + 2 * rng.below(50), 5 * MS + 1 + 2 * rng.below(50)]), True, -1, rng.choice([0, 3])))
        tasks.append(Task(now, T, R, False, rng.chance(4, 5), behs))
        now += 16 * rng.range(1, 40) * max(1, (R * T) // 16 + 1)
    return N, tasks


def gen_script(rng, kind):
    """kind: retry | burst | ties | prompt | stubborn | pcancel | hugeR | tinyT"""
    if kind == "tinyT":
        return gen_tiny_timeout(rng)
    if kind == "pcancel":
        return gen_pcancel(rng)
    if kind == "hugeR":
        return gen_huge_retry(rng)
    N = rng.choice([1, 1, 2, 2, 3, 4])
    tasks = []
    now = 0
    if kind == "ties":
        N = rng.choice([2, 3, 4])
        nt = rng.range(1, N)
    elif kind in ("burst", "stubborn"):
        nt = rng.range(N + 2, 3 * N + 4)
    else:
        nt = rng.range(1, 6)
    nstub = 0
    for i in range(nt):
        T = rng.choice([1, 1, 2, 3]) * MS + 16 * rng.below(200) + 2   # sends are = 0 mod 16, chains of <= 7 timeouts are not
        R = rng.choice([1, 1, 2, 2, 3, 4])
        if kind == "ties":
            R = rng.choice([1, 2, 3])
            behs = []
            for a in range(R):
                b = gen_beh(rng, T, "mixed")
                if rng.chance(2, 3) and nstub < 3:   # at most 3 exact ties per script (each is enumerated in both orders)
                    nstub += 1
                    b = (T, False, b[2], b[3])
                behs.append(b)
            discard = False
            gap = rng.choice([5, 7, 9]) * MS + 16 * rng.below(100)
        elif kind == "prompt":
            behs = [gen_beh(rng, T, "prompt") for _ in range(R)]
            discard = rng.chance(1, 3)
            gap = rng.choice([16, 32, 48, T // 4, T // 2, T, 2 * T])
        elif kind == "stubborn":
            stub = nstub < N + 1 and rng.chance(1, 2) or (i == 0)
            if stub:
                nstub += 1
                R = rng.choice([1, 1, 2])
            behs = [gen_beh(rng, T, "stubborn" if stub else "prompt") for _ in range(R)]
            discard = rng.chance(1, 4)
            gap = rng.choice([16, 32, T // 2, T, T + 16])
        elif kind == "burst":
            behs = [gen_beh(rng, T, "mixed") for _ in range(R)]
            discard = rng.chance(3, 4)
            gap = rng.choice([16, 16, 32, 48, T // 4])
        else:
            behs = [gen_beh(rng, T, "mixed") for _ in range(R)]
            discard = rng.chance(1, 4)
            gap = rng.choice([16, T // 4, T // 2, T, 2 * T, 3 * T])
        if kind in ("retry", "burst", "stubborn", "prompt") and rng.chance(1, 7):
            T = DEFAULT_T     # sent WITHOUT WithTimeout (the harness omits the option): createTaskOptions' default of 365 days
        tasks.append(Task(now, T, R, discard, rng.chance(4, 5), behs))
        now += jit(rng, gap) or 16
    return N, tasks


# ---------------------------------------------------------------- driving both sides
class CaseResult:
    pass


def run_cases(chk, binary, lines, urg=True, mode="fixed"):
    """Run scripts on the implementation, derive histories, replay them in the model.
    Returns list of CaseResult(line, N, tasks, obs, problems, hd_ties, other_ties, model_out, note)."""
    # a pool that livelocks or crashes under one script must not take the whole batch (or half an hour) with it
    impl = common.run_impl_watch(binary, lines, stall=20, env=FT_ENV, marker="NOLOG")
    res = []
    mlines, midx = [], []
    for line, out in zip(lines, impl):
        if out.startswith("NOLOG skipped"):
            continue   # not evaluated: earlier scripts of the batch hung (those are reported)
        r = CaseResult()
        r.line, r.impl = line, out
        r.N, r.tasks = parse_script(line)
        r.obs = Obs(out, len(r.tasks))
        r.problems = structural_problems(r.tasks, r.obs)
        r.hd_ties, r.other_ties = (set(), [])
        r.model_out, r.note, r.mline = None, None, None
        if not r.problems:
            r.realigned = align_behaviours(r.tasks, r.obs)
            r.hd_ties, r.other_ties = find_ties(r.tasks, r.obs)
            try:
                ev = log_to_history(r.tasks, r.obs, r.hd_ties)
                if sum(e.count("?") for e in ev) > 8:
                    r.other_ties = r.other_ties + [("too many unresolved ties", [])]
                    ev = [e.replace("?", "0") for e in ev]
                r.mline = model_line(mode, urg, r.N, r.tasks, ev)
                mlines.append(r.mline)
                midx.append(len(res))
            except (KeyError, IndexError) as ex:
                r.problems.append(("log-inconsistent", "log cannot be turned into a history: %r" % (ex,)))
        res.append(r)
    if mlines:
        mo = common.run_model(mlines)
        for i, o in zip(midx, mo):
            r = res[i]
            r.model_out = o
            if r.other_ties:
                r.note = None  # an accidental same-instant tie between independent actions: not compared
            else:
                r.note = compare(r.tasks, r.obs, o, bool(r.hd_ties))
    return res


def nontrivial(r):
    """reaches a rule: some task retried, timed out, was discarded, or waited in a full queue"""
    if not r.obs.ok:
        return False
    for k, t in enumerate(r.tasks):
        if r.obs.discarded(k) or len(r.obs.HS[k]) >= 2:
            return True
        g = r.obs.G.get(k)
        if g and g["e"] != "nil":
            return True
    return False


def corpus_lines(prop_id):
    from . import pure
    return [l for l in pure.corpus_cases(prop_id) if l.startswith("ants ")]


def coq_crosscheck(chk, results, limit=40):
    """Re-evaluate accepted histories with vm_compute inside coqc and compare the projections with
    the extracted OCaml model's."""
    sample = [r for r in results if r.mline and r.mline.startswith("antsrun ") and r.model_out and r.model_out.startswith("OK ")][:limit]
    if not sample:
        return 0
    outs = common.run_model([r.mline.replace("antsrun", "antscoq", 1) for r in sample])
    items = []
    for r, o in zip(sample, outs):
        if not o.startswith("COQ "):
            continue
        cfg, hist = o[4:].split(" @@ ")
        m = parse_model_ok(r.model_out)
        exp = []
        for k in sorted(m["tasks"]):
            t = m["tasks"][k]
            exp.append("(%d%%nat, %d%%nat, [%s], (%d), (%d))" % (t["inv"], t["dec"], ";".join("(%d)" % x for x in t["rel"]), t["pk"], t["B"]))
        items.append("(an_run %s an_init %s, %d%%nat, [%s])" % (cfg, hist, m["maxrun"], "; ".join(exp)))
    if not items:
        return 0
    body = """From Got Require Import Base Ants.
Local Open Scope Z_scope.
Definition zl_eqb (a b : list Z) : bool := if list_eq_dec Z.eq_dec a b then true else false.
Fixpoint chk (s : an_state) (k : nat) (l : list (nat * nat * list Z * Z * Z)) : bool :=
  match l with
  | [] => true
  | (inv, dec, rel, pk, b) :: r =>
      let t := an_tk s k in
      Nat.eqb (length (at_inv t)) inv && Nat.eqb (an_dec_attempt s k) dec && zl_eqb (at_rel t) rel
      && (at_pickup t =? pk) && (at_blocked t =? b) && chk s (S k) r
  end.
Definition ok (c : option an_state * nat * list (nat * nat * list Z * Z * Z)) : bool :=
  match c with
  | (Some s, mx, l) => Nat.eqb (an_maxrun s) mx && chk s 0%%nat l
  | _ => false end.
Definition cases := [%s].
Definition bad := Eval vm_compute in length (filter (fun c => negb (ok c)) cases).
Print bad.
""" % ";\n".join(items)
    out = common.run_coq_eval(body)
    if "bad = 0%nat" not in out.replace("\n", " "):
        chk.diverge("vm_compute-vs-extraction", "sample of %d histories" % len(items), out[-300:], "", "extracted OCaml model disagrees with vm_compute")
    return len(items)


def realtime_stress(chk, prop_id, n=120):
    """thorough tier extra: the same harness built WITHOUT faketime and WITH the race detector runs scripts
    in real time (faketime and -race cannot be combined). Only the race detector's verdict is used (real-time
    stamps are not compared with anything, so this cannot flake on timing)."""
    try:
        binary = common.build_go("./cmd/ftants", tags="verif", race=True, out_name="rtants")
    except common.BuildError as e:
        chk.infra_errors.append("race build of the ants harness failed: " + str(e)[-800:])
        return
    rng = chk.rng.fork()
    lines = []
    for i in range(n):
        N, tasks = gen_script(rng, rng.choice(["retry", "ties", "ties", "burst"]))
        tasks = tasks[:5]
        for t in tasks:   # keep one scenario in the tens of milliseconds
            t.send = min(t.send, 3 * MS)
        tasks.sort(key=lambda t: t.send)
        lines.append(script_line(N, tasks))
    try:
        common.run_impl(binary, lines, env=dict(os.environ, GORACE="halt_on_error=0"), timeout=900)
        chk.cov["race_stress"] = "%d real-time scripts under -race: no report" % n
    except common.ImplCrash as e:
        out = str(e)
        if "DATA RACE" in out:
            chk.monitor_fail("data-race", "%d real-time scripts (first: %s)" % (n, lines[0][:200]), out[-1800:],
                             "race detector reports a data race while the pool runs the scripts in real time")
        else:
            chk.infra_errors.append("real-time race run crashed: " + out[-800:])
