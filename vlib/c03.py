# C03 -- loom.Wheel timers fire exactly once, never late and less than one step early.
# Model: coq/models/Wheel.v ; theorems: coq/props/C03.v
# Vehicles: (a) cooperative scheduler over the wheel's yield sites (ticker = VerifTick calls),
# (b) pure differential of the bucket index / panic condition, (c) real-time smoke stream.
import json
import os
import re

from . import common
from . import pure
from . import queue_common as qc

PROOFS = ["proofs/WheelProofs.v", "models/Wheel.v"]
HOUR = 3600 * 10 ** 9
RANGE_PANIC = "panic:step_should_be_in_range_[0__maxTimeout)"


# ------------------------------------------------------------------ case lines
def prog_str(progs):
    return ";".join(".".join(p) for p in progs)


def case_line(step, n, ticks, progs, sched, tag="c03"):
    return "%s step=%d n=%d ticks=%d progs=%s sched=%s" % (tag, step, n, ticks, prog_str(progs), ",".join(map(str, sched)))


def case_fields(case):
    m = dict(t.split("=", 1) for t in case.split()[1:])
    progs = [[o for o in p.split(".") if o] for p in m.get("progs", "").split(";")]
    sched = [int(x) for x in m.get("sched", "").split(",") if x]
    return m, progs, sched


def bucket_index(step, n, d):
    """The property's own arithmetic (independent of the model): None = out of range."""
    if d < 0 or d >= step * n:
        return None
    return max(d // step, 1) - 1


def effective_durations(step, prog):
    """duration handed to the wheel by every op of one requester program (WheelTimer.Reset
    keeps the timer's interval unless the argument is >= step)."""
    out = []
    tint = 0
    for o in prog:
        if o[0] == "N":
            tint = int(o[1:])
            out.append(tint)
        elif o[0] == "A":
            out.append(int(o[1:]))
        elif o == "R":
            out.append(tint)
        else:
            x = int(o[1:])
            out.append(x if x >= step else tint)
    return out


def max_index(n):
    return max(n - 2, 0)


def dur_for_index(rng, step, n, i):
    """a duration whose bucket index is i, boundary biased"""
    if i == 0:
        lo, hi = 0, min(2 * step, step * n)
    else:
        lo, hi = (i + 1) * step, (i + 2) * step
    c = rng.below(6)
    if c == 0:
        return lo
    if c == 1:
        return hi - 1
    if c == 2 and i == 0 and n >= 2:
        return rng.choice([step - 1, step, step + 1])
    return rng.range(lo, hi - 1)


def rand_prog(rng, step, n, nops):
    p = []
    have_timer = False
    for _ in range(nops):
        i = rng.range(0, max_index(n))
        d = dur_for_index(rng, step, n, i)
        k = rng.below(6)
        if k <= 1 or not have_timer:
            if k % 3 == 1:
                p.append("A%d" % d)
            else:
                p.append("N%d" % d)
                have_timer = True
        elif k == 2:
            p.append("R")
        elif k == 3:
            # Reset(x): x < step keeps the interval, x >= step overrides it
            p.append("R%d" % rng.choice([d, 0, step - 1, step, d]))
        else:
            p.append("R%d" % d)
    return p


def enum_schedules(step, n, ticks, progs, mode, mx):
    line = "c03enum mode=%s max=%d step=%d n=%d ticks=%d progs=%s" % (mode, mx, step, n, ticks, prog_str(progs))
    out = common.run_model([line])[0]
    m = re.match(r"states=(\d+) scheds=(.*)$", out)
    if not m:
        raise RuntimeError("c03enum failed: " + out[:200])
    scheds = [[int(x) for x in s.split(",")] for s in m.group(2).split(";") if s]
    return int(m.group(1)), scheds


# ------------------------------------------------------------------ parsing
def parse_out(line):
    """-> dict(steps, fin, reqs={(tid,op): dict(k0,k1,cret,obs) | dict(k0, obs='panic')}, livelock)"""
    if not line.startswith("steps="):
        return None
    d = dict(steps=[], fin=[], reqs={}, livelock="LIVELOCK" in line, has_reqs=False)
    for tok in line.split(" "):
        if tok.startswith("steps="):
            d["steps"] = [x for x in tok[6:].split(",") if x]
        elif tok.startswith("fin="):
            d["fin"] = [(int(x.split(":", 1)[0]), x.split(":", 1)[1]) for x in tok[4:].split(",") if x]
        elif tok.startswith("reqs="):
            d["has_reqs"] = True
            for x in tok[5:].split(","):
                if not x:
                    continue
                f = x.split(":")
                tid, op = (int(v) for v in f[0].split("."))
                if f[-1] == "panic":
                    d["reqs"][(tid, op)] = dict(k0=int(f[1]), obs="panic")
                else:
                    d["reqs"][(tid, op)] = dict(k0=int(f[1]), k1=int(f[2]), cret=int(f[3]), obs=f[4])
    return d


def compare(case, model, impl):
    if case.startswith("c03idx"):
        return None if model == impl else "bucket index / panic condition differs"
    pm, pi = parse_out(model), parse_out(impl)
    if pm is None:
        return "model produced no trace (%s)" % model[:200]
    if pi is None:
        return "implementation produced no trace"
    for k, (a, b) in enumerate(zip(pm["steps"], pi["steps"])):
        if a != b:
            return "step %d differs: model %s, implementation %s" % (k, a, b)
    if len(pm["steps"]) != len(pi["steps"]):
        return "number of steps differs"
    if pm["fin"] != pi["fin"]:
        return "completion phase differs"
    if pm["livelock"] != pi["livelock"]:
        return "livelock verdict differs"
    if sorted(pm["reqs"]) != sorted(pi["reqs"]):
        return "set of completed requests differs"
    for key in sorted(pm["reqs"]):
        a, b = pm["reqs"][key], pi["reqs"][key]
        if (a["obs"] == "panic") != (b["obs"] == "panic"):
            return "request %s: panic differs" % (key,)
        if a["obs"] == "panic":
            if a["k0"] != b["k0"]:
                return "request %s: k0 differs" % (key,)
            continue
        if (a["k0"], a["k1"], a["cret"]) != (b["k0"], b["k1"], b["cret"]):
            return "request %s: tick counters differ: model %s implementation %s" % (key, a, b)
        mf = None if a["obs"] == "never" else int(a["obs"][1:])
        ob = b["obs"]
        if ob.startswith("f") and ob[1:].isdigit():
            ok = mf is not None and mf == int(ob[1:]) and mf > a["cret"]
        elif ob == "e":
            ok = mf is not None and mf <= a["cret"]
        elif ob.startswith("cb") and ob[2:].isdigit():
            ok = mf is not None and mf <= int(ob[2:])   # callback goroutine is runtime-scheduled: allowed set
        elif ob == "never" or ob == "cbnever":
            ok = mf is None
        else:
            ok = False
        if not ok:
            return "request %s: fire tick differs: model %s, implementation observed %s" % (key, a["obs"], ob)
    return None


# ------------------------------------------------------------------ monitors (property text on the implementation's own trace)
def monitor(case, impl):
    if case.startswith("c03idx"):
        return monitor_idx(case, impl)
    m, progs, sched = case_fields(case)
    step, n = int(m["step"]), int(m["n"])
    out = parse_out(impl)
    if out is None:
        return ("crash", "no trace from the implementation: " + impl[:200])
    if out["livelock"] or not out["has_reqs"]:
        return ("livelock", "threads did not finish under round-robin completion")
    for ev in out["steps"] + [e for _, e in out["fin"]]:
        if ev.startswith("panic:") and ev != RANGE_PANIC:
            return ("panic", "a wheel operation panicked: " + ev)
    for ti, prog in enumerate(progs):
        tid = ti + 1
        durs = effective_durations(step, prog)
        for op, d in enumerate(durs):
            r = out["reqs"].get((tid, op))
            if r is None:
                break  # thread died earlier (range panic) or never ran
            i = bucket_index(step, n, d)
            what = "request t%d op%d (%s, d=%d, step=%d, n=%d)" % (tid, op, prog[op], d, step, n)
            if r["obs"] == "panic":
                if i is not None:
                    return ("panic-in-range", what + " panicked although 0 <= d < step*n")
                break
            if i is None:
                continue  # out of range but no panic: not covered by the property text (the model diff sees it)
            lo, hi = r["k0"] + i + 1, r["k1"] + i + 1
            ob = r["obs"]
            if ob.startswith("f") and ob[1:].isdigit():
                f = int(ob[1:])
                if not lo <= f <= hi:
                    return ("fire-window", what + ": invoked after %d completed ticks, returned after %d started ticks, "
                            "became ready at tick %d, allowed [%d,%d]" % (r["k0"], r["k1"], f, lo, hi))
            elif ob == "e":
                if r["cret"] < lo:
                    return ("fire-early", what + ": already ready on return after %d completed ticks, earliest allowed tick %d" % (r["cret"], lo))
            elif ob.startswith("cb") and ob[2:].isdigit():
                if int(ob[2:]) < lo:
                    return ("fire-early", what + ": callback ran after %s completed ticks, earliest allowed tick %d" % (ob[2:], lo))
            elif ob in ("never", "cbnever"):
                return ("never-fires", what + ": not ready %d ticks after the end of the run (allowed latest tick %d)" % (n, hi))
            elif ob == "cbmany":
                return ("fires-twice", what + ": callback ran more than once")
            else:
                return ("ready-not-by-tick", what + ": readiness changed outside a tick's close step: " + ob)
    return None


def monitor_idx(case, impl):
    m = dict(t.split("=", 1) for t in case.split()[1:])
    step, n, d = int(m["step"]), int(m["n"]), int(m["d"])
    if step <= 0 or n <= 0 or step * n >= 2 ** 63:
        return None
    i = bucket_index(step, n, d)
    if i is None:
        return None
    what = "NewWheel(%d,%d), %s ticks, NewTimer(%d)" % (step, n, m.get("pre", "0"), d)
    if "panic" in impl:
        return ("panic-in-range", what + " panicked although 0 <= d < step*n: " + impl)
    if m.get("probe") == "1":
        return None
    want = int(m["pre"]) + i + 1
    if impl != "fire=%d" % want:
        return ("fire-window", what + ": %s, the property requires tick %d (D = %d)" % (impl, want, (i + 1) * step))
    return None


RT_EARLY_MARGIN_US = 15000
RT_LATE_MARGIN_US = 80000


def monitor_rt(case, impl):
    m = dict(t.split("=", 1) for t in case.split()[1:])
    s = int(m["step_ms"]) * 1000
    if not impl.startswith("rt=") or "TIMEOUT" in impl:
        return ("never-fires", "real-time run: some timer did not fire within 10 s: " + impl[:200])
    body, dbl = impl[3:].split(" dbl=")
    if dbl != "0":
        return ("fires-twice", "real-time run: a callback ran more than once")
    for x in body.split(","):
        d, t = (int(v) for v in x.split(":"))
        D = max(s * (d * 1000 // s), s)
        if not (D - s - RT_EARLY_MARGIN_US < t <= D + RT_LATE_MARGIN_US):
            return ("rt-window", "real-time run (step %d us): d=%d ms fired after %d us, allowed (%d, %d] (+margins -%d/+%d us)" % (
                s, d, t, D - s, D, RT_EARLY_MARGIN_US, RT_LATE_MARGIN_US))
    return None


def nontrivial(case, model):
    if case.startswith("c03idx"):
        return True
    pm = parse_out(model)
    if pm is None:
        return False
    # some request overlaps a tick
    return any(r["obs"] != "panic" and r["k0"] < r["k1"] for r in pm["reqs"].values())


# ------------------------------------------------------------------ generators
def op_variants(rng, step, n, i):
    d = dur_for_index(rng, step, n, i)
    k = rng.below(4)
    if k == 0:
        return ["A%d" % d]
    if k == 1:
        return ["N%d" % dur_for_index(rng, step, n, rng.range(0, max_index(n))), "R%d" % d] if d >= step else ["N%d" % d, "R"]
    return ["N%d" % d]


def gen(chk, tier):
    rng = chk.rng
    quick = tier == "quick"
    streams = []
    nst = 0
    # (a1) every interleaving of 1-2 ticks x 1 request, all n in 1..5, all indices
    ex = []
    for n in range(1, 6):
        for i in range(0, max_index(n) + 1):
            for ticks in (1, 2):
                progs = [["N%d" % dur_for_index(rng, HOUR, n, i)]] if ticks == 2 else [[rng.choice(["N", "A"]) + str(dur_for_index(rng, HOUR, n, i))]]
                _, scheds = enum_schedules(HOUR, n, ticks, progs, "all", 4000 if quick else 400000)
                ex += [case_line(HOUR, n, ticks, progs, s) for s in scheds]
    streams.append(("exhaustive-1-2ticks-x-1req", ex))
    # (a2) every interleaving of 1 tick x 2 requests (quick: capped per configuration)
    ex2 = []
    for n in range(1, 6):
        for _ in range(1):
            progs = [["N%d" % dur_for_index(rng, HOUR, n, rng.range(0, max_index(n)))] for _ in range(2)]
            _, scheds = enum_schedules(HOUR, n, 1, progs, "all", 1200 if quick else 250000)
            ex2 += [case_line(HOUR, n, 1, progs, s) for s in scheds]
    streams.append(("interleavings-1tick-x-2req", ex2))
    # (b) one schedule per (reachable model state, enabled thread) edge: 2-3 ticks x 2 requesters
    ed = []
    for _ in range(8 if quick else 60):
        n = rng.range(1, 5)
        step = rng.choice([HOUR, HOUR, 60 * 10 ** 9, 2 ** 45 + 1])
        ticks = rng.choice([2, 2, 3] if quick else [2, 3, n + 1])
        progs = [op_variants(rng, step, n, rng.range(0, max_index(n))) for _ in range(2)]
        ns, scheds = enum_schedules(step, n, ticks, progs, "edges", 1200 if quick else 20000)
        nst += ns
        ed += [case_line(step, n, ticks, progs, s) for s in scheds]
    streams.append(("state-edge-cover", ed))
    # (c) random bursty schedules: up to 3n ticks x up to 4 requesters x 1-3 ops (incl. out-of-range)
    rd = []
    for _ in range(1500 if quick else 20000):
        n = rng.range(1, 5)
        step = rng.choice([HOUR, HOUR, 60 * 10 ** 9, 2 ** 45 + 1])
        ticks = rng.range(1, 3 * n)
        nt = rng.range(1, 4)
        progs = [rand_prog(rng, step, n, rng.range(1, 3)) for _ in range(nt)]
        if rng.chance(1, 12):
            progs[rng.below(nt)].append(rng.choice(["N%d" % (step * n), "N-1", "A%d" % (step * n + 1)]))
        total = 6 * ticks + sum(5 * len(p) for p in progs)
        rd.append(case_line(step, n, ticks, progs, qc.random_schedule(rng, nt + 1, rng.range(4, total + 8))))
    streams.append(("random-bursty", rd))
    chk.cov["states"] = nst
    return streams


def gen_idx(chk, tier):
    """pure differential of index / panic condition, sequential runs"""
    rng = chk.rng
    quick = tier == "quick"
    out = []
    big_steps = [HOUR, 60 * 10 ** 9, 10 * 10 ** 9 + 7, 2 ** 45 + 1, 2 ** 55, 2 ** 50 - 1]
    for _ in range(1500 if quick else 30000):
        step = rng.choice(big_steps)
        n = rng.choice([1, 1, 2, 2, 3, 4, 5, 8, 21, rng.range(1, 64)])
        while step * n >= 2 ** 63:
            n = max(1, n // 2)
        q = rng.range(0, n)
        d = rng.choice([q * step, q * step - 1, q * step + 1, q * step + rng.below(step), step * n - 1, step * n, -1, 0, rng.range(-5, step * n + 5)])
        if d >= 2 ** 63:
            d = 2 ** 63 - 1
        out.append("c03idx step=%d n=%d pre=%d d=%d" % (step, n, rng.range(0, 2 * n + 1), d))
    # small steps / degenerate configurations / int64 overflow of step*n: only the panic condition is observable
    for _ in range(1000 if quick else 20000):
        step = rng.choice([1, 2, 3, 7, 1000, 10 ** 6, 10 ** 9, 0, -1, 2 ** 62, 2 ** 61 + 1, 2 ** 63 - 1, rng.range(1, 10 ** 12)])
        n = rng.choice([0, -1, 1, 2, 3, 4, 5, 9, rng.range(1, 40)])
        q = rng.range(0, max(n, 1))
        d = rng.choice([q * step, q * step - 1, q * step + 1, step * n - 1, step * n, -1, 0, 2 ** 63 - 1, rng.range(-5, abs(step * n) + 5)])
        d = max(-2 ** 63, min(2 ** 63 - 1, d))
        out.append("c03idx step=%d n=%d pre=0 d=%d probe=1" % (step, n, d))
    return out


def gen_rt(chk, tier):
    rng = chk.rng
    out = []
    for _ in range(2 if tier == "quick" else 10):
        ds = [rng.choice([0, 1, 19, 20, 21, 39, 40, 41, 59, 60, 100, 119, 120, 139, 140, 159, rng.range(0, 159)]) for _ in range(24)]
        out.append("c03rt step_ms=20 n=8 ds=%s gap_us=%d" % (",".join(map(str, ds)), rng.range(500, 5000)))
    return out


# ------------------------------------------------------------------ vm_compute cross-check
def coq_crosscheck(chk, cases, model_out):
    def code(ev):
        if ev.startswith("y"):
            return int(ev[1:])
        return {"r:tick": 20, "r:req": 21, "done": 0}.get(ev, -1 if ev == RANGE_PANIC else -2)

    def zl(l):
        return "[" + ";".join("(%d)" % x for x in l) + "]%Z"

    def opt(o):
        if o[0] == "N":
            return "WhNew (%s)" % o[1:]
        if o[0] == "A":
            return "WAfter (%s)" % o[1:]
        return "WReset None" if o == "R" else "WReset (Some (%s))" % o[1:]
    items = []
    for c, mo in zip(cases, model_out):
        m, progs, sched = case_fields(c)
        pm = parse_out(mo)
        flat = []
        for key in sorted(pm["reqs"]):
            r = pm["reqs"][key]
            if r["obs"] == "panic":
                continue
            flat += [key[0], r["k0"], r["k1"], -1 if r["obs"] == "never" else int(r["obs"][1:])]
        pr = "[" + ";".join("[" + ";".join(opt(o) for o in p) + "]" for p in progs) + "]"
        items.append("(wh_obs (wh_init (%s) %s %s %s%%Z) [%s]%%nat, %s, %s)" % (
            m["step"], m["n"], m["ticks"], pr, ";".join(map(str, sched)), zl([code(e) for e in pm["steps"]]), zl(flat)))
    body = """From Got Require Import Base Wheel.
Local Open Scope Z_scope.
Definition ev_code (s : wh_state) (i : nat) (ev : wh_event) : Z :=
  match ev with
  | WETickRet _ _ => 20 | WERet _ _ _ _ => 21 | WENone => 0 | WEPanicRange _ => -1
  | WEPanicClose _ | WEPanicIndex => -2
  | _ => Z.of_nat (wh_site WFixed s i) end.
Fixpoint obs_go (s : wh_state) (sched : list nat) : list Z * list (nat * wh_event) * wh_state :=
  match sched with
  | [] => ([], [], s)
  | i :: r => let '(s1, ev) := wh_step WFixed s i in let '(l, tr, s2) := obs_go s1 r in (ev_code s1 i ev :: l, (i, ev) :: tr, s2)
  end.
Fixpoint fin (fuel : nat) (s : wh_state) (acc : list (nat * wh_event)) : wh_state * list (nat * wh_event) :=
  match fuel with O => (s, acc) | S f =>
    let n := S (length (wh_threads s)) in
    let '(s', acc') := fold_left (fun sa i => if wh_enabled (fst sa) i then
                                     let '(s1, ev) := wh_step WFixed (fst sa) i in (s1, snd sa ++ [(i, ev)]) else sa) (seq 0 n) (s, acc) in
    if existsb (wh_enabled s') (seq 0 n) then fin f s' acc' else (s', acc') end.
Fixpoint ticker_all (fuel : nat) (s : wh_state) : wh_state :=
  match fuel with O => s | S f => if wh_enabled s O then ticker_all f (fst (wh_step WFixed s O)) else s end.
Definition wh_obs (s : wh_state) (sched : list nat) : list Z * list Z :=
  let '(l, tr, s1) := obs_go s sched in
  let '(s2, tr2) := fin 400 s1 tr in
  let s3 := ticker_all (6 * wh_n s2 + 6) (wh_more_ticks s2 (wh_n s2)) in
  let per tid := flat_map (fun e => match e with
       | (t, WERet _ k0 k1 ch) => if Nat.eqb t tid then
             [Z.of_nat tid; Z.of_nat k0; Z.of_nat k1; match wh_closed_at s3 ch with Some g => Z.of_nat g | None => -1 end] else []
       | _ => [] end) tr2 in
  (l, flat_map per (seq 1 (length (wh_threads s)))).
Definition zl_eqb (a b : list Z) : bool := if list_eq_dec Z.eq_dec a b then true else false.
Definition ok (c : (list Z * list Z) * list Z * list Z) : bool :=
  match c with ((l, d), el, ed) => zl_eqb l el && zl_eqb d ed end.
Definition cases := [%s].
Definition bad := Eval vm_compute in length (filter (fun c => negb (ok c)) cases).
Print bad.
""" % ";\n".join(items)
    out = common.run_coq_eval(body)
    if "bad = 0%nat" not in out.replace("\n", " "):
        chk.diverge("vm_compute-vs-extraction", "sample of %d cases" % len(items), out[-300:], "", "extracted OCaml model disagrees with vm_compute")
    return len(items)


# ------------------------------------------------------------------ the check
TRUSTED = [
    "cooperative scheduler harness/internal/coop + verif-tag yield hooks in loom/wheel.go (one before every atomic access of fetchWheelData/onTicker and before close) + (*Wheel).VerifTick: one step = one shared access; the wheel is created with step >= 1 min so the real ticker never fires during a case",
    "modelled, not verified: channel identity as an allocation number (channels are GC-managed, never reused; close = broadcast, a closed channel stays ready); Go atomics as sequentially consistent steps; goroutine scheduling as arbitrary interleaving of those steps; time.Ticker delivering one onTicker call per step of the tick clock; AfterFunc's goroutine runs the callback once its channel is closed",
]


def build_coop(chk):
    return qc.build_coop(chk)


def canary(chk, binary):
    """The model of the ORIGINAL step order must disagree with the implementation on the
    refutation witnesses; otherwise the observation is too weak to tell right from wrong."""
    path = os.path.join(common.CORPUS, "C03", "orig_late_revolution.txt")
    if not os.path.exists(path):
        chk.infra_errors.append("canary corpus file missing: corpus/C03/orig_late_revolution.txt")
        return
    cases = [l.strip() for l in open(path) if l.strip() and not l.startswith("#")]
    impl = common.run_impl(binary, cases)
    model = common.run_model([c.replace("c03 ", "c03 order=orig ", 1) for c in cases])
    def fire_obs(line):
        po = parse_out(line)
        return None if po is None else sorted((k, r["obs"].replace("cb", "f")) for k, r in po["reqs"].items())
    # judged on the property's observable alone (which tick fires each request), not on yield-site numbers
    agree = [c for c, m, i in zip(cases, model, impl) if fire_obs(m) == fire_obs(i)]
    chk.cov["canary_cases"] = len(cases)
    chk.cov["canary_distinguished"] = len(cases) - len(agree)
    if agree and not chk.monitor_failures and not chk.divergences:
        chk.diverge("canary", agree[0], "(model of the original step order)", "", "the original (defective) step order is not distinguished from the implementation: observation too weak")


def run_rt(chk, binary, cases):
    for c in cases:
        last = None
        for attempt in range(3):
            try:
                impl = common.run_impl(binary, [c])[0]
            except common.ImplCrash as e:
                impl = "CRASH " + str(e)[-300:]
            last = (monitor_rt(c, impl), impl)
            if last[0] is None:
                break
        chk.count_case("realtime-smoke", c, True)
        if last[0] is not None:
            chk.monitor_fail(last[0][0], c, last[1], last[0][1] + " (3 attempts)")


# ------------------------------------------------------------------ real goLoop on the virtual clock
def gen_ft(rng, tier):
    """Wheel with its real ticker under faketime: (step, n, requests at virtual instants).
    Exact stream: request instants are never multiples of step; tie stream: they are."""
    exact, ties = [], []
    cfgs = [(1000000, 8), (7, 1), (7, 2), (1000, 3), (1000000000, 21), (13, 5)]
    count = 60 if tier == "quick" else 1500
    for k in range(count):
        step, n = cfgs[k % len(cfgs)] if k < 4 * len(cfgs) else (rng.choice([3, 7, 1000, 999983, 1000000, 500000000]), rng.range(1, 12))
        reqs, treqs = [], []
        for _ in range(rng.range(1, 8)):
            phase = rng.range(1, step - 1) if step > 2 else 1
            r = rng.range(0, 3 * n) * step + phase
            dmax = step * n - 1
            d = rng.choice([0, 1, step - 1, step, step + 1, 2 * step, dmax, rng.range(0, dmax), (rng.range(0, n) * step) % (dmax + 1)])
            d = max(0, min(d, dmax))
            kind = rng.choice(["T", "T", "A", "N"])
            rq = "%d:%s:%d" % (r, kind, d)
            if kind == "N":
                # the AfterFunc callback requests a timer of the same wheel and waits for it (re-entrancy)
                d2 = rng.choice([0, step - 1, step, 2 * step + 1, rng.range(0, dmax)])
                rq += ":%d" % max(0, min(d2, dmax))
                kind = "A"      # the tie stream has no nested requests
            elif kind == "T" and rng.chance(1, 3):
                d2 = rng.choice([0, step - 1, step, 2 * step + 1, rng.range(0, dmax)])
                rq += ":%d" % max(0, min(d2, dmax))
            reqs.append(rq)
            treqs.append("%d:%s:%d" % (rng.range(1, 3 * n) * step, kind, d))
        if rng.chance(1, 6):
            reqs.append("%d:T:%d" % (rng.range(0, n) * step + 1, rng.choice([step * n, step * n + 5, -1])))   # out of range: panics
        exact.append("c03f step=%d n=%d reqs=%s" % (step, n, ";".join(reqs)))
        if k % 3 == 0:
            ties.append("c03f step=%d n=%d reqs=%s" % (step, n, ";".join(treqs)))
    return exact, ties


_FIRE_CACHE = {}


def ft_fires(keys):
    """batch of (step, n, pre, d) -> fire tick or None, through the extracted model (c03idx)"""
    todo = sorted(set(k for k in keys if k not in _FIRE_CACHE))
    if todo:
        outs = common.run_model(["c03idx step=%d n=%d pre=%d d=%d" % k for k in todo])
        for k, out in zip(todo, outs):
            _FIRE_CACHE[k] = int(out[5:]) if out.startswith("fire=") and out[5:].isdigit() else None


def ft_parse(case):
    m = dict(t.split("=", 1) for t in case.split()[1:])
    step, n = int(m["step"]), int(m["n"])
    reqs = [r.split(":") for r in m["reqs"].split(";")]
    return step, n, reqs


def ft_pres(step, r):
    return [p for p in ([r // step] if r % step else [r // step, r // step - 1]) if p >= 0]


def ft_expect_all(cases):
    """Model prediction (sequential request after `pre` completed ticks; a request exactly at a
    tick instant may see that tick done or not): per case, per request, the allowed fire-time tuples."""
    parsed = [ft_parse(c) for c in cases]
    ft_fires([(step, n, pre, int(rq[2])) for step, n, reqs in parsed for rq in reqs for pre in ft_pres(step, int(rq[0]))])
    second = []
    for step, n, reqs in parsed:
        for rq in reqs:
            if len(rq) > 3:
                d, d2 = int(rq[2]), int(rq[3])
                eff = d2 if (d2 >= step or rq[1] == "N") else d          # Reset(x) keeps the old interval for x < step; N = a fresh NewTimer(d2)
                for pre in ft_pres(step, int(rq[0])):
                    f1 = _FIRE_CACHE[(step, n, pre, d)]
                    if f1 is not None:
                        second.append((step, n, f1, eff))
    ft_fires(second)
    res = []
    for step, n, reqs in parsed:
        per = []
        for rq in reqs:
            d = int(rq[2])
            opts = []
            for pre in ft_pres(step, int(rq[0])):
                f1 = _FIRE_CACHE[(step, n, pre, d)]
                if f1 is None:
                    opts.append(("panic",))
                elif len(rq) > 3:
                    d2 = int(rq[3])
                    f2 = _FIRE_CACHE[(step, n, f1, d2 if (d2 >= step or rq[1] == "N") else d)]
                    opts.append((f1 * step, f2 * step) if f2 is not None else ("panic",))
                else:
                    opts.append((f1 * step,))
            per.append(opts)
        res.append((step, reqs, per))
    return res


def run_ft(chk, tier):
    try:
        binary = common.build_go("./cmd/ftwheel", tags="verif faketime")
    except common.BuildError as e:
        chk.infra_errors.append("faketime wheel harness does not build against /repo: " + str(e)[-800:])
        return
    exact, ties = gen_ft(chk.rng.fork(), tier)
    cases = exact + ties
    try:
        impl = common.run_impl(binary, cases, timeout=900, env=dict(os.environ, GOMAXPROCS="2"))
        # a case that hangs poisons its process (leaked ticker): the cases after it are re-run in fresh processes
        for _ in range(8):
            todo = [k for k, i in enumerate(impl) if i == "SKIPPED-AFTER-HANG"]
            if not todo:
                break
            again = common.run_impl(binary, [cases[k] for k in todo], timeout=900, env=dict(os.environ, GOMAXPROCS="2"))
            for k, i in zip(todo, again):
                impl[k] = i
    except common.ImplCrash as e:
        chk.infra_errors.append("faketime wheel stream crashed or hung: " + str(e)[-800:])
        return
    expected = ft_expect_all(cases)
    for idx, (c, i) in enumerate(zip(cases, impl)):
        stream = "ticker-faketime" if idx < len(exact) else "ticker-faketime-ties"
        chk.count_case(stream, c, True)
        chk.cov["disagreements_checked"] += 1
        if i == "SKIPPED-AFTER-HANG":
            continue
        if not i.startswith("fires="):
            chk.monitor_fail("ticker-hang", c, i, "a timer of the wheel running on its real ticker never became ready")
            continue
        step, reqs, exp = expected[idx]
        got = i[6:].split(";")
        ok = True
        for rq, g, opts in zip(reqs, got, exp):
            gt = tuple(g.split(",")) if g == "panic" else tuple(int(x) for x in g.split(","))
            r, d = int(rq[0]), int(rq[2])
            if gt != ("panic",) and 0 <= d:
                # property text: D - s < t - r <= D, D = max(s*floor(d/s), s)  (first firing)
                D = max(step * (d // step), step)
                t = gt[0] - r
                if not (D - step < t <= D) and r % step:
                    chk.monitor_fail("fire-window-time", c, i, "request at +%d ns with d=%d fired after %d ns, allowed (%d, %d]" % (r, d, t, D - step, D))
                    ok = False
            if gt not in opts:
                chk.diverge(stream, c, "request %s: %s" % (":".join(rq), opts), g, "fire time on the virtual clock differs from the model's tick arithmetic")
                ok = False
        if ok:
            chk.cov["traces_validated_against_impl"] += 1
    chk.sample(dict(stream="ticker-faketime", case=cases[0], impl=impl[0]), limit=14)


def run(chk):
    chk.trusted = common.BASE_TRUSTED + TRUSTED
    chk.assumptions = ["sync/atomic operations are sequentially consistent (Go memory model)",
                       "preemption matters only between shared-memory accesses of fetchWheelData/onTicker (each has a yield site)",
                       "one goroutine (goLoop) runs onTicker, one call per tick of the wheel's clock",
                       "step * bucketNum < 2^63 ns (otherwise maxTimeout wraps; modelled with the wrap, excluded by the theorems' hypothesis)"]
    chk.cov["rule"] = ("case = (step, buckets, number of ticks, one NewTimer/Reset/AfterFunc program per requester thread, schedule of thread ids; thread 0 = ticker "
                       "running VerifTick); the real wheel runs it under the cooperative scheduler, the model runs wh_step; compared: the event of every step "
                       "(yield site / return / panic), the round-robin completion, and per request k0 (ticks completed at invocation), k1 (ticks started at return) and "
                       "the tick whose close made its channel ready (AfterFunc: callback stamp as an allowed set). Streams: every interleaving of 1-2 ticks x 1 request "
                       "for n=1..5 and every bucket index; interleavings of 1 tick x 2 requests; one schedule per (reachable model state, enabled thread) edge of "
                       "2-3 ticks x 2 requesters; random bursty schedules up to 3n ticks x 4 requesters; sequential index/panic differential over (step,n,d,phase) "
                       "incl. int64 overflow of step*n; real-time smoke runs on the real ticker (monitor only). non-trivial = some request overlaps a tick (k0 < k1); "
                       "distinct = distinct case line")
    chk.run_proof_gate(PROOFS)
    binary = build_coop(chk)
    if binary:
        streams = [("corpus", pure.corpus_cases("C03"))] + gen(chk, chk.tier) + [("index-differential", gen_idx(chk, chk.tier))]
        pure.run_streams(chk, binary, streams, compare, monitor, nontrivial)
        try:
            canary(chk, binary)
        except Exception as ex:
            chk.infra_errors.append("canary run failed: %r" % (ex,))
        run_rt(chk, binary, gen_rt(chk, chk.tier))
        run_ft(chk, chk.tier)
        sample = [c for c in streams[1][1][::max(1, len(streams[1][1]) // 40)][:40]] + streams[3][1][:40] + streams[4][1][:40]
        try:
            mo = common.run_model(sample)
            chk.cov["vm_compute_crosschecked"] = coq_crosscheck(chk, sample, mo)
        except Exception as ex:
            chk.infra_errors.append("vm_compute cross-check failed: %r" % (ex,))
    chk.finish(search=search)


def search(chk):
    binary = build_coop(chk)
    if not binary:
        return
    chk.rng = chk.rng.fork()
    cases = pure.corpus_cases("C03")
    for _, cs in gen(chk, "quick"):
        cases += cs
    cases += gen_idx(chk, "quick")
    impl = common.run_impl(binary, cases)
    for c, i in zip(cases, impl):
        mf = monitor(c, i)
        if mf:
            chk.monitor_fail(mf[0], c, i, mf[1])


def replay(chk, path):
    rep = json.load(open(path))
    binary = build_coop(chk)
    cases = [x["case"] for x in rep.get("failing_inputs", []) + rep.get("divergences", [])
             if isinstance(x.get("case"), str) and x["case"].startswith("c03")]
    bad = 0
    for c in cases:
        i = common.run_impl(binary, [c])[0]
        if c.startswith("c03rt"):
            mf, cmpr, m = monitor_rt(c, i), None, "(monitor only)"
        else:
            m = common.run_model([c])[0]
            mf, cmpr = monitor(c, i), compare(c, m, i)
        print("case=%s\n  model=%s\n  impl=%s\n  monitor=%s compare=%s" % (c, m, i, mf, cmpr))
        if mf or cmpr:
            bad += 1
    print("replayed %d case(s), %d still failing" % (len(cases), bad))
    raise SystemExit(1 if bad else 0)
