# C06 stream "liveness-steps": the real cachex calls, the job goroutines and the sweep of the gc
# tick, executed one shared access at a time under the deterministic scheduler of
# harness/cmd/coop/c06s.go (build tags "verif cachexhooks"; shard mutexes, the bounded job channel
# and wg.Wait() decide which thread is enabled; a goroutine that blocks inside the library at a
# place without a yield point is detected and reported as hung:<where>), against the small-step
# blocking machine coq/models/CacheLiveSteps.v (ocaml/drv_c06s.ml).  Skipped (recorded, no
# violation) when the tree under test has no cachex hooks.
#
# Comparability of sweeps: Go iterates a map in random order, the model sweeps the entries of a
# shard in a fixed order, so every generated configuration that contains a gc tick has AT MOST ONE
# key per shard (keys <= nsh); configurations with several keys per shard have no tick.
import os
import re

from . import common

PROOFS = ["proofs/CacheLiveStepsProofs.v", "models/CacheLiveSteps.v"]

# set-ups of key 0 (E = 1 h, error E = 20 min; ages far from every boundary).  A set-up that
# leaves a job in the channel ("loading", "loading-stale-pred") needs cap >= 1 and uses one slot.
INITS = {
    "absent": "",
    "loading": "L0",
    "loading-stale-pred": "L0,F:5:0,B0:5400,L0",
    "fresh": "L0,F:5:0,B0:60",
    "expired": "L0,F:5:0,B0:5400",
    "rotted": "L0,F:5:0,B0:10800",
    "err-expired": "L0,F:0:3,B0:1800",
}

CANARY = "par=1 cap=1 nsh=1 keys=3 init= progs=L0;L1;L2"


def hooks_present():
    return os.path.exists(os.path.join(common.REPO, "cachex", "verif_on.go"))


def build(chk):
    try:
        return common.build_go("./cmd/coop", tags="verif cachexhooks", out_name="coop-c06s")
    except common.BuildError as e:
        chk.infra_errors.append("coop harness (cachexhooks) does not build against the tree under test: " + str(e)[-1500:])
        return None


def impl_env():
    # one P: the hand-over between the scheduler and the thread goroutines is a plain goroutine
    # switch (about 1.5x faster than with several Ps); blocking detection does not depend on it
    return dict(os.environ, GOMAXPROCS="1")


CHUNK = 1500     # cases per harness process (bounds what a changed library can leak per process)
PROCS = 4        # harness processes run side by side


def run_impl_chunks(binary, cases, timeout=3600):
    """common.run_impl over chunks of the case list, PROCS processes at a time, order preserved"""
    if len(cases) <= CHUNK:
        return common.run_impl(binary, cases, timeout=timeout, env=impl_env())
    from concurrent.futures import ThreadPoolExecutor
    chunks = [cases[i:i + CHUNK] for i in range(0, len(cases), CHUNK)]
    with ThreadPoolExecutor(max_workers=PROCS) as ex:
        outs = list(ex.map(lambda ch: common.run_impl(binary, ch, timeout=timeout, env=impl_env()), chunks))
    return [o for out in outs for o in out]


def cfg_str(par, cap, nsh, keys, init, progs, ord_="fixed"):
    return "ord=%s par=%d cap=%d nsh=%d keys=%d init=%s progs=%s" % (ord_, par, cap, nsh, keys, init, ";".join(progs))


def case_line(cfg, sched):
    return "c06s %s sched=%s" % (cfg, sched)


def case_kv(case):
    return dict(t.split("=", 1) for t in case.split()[1:] if "=" in t)


def enum_many(cfgs, mode, mx, ticks):
    """cfgs: [(cfg string, ticks)] -> [(states, [sched strings])]"""
    lines = ["c06senum mode=%s max=%d ticks=%d %s" % (mode, mx, t, c) for c, t in zip(cfgs, ticks)]
    outs = common.run_model(lines) if lines else []
    res = []
    for o in outs:
        m = re.match(r"states=(\d+) scheds=(.*)$", o)
        if not m:
            raise RuntimeError("c06senum failed: " + o[:200])
        res.append((int(m.group(1)), [s for s in m.group(2).split(";") if s]))
    return res


def spread(xs, n):
    """n elements of xs spread over the whole list (deterministic)"""
    if len(xs) <= n:
        return xs
    step = len(xs) / float(n)
    return [xs[int(i * step)] for i in range(n)]


def random_schedule(rng, nclients, par, length, ticks):
    """bursty: a favourite thread runs several steps in a row; workers take the job branch, the
    tick branch or finish a loader with an error; now and then the ticker fires / the clock advances"""
    threads = [str(i) for i in range(nclients)] + ["w%d" % j for j in range(par)]
    sched = []
    prio = list(threads)
    rng.shuffle(prio)
    while len(sched) < length:
        burst = rng.choice([1, 1, 2, 3, 5])
        t = prio[0] if rng.chance(2, 3) else rng.choice(prio)
        for _ in range(burst):
            if t[0] == "w":
                sched.append(t + rng.choice(["", "", "", "t", "t", "e"]))
            else:
                sched.append(t)
        if ticks and rng.chance(1, 5):
            sched.append("k")
        if rng.chance(1, 8):
            sched.append("a2700")
        if rng.chance(1, 3):
            rng.shuffle(prio)
    return ",".join(sched[:length])


def init_for(rng, cap, allow_queued=True):
    names = [n for n in INITS if allow_queued or "loading" not in n]
    return INITS[rng.choice(names)]


def random_config(rng, maxsh, nclients, ticks):
    """ticks -> at most one key per shard"""
    par = rng.choice([1, 1, 2])
    cap = rng.choice([1, 1, 2])
    nsh = rng.range(1, min(4, maxsh))
    keys = rng.range(1, nsh) if ticks else rng.range(1, 2 * nsh)
    keys = max(keys, min(2, nsh)) if ticks else keys
    init = init_for(rng, cap)
    progs = []
    for _ in range(nclients):
        k = rng.below(keys)
        kind = rng.choice(["L", "L", "L", "LW", "LW", "G", "S", "LG"])
        if kind == "L":
            p = "L%d" % k
        elif kind == "LW":
            p = "L%d.W" % k
        elif kind == "G":
            p = "G%d" % k
        elif kind == "S":
            p = "S%d:%d:%d" % (k, rng.choice([3, 4]), rng.choice([0, 0, 2]))
        else:
            p = "L%d.G%d" % (k, rng.below(keys))
        progs.append(p)
    return cfg_str(par, cap, nsh, keys, init, progs), par


def gen_random(chk, tier, maxsh, mult=1):
    """(3) random bursty schedules, 3-5 clients, par 1-2, cap 1-2, nsh 1-4"""
    rng = chk.rng
    rd = []
    for _ in range((7000 if tier == "quick" else 140000) * mult):
        ticks = rng.chance(3, 4)
        nc = rng.range(3, 5)
        cfg, par = random_config(rng, maxsh, nc, ticks)
        rd.append(case_line(cfg, random_schedule(rng, nc, par, rng.range(8, 60), ticks)))
    return ("liveness-steps/random", rd)


def gen(chk, tier, maxsh):
    """-> [(stream name, [case lines])]"""
    rng = chk.rng
    quick = tier == "quick"
    streams = []

    # (1) all maximal interleavings (capped per configuration, spread) of 2 Loads (+W) over
    #     distinct keys, par 1-2, cap 1-2, nsh 1-3, one ticker firing anywhere
    cfgs, ticks = [], []
    for par in (1, 2):
        for cap in (1, 2):
            for nsh in (1, 2, 3):
                if nsh > maxsh:
                    continue
                for progs in (["L0", "L1"], ["L0.W", "L1"], ["L1.W", "L0.W"]):
                    if nsh == 1:
                        # two keys in one shard: no tick; the same key twice: with the tick
                        cfgs.append(cfg_str(par, cap, 1, 2, "", progs))
                        ticks.append(0)
                        cfgs.append(cfg_str(par, cap, 1, 1, "", [p.replace("L1", "L0") for p in progs]))
                        ticks.append(1)
                    else:
                        cfgs.append(cfg_str(par, cap, nsh, 2, "", progs))
                        ticks.append(1)
    per = 60 if quick else 1200
    ex = []
    for cfg, (_, scheds) in zip(cfgs, enum_many(cfgs, "all", 4000 if quick else 60000, ticks)):
        ex += [case_line(cfg, s) for s in spread(scheds, per)]
    streams.append(("liveness-steps/interleavings", ex))

    # (2) one schedule per (reachable state, thread) edge incl. disabled steps: 3-4 clients,
    #     2-4 Loads over distinct keys (some followed by W) + a Get2 or a Set, one tick,
    #     set-ups with an expired / rotted / loading entry
    E, R, LD = INITS["expired"], INITS["rotted"], INITS["loading"]
    fixed = [
        (1, 1, 1, 1, E, ["L0", "L0.W", "G0"]),
        (1, 1, 2, 2, E, ["L1", "L0", "G0"]),          # refresh of an expired entry with a full channel
        (1, 1, 2, 2, "", ["L0", "L1", "G1"]),          # the second Load meets a full channel
        (2, 1, 2, 2, E, ["L1.W", "L0.W", "S0:3:0"]),
        (1, 2, 3, 3, E, ["L0", "L1.W", "L2", "G0"]),
        (2, 1, 3, 3, R, ["L0.W", "L1", "L2", "S1:3:0"]),
        (1, 1, 2, 2, LD, ["L0.W", "L1", "G0"]),
        (2, 2, 2, 2, LD, ["L0", "L1.W", "S0:4:2", "G1"]),
        (1, 1, 3, 3, "", ["L0", "L1", "L2", "G0"]),
        (2, 1, 2, 2, INITS["err-expired"], ["L0.W", "L1.W", "G0"]),
    ]
    cfgs = [cfg_str(*f) for f in fixed if f[2] <= maxsh]
    for _ in range(2 if quick else 40):
        nsh = rng.range(1, min(3, maxsh))
        keys = nsh
        nl = rng.range(2, 3)
        progs = ["L%d%s" % (rng.below(keys), rng.choice(["", "", ".W"])) for _ in range(nl)]
        progs.append(rng.choice(["G%d" % rng.below(keys), "S%d:3:0" % rng.below(keys)]))
        cfgs.append(cfg_str(rng.choice([1, 2]), rng.choice([1, 2]), nsh, keys, init_for(rng, 1), progs))
    ed = []
    nst = 0
    for cfg, (n, scheds) in zip(cfgs, enum_many(cfgs, "edges", 800 if quick else 6000, [1] * len(cfgs))):
        nst += n
        ed += [case_line(cfg, s) for s in scheds]
    streams.append(("liveness-steps/state-edge-cover", ed))
    chk.cov["liveness_steps_states"] = nst

    streams.append(gen_random(chk, tier, maxsh))
    return streams


def split_model(m):
    parts = m.split(" | ")
    return parts[0], (parts[1] if len(parts) > 1 else "")


def compare(case, model, impl):
    mt, _ = split_model(model)
    if mt == impl:
        return None
    if not mt.startswith("steps="):
        return "model produced no trace (%s)" % model[:200]
    if not impl.startswith("steps="):
        return "implementation produced no trace (%s)" % impl[:200]
    a = mt.split(" ")
    b = impl.split(" ")
    sa, sb = a[0][6:].split(";"), b[0][6:].split(";")
    for k, (x, y) in enumerate(zip(sa, sb)):
        if x != y:
            return "step %d differs: model %s, implementation %s" % (k, x, y)
    if len(a) > 1 and len(b) > 1 and a[1] != b[1]:
        fa, fb = a[1][4:].split(";"), b[1][4:].split(";")
        for k, (x, y) in enumerate(zip(fa, fb)):
            if x != y:
                return "completion step %d differs: model %s, implementation %s" % (k, x, y)
        return "completion phase differs in length"
    ea = [t for t in a if t.startswith("end=")]
    eb = [t for t in b if t.startswith("end=")]
    return "end state differs: model %s, implementation %s" % (" ".join(ea) or a[-1], " ".join(eb) or b[-1])


def parse_impl(case, impl):
    """-> dict(sched=[all items executed], obs=[their observations], nscripted, end, blocked, held)"""
    m = case_kv(case)
    sched = [x for x in m.get("sched", "").split(",") if x]
    toks = impl.split(" ")
    steps = [x for x in toks[0][6:].split(";") if x]
    r = dict(items=sched[:len(steps)], obs=list(steps), nscripted=len(steps), end=None, blocked=[], held="", m=m)
    for t in toks[1:]:
        if t.startswith("fin="):
            for x in t[4:].split(";"):
                if x:
                    it, o = x.split(":", 1)
                    r["items"].append(it)
                    r["obs"].append(o)
        elif t.startswith("end="):
            r["end"] = t[4:]
        elif t.startswith("blocked="):
            r["blocked"] = [tuple(x.split("@", 1)) for x in t[8:].split(",") if "@" in x]
        elif t.startswith("held="):
            r["held"] = t[5:]
    return r


def thread_name(t):
    return ("worker " + t[1:]) if t.startswith("w") else ("client " + t)


def where_text(w):
    if w.startswith("hung:"):
        return "blocked INSIDE the library at %s (a place without a yield point: it never reached its next yield)" % w[5:]
    if w.startswith("yBL"):
        return "parked before Lock() of shard %s (yBL), whose mutex is held" % w.split(":s")[-1]
    if w == "ySJ":
        return "parked before sendJob (ySJ) with the job channel full"
    if w.startswith("yFW"):
        return "parked before wg.Wait() of %s (yFW), which is not complete" % w.split(":")[-1]
    if w == "dead":
        return "dead (panicked)"
    return "parked at " + w


def monitor(case, impl):
    """the property on the implementation's run alone: every call returns, every worker is back in
    select, the channel is empty; no thread ever blocks inside the library; no panic."""
    if not impl.startswith("steps="):
        return "no trace from the implementation: " + impl[:300]
    r = parse_impl(case, impl)
    sched = ",".join(r["items"])
    cap = r["m"].get("cap", "?")
    q = "?"
    if r["obs"]:
        p = r["obs"][-1].split("/")
        if len(p) > 1:
            q = p[1][1:]
    hung = [(k, it, o.split("/")[0]) for k, (it, o) in enumerate(zip(r["items"], r["obs"])) if o.startswith("hung:")]
    hung_txt = ""
    if hung:
        k, it, ev = hung[0]
        hung_txt = ("%s blocked inside the library at %s during item #%d ('%s') of the schedule, at a place without a yield "
                    "point (so while holding whatever it held)" % (thread_name(it.rstrip("te") if it[0] == "w" else it), ev[5:], k, it))
    if " HANG" in impl:
        return ("hang: after schedule %s a managed goroutine neither reached a yield point nor blocked within 10 s" % sched)
    if "LIVELOCK" in impl:
        return "livelock: the completion phase after schedule %s did not come to rest within 4096 rounds" % ",".join(r["items"][:r["nscripted"]])
    if "panic:" in impl:
        k = next(k for k, o in enumerate(r["obs"]) if o.startswith("panic:"))
        return "a call panicked at item #%d ('%s') of schedule %s: %s" % (k, r["items"][k], sched, r["obs"][k].split("/")[0])
    if "y?" in impl:
        return "unknown yield site in the run of schedule " + sched
    if r["end"] != "ok":
        if r["end"] == "queue":
            return "after schedule %s every thread is at rest but %s job(s) stay in the channel" % (sched, q)
        bl = "; ".join("%s is %s" % (thread_name(t), where_text(w)) for t, w in r["blocked"])
        txt = ("deadlock: after schedule %s no logical thread can move while calls are pending (end=%s): %s; "
               "shard mutexes held: %s; job channel %s/%s" % (sched, r["end"], bl, r["held"] or "none", q, cap))
        if hung_txt:
            txt += "; " + hung_txt
        return txt
    if hung:
        return ("blocking inside the library: in schedule %s %s; another thread's step released it later and the run "
                "completed, but with the gc tick taken at that moment nothing could have" % (sched, hung_txt))
    return None


def nontrivial(case, model):
    """at least two different threads in the scripted schedule, and the schedule meets a disabled
    thread (a 'blocked' step in the model's trace) or contains a ticker firing"""
    m = case_kv(case)
    items = [x for x in m.get("sched", "").split(",") if x]
    tids = set(x.rstrip("te") if x[0] == "w" else x for x in items if x[0] not in "ka")
    return len(tids) >= 2 and ("k" in items or "blocked/" in model)


def shard_count(binary):
    out = common.run_impl(binary, ["c06sinfo"], env=impl_env())[0]
    m = re.match(r"shards=(\d+)$", out)
    if not m:
        raise common.ImplCrash("c06sinfo answered " + out[:200])
    return int(m.group(1))


def explorations(chk, info):
    """canary: the model finds the deadlock of the old order and none for the order of /repo;
    plus exhaustive explorations of small random configurations (theorem: never a deadlock)"""
    rng = chk.rng
    lines = ["c06sx ord=orig %s ticks=1 limit=200000" % CANARY, "c06sx ord=fixed %s ticks=1 limit=200000" % CANARY]
    for _ in range(5 if chk.tier == "quick" else 14):
        par = rng.choice([1, 2])
        nsh = rng.range(1, 2)
        keys = rng.range(nsh, nsh + 1)
        progs = ["L%d" % rng.below(keys) for _ in range(2)]
        progs.append(rng.choice(["L%d" % rng.below(keys), "G%d" % rng.below(keys), "S%d:3:0" % rng.below(keys)]))
        if par == 1:
            progs[0] += ".W"
        init = rng.choice([INITS["absent"], INITS["expired"], INITS["rotted"], INITS["loading"]])
        lines.append("c06sx %s ticks=1 limit=400000" % cfg_str(par, rng.choice([1, 2]), nsh, keys, init, progs))
    outs = common.run_model(lines)
    recs = []
    for k, (l, o) in enumerate(zip(lines, outs)):
        recs.append(dict(config=l[6:], result=o[:200]))
        if k == 0:
            if not o.startswith("deadlock=1 "):
                chk.diverge("liveness-steps/canary", l, o, "", "the model does not find the known deadlock of the send-under-lock order (ord=orig)")
        elif not (o.startswith("deadlock=0 ") and " complete=1 " in o):
            chk.diverge("liveness-steps/exploration", l, o, "",
                        "exhaustive exploration of the model (ord=fixed) must find no deadlock and be complete: contradicts the theorem")
    info["explorations"] = recs


def report_fails(chk, fails):
    """Check keeps the first 50 failures: the runs in which nothing can move any more first, the
    shortest schedules first"""
    for _, _, _, c, i, what in sorted(fails):
        chk.monitor_fail("deadlock", c, i, what)


def check_cases(chk, binary, names, cases, info, monitors_only=False):
    try:
        impl = run_impl_chunks(binary, cases)
    except common.ImplCrash as e:
        chk.infra_errors.append("liveness-steps harness crashed or timed out: " + str(e)[-1200:])
        return
    model = common.run_model(cases)
    seen = set()
    ends = {}
    fails = []
    for name, c, m, i in zip(names, cases, model, impl):
        chk.count_case(name, c, nontrivial(c, m))
        if not monitors_only:
            chk.cov["disagreements_checked"] = chk.cov.get("disagreements_checked", 0) + 1
            mt, ghost = split_model(m)
            if "ord=orig" not in c and not (mt.endswith(" end=ok") and "pending=0" in ghost):
                chk.diverge(name, c, m, i, "the model's own run (ord=fixed) does not end quiet with nothing pending: contradicts the theorem")
            note = compare(c, m, i)
            if note is not None:
                chk.diverge(name, c, mt, i, note)
            else:
                chk.cov["traces_validated_against_impl"] = chk.cov.get("traces_validated_against_impl", 0) + 1
        what = monitor(c, i)
        if what is not None:
            fails.append((0 if what.startswith("deadlock:") else 1, i.count(";"), len(fails), c, i, what))
        e = "ok" if i.endswith(" end=ok") else "not-ok"
        ends[e] = ends.get(e, 0) + 1
        if name not in seen:
            seen.add(name)
            chk.sample(dict(stream=name, case=c[:300], model=m[:300], impl=i[:300]), limit=16)
    report_fails(chk, fails)
    info["ends"] = ends
    info["cases"] = info.get("cases", 0) + len(cases)


def usable(case, maxsh):
    m = case_kv(case)
    try:
        return int(m.get("nsh", "1")) <= maxsh
    except ValueError:
        return False


def run(chk, corpus):
    info = dict(status="run")
    chk.cov["liveness_steps"] = info
    if not hooks_present():
        info["status"] = ("SKIPPED (not run, no violation): the tree under test has no cachex verif hooks "
                          "(cachex/verif_on.go absent; apply tools/hooks/cachex-verif-hooks.patch)")
        return
    binary = build(chk)
    if not binary:
        return
    try:
        maxsh = shard_count(binary)
    except common.ImplCrash as e:
        chk.infra_errors.append("liveness-steps harness crashed: " + str(e)[-1200:])
        return
    info["real_shards"] = maxsh
    explorations(chk, info)
    corpus = [l for l in corpus if l.startswith("c06s ")]
    streams = [("liveness-steps/corpus", [l for l in corpus if usable(l, maxsh)])] + gen(chk, chk.tier, maxsh)
    names, cases = [], []
    for name, cs in streams:
        names += [name] * len(cs)
        cases += cs
    check_cases(chk, binary, names, cases, info)


def search_cases(chk):
    """a bigger list of case lines (random stream x4) for the caller's search phase (monitors only)"""
    maxsh = 16
    try:
        binary = common.build_go("./cmd/coop", tags="verif cachexhooks", out_name="coop-c06s")
        maxsh = shard_count(binary)
    except Exception:
        pass
    return gen_random(chk, "quick", maxsh, mult=4)[1]


def search(chk):
    """failing-input search with the monitors only (for Check.finish(search=...))"""
    if not hooks_present():
        return
    binary = build(chk)
    if not binary:
        return
    cases = search_cases(chk)
    try:
        impl = run_impl_chunks(binary, cases)
    except common.ImplCrash:
        return
    fails = []
    for c, i in zip(cases, impl):
        what = monitor(c, i)
        if what is not None:
            fails.append((0 if what.startswith("deadlock:") else 1, i.count(";"), len(fails), c, i, what))
    report_fails(chk, fails)


def replay_cases(chk, cases):
    """re-run the liveness-steps cases of a replay file (comparison and monitors)"""
    if not hooks_present():
        return
    binary = build(chk)
    if not binary:
        return
    info = dict(status="replay")
    chk.cov["liveness_steps"] = info
    check_cases(chk, binary, ["liveness-steps/replay"] * len(cases), cases, info)
