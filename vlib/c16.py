# C16 -- loom.WaitClose closes once. Model: coq/models/WaitClose.v ; theorems: coq/props/C16.v
# Vehicle: mutex-aware cooperative scheduler over the verif yield points of loom/wait_close.go
# (DESIGN.md 4.2) + a small real-time WaitUtil stream (monitor only).
import json
import os
import re

from . import common
from . import pure

PROOFS = ["proofs/WaitCloseProofs.v", "proofs/WaitCloseInv.v", "proofs/WaitCloseHarness.v", "models/WaitClose.v"]

# K0 Close(nil); Kn/Ke/Kp callback returns nil / error / panics; KN/KE/KP the same, blocking
# for a while (one yield in the middle); C = C(); I = IsClosed()
OPS = ["K0", "Kn", "Ke", "Kp", "KN", "KE", "KP", "C", "I"]
CLOSE_OPS = [o for o in OPS if o[0] == "K"]
# W = WaitUtil(1 hour) as a stepped operation: its wait is a step of its own (the goroutine is found parked inside
# the select = model pc WWait; a later step returns true once a close woke it up, is "blocked" otherwise)
OPS_W = OPS + ["W"]


def build_coop(chk):
    try:
        return common.build_go("./cmd/coop", tags="verif")
    except common.BuildError as e:
        chk.infra_errors.append("coop harness does not build against /repo working tree: " + str(e)[-1500:])
        return None


def prog_str(progs):
    return ";".join(".".join(p) for p in progs)


def case_line(progs, sched):
    return "c16 progs=%s sched=%s" % (prog_str(progs), ",".join(map(str, sched)))


def enum_schedules(progs, mode, mx):
    line = "c16enum mode=%s max=%d progs=%s" % (mode, mx, prog_str(progs))
    out = common.run_model([line])[0]
    m = re.match(r"states=(\d+) scheds=(.*)$", out)
    if not m:
        raise RuntimeError("c16enum failed: " + out[:200])
    scheds = [[int(x) for x in s.split(",")] for s in m.group(2).split(";") if s]
    return int(m.group(1)), scheds


def enum_many(prog_list, mode, mx):
    lines = ["c16enum mode=%s max=%d progs=%s" % (mode, mx, prog_str(p)) for p in prog_list]
    outs = common.run_model(lines) if lines else []
    res = []
    for p, out in zip(prog_list, outs):
        m = re.match(r"states=(\d+) scheds=(.*)$", out)
        if not m:
            raise RuntimeError("c16enum failed: " + out[:200])
        res.append((int(m.group(1)), [s for s in m.group(2).split(";") if s]))
    return res


def rand_prog(rng, maxops, close_bias=True, ops=OPS):
    n = rng.range(1, maxops)
    p = []
    for _ in range(n):
        if close_bias and rng.chance(1, 2):
            p.append(rng.choice(CLOSE_OPS))
        else:
            p.append(rng.choice(ops))
    return p


def random_schedule(rng, nthreads, length):
    """bursty random schedule (PCT flavour); blocked / finished threads are stepped too."""
    sched = []
    prio = list(range(nthreads))
    rng.shuffle(prio)
    while len(sched) < length:
        burst = rng.choice([1, 1, 2, 3, 5, 8])
        t = prio[0] if rng.chance(2, 3) else rng.choice(prio)
        sched += [t] * burst
        if rng.chance(1, 3):
            rng.shuffle(prio)
    return sched[:length]


# ------------------------------------------------------------------ trace parsing
def _obs(x):
    parts = x.split("/")
    if len(parts) != 3:
        return (x, "", "")
    return tuple(parts)


def _obs_auto(x):
    """'<obs>+<tid>:<obs>...' -> (obs, [(tid, obs)]): the automatic steps (a thread that was inside Lock() took the
    mutex released in this step) follow the step they are appended to"""
    parts = x.split("+")
    autos = []
    for p in parts[1:]:
        t, _, o = p.partition(":")
        autos.append((int(t) if t.isdigit() else -1, _obs(o)))
    return _obs(parts[0]), autos


def parse_out(line):
    """-> dict(steps=[(ev, marks, bits)], autos=[[(tid, obs)] per step], fin=[(tid,(ev,marks,bits))] (automatic steps
    inlined), waiting=[tid], rel=[(tid, obs)], end=bool|None, bad=str|None)"""
    if not line.startswith("steps="):
        return None
    d = dict(steps=[], autos=[], fin=[], waiting=[], rel=[], end=None, bad=None)
    for key in ("HANG", "LIVELOCK", "DEADLOCK"):
        if line.endswith(" " + key):
            d["bad"] = key
    for tok in line.split(" "):
        if tok.startswith("steps="):
            for x in tok[6:].split(","):
                if x:
                    o, a = _obs_auto(x)
                    d["steps"].append(o)
                    d["autos"].append(a)
        elif tok.startswith("fin=") or tok.startswith("rel="):
            for x in tok[4:].split(","):
                if x:
                    o, a = _obs_auto(x.split(":", 1)[1])
                    d[tok[:3]].append((int(x.split(":", 1)[0]), o))
                    d[tok[:3]] += a
        elif tok.startswith("waiting="):
            d["waiting"] = [int(x) for x in tok[8:].split(",") if x]
        elif tok.startswith("end="):
            d["end"] = tok[4:] == "true"
    return d


def case_fields(case):
    """-> programs, schedule (thread ids; the f of a forced item dropped), raw key/value map"""
    m = dict(t.split("=", 1) for t in case.split()[1:] if "=" in t)
    progs = [[o for o in p.split(".") if o] for p in m.get("progs", "").split(";")]
    sched = [int(x.lstrip("f")) for x in m.get("sched", "").split(",") if x]
    return progs, sched, m


def monitor(case, impl):
    """The property text, evaluated on the implementation's trace alone."""
    if case.startswith("c16w"):
        return monitor_wait(case, impl)
    out = parse_out(impl)
    if out is None:
        return ("crash", "no trace from the implementation: " + impl[:200])
    if out["bad"]:
        return (out["bad"].lower(), "threads did not finish: " + out["bad"])
    progs, sched, _ = case_fields(case)
    seq = []
    for tid, o, autos in zip(sched, out["steps"], out["autos"]):
        seq.append((tid, o))
        seq += autos
    seq += out["fin"]
    n_before_release = len(seq)
    seq += out["rel"]            # after the harness's own final Close(nil) returned
    nxt = [0] * len(progs)       # index of the op a thread is in / will invoke next
    inside = [False] * len(progs)
    insel = [False] * len(progs)  # inside WaitUtil's wait (parked in its select)
    starts = ends = 0
    close_returned = False
    close_invoked = False
    any_close = False
    for idx, (tid, (ev, marks, bits)) in enumerate(seq):
        if idx == n_before_release:
            close_returned = True
        if 0 <= tid < len(progs):
            # "WaitUtil returns true iff the close happens before its timeout": the timeout of these calls is one hour,
            # so a call that is (still) waiting once a Close has returned contradicts it
            if ev == "yW":
                insel[tid] = True
            if close_returned and insel[tid] and ev in ("yW", "blocked"):
                return ("waitutil-waiting-after-close",
                        "step %d: WaitUtil(1h) of thread %d %s although a Close has returned: it waits on something that is not "
                        "the closed channel" % (idx, tid, "begins to wait" if ev == "yW" else "is still waiting"))
            if ev.startswith("r:"):
                insel[tid] = False
        if ev.startswith("panic") or ev.startswith("PANIC"):
            return ("escaped-panic", "step %d: a panic escaped from the call of thread %d: %s" % (idx, tid, ev))
        if ev.startswith("y?"):
            return ("unknown-site", "step %d: unknown yield site %s" % (idx, ev))
        op = None
        if 0 <= tid < len(progs) and ev not in ("done", "blocked"):
            if not inside[tid] and nxt[tid] < len(progs[tid]):
                inside[tid] = True
            if inside[tid]:
                op = progs[tid][nxt[tid]]
                if op[0] == "K":
                    close_invoked = True
        for mk in marks:
            if mk == "s":
                starts += 1
                if starts > 1:
                    return ("two-callbacks", "step %d: a second callback started (thread %d)" % (idx, tid))
                if close_returned:
                    return ("callback-after-close-returned", "step %d: a callback started after a Close had returned" % idx)
            elif mk == "e":
                ends += 1
        if ev.startswith("r:") and op is not None:
            if op[0] == "K":
                any_close = True
                if starts > ends:
                    return ("close-returned-during-callback",
                            "step %d: Close of thread %d returned %s while the callback (started, not ended) was still running" % (idx, tid, ev))
                close_returned = True
            elif op == "I":
                if close_returned and ev != "r:true":
                    return ("isclosed-false-after-close", "step %d: IsClosed() = %s after a Close had returned" % (idx, ev))
            elif op == "C":
                if ev == "r:cnil":
                    return ("c-returned-nil", "step %d: C() returned nil" % idx)
            elif op == "W":
                if ev != "r:true":
                    return ("waitutil-false-without-timeout",
                            "step %d: WaitUtil(1h) of thread %d returned %s: its timeout cannot have expired" % (idx, tid, ev))
                if not close_invoked and idx < n_before_release:
                    return ("waitutil-true-before-close", "step %d: WaitUtil of thread %d returned true before any Close call began" % (idx, tid))
            inside[tid] = False
            nxt[tid] += 1
        if close_returned and "0" in bits:
            return ("returned-chan-not-closed",
                    "step %d: a channel returned by C() is not closed although a Close has returned (closedness %s)" % (idx, bits))
    if any_close and out["end"] is not True:
        return ("not-closed-at-end", "all Close calls returned but IsClosed() is %s" % out["end"])
    return None


WAIT_EXPECT = {"before": True, "after": False, "closed": True, "closedinit": True, "cbslow": True,
               "zero": False, "neg": False, "zeroclosed": True, "reuse": True, "closedtiny": True, "cbwait": True}


def monitor_wait(case, impl):
    m = dict(t.split("=", 1) for t in case.split()[1:])
    mo = re.match(r"res=(\w+) ms=(-?\d+)$", impl)
    if not mo:
        return ("crash", "no result from the implementation: " + impl[:200])
    if mo.group(1) == "HANG":
        return ("waitutil-hang", "WaitUtil did not return")
    res = mo.group(1) == "true"
    ms = int(mo.group(2))
    exp = WAIT_EXPECT[m["mode"]]
    timeout, delta = int(m["timeout"]), int(m["delta"])
    if m["mode"] == "cbwait" and not res:
        return ("waitutil-result", "WaitUtil(0 / -1s / 1ms) called while the closing call's callback was still running (by the callback itself or by a waiter "
                "just released by <-C()) returned false in %d of 200 rounds: the channel was closed already, so the close happened before the timeout" % ms)
    if m["mode"] == "closedtiny" and not res:
        return ("waitutil-result", "WaitUtil with a zero / negative / 1 ns .. 20 us timeout on objects closed BEFORE the call returned false %d times of 40000: "
                "the close happened before the timeout" % ms)
    if m["mode"] == "reuse" and not res:
        return ("waitutil-result", "after a WaitUtil(%dms) whose close and timer fired almost together, WaitUtil(5s) on a FRESH object closed after 10ms "
                "returned false after %dms: something of the earlier call (a fired timer) leaked into it" % (timeout, ms))
    if exp is not None and res != exp:
        return ("waitutil-result", "WaitUtil(%dms) mode=%s returned %s after %dms, expected %s (close %s the timeout by %dms)" % (
            timeout, m["mode"], res, ms, exp, "before" if exp else "after", delta))
    if m["mode"] == "after" and ms < timeout - 1:
        return ("waitutil-early", "WaitUtil(%dms) returned false after only %dms" % (timeout, ms))
    if m["mode"] in ("closed", "closedinit") and ms >= timeout:
        return ("waitutil-late", "WaitUtil(%dms) on a closed object returned only after %dms" % (timeout, ms))
    return None


EVHIST = {}
_cmp_n = [0]


def _hist(impl):
    # distribution of step observations on the implementation side (every 8th case)
    for tok in impl.split(" "):
        if tok.startswith("steps=") or tok.startswith("fin="):
            for x in tok.split("=", 1)[1].split(","):
                if x:
                    ev = x.split("/")[0].split(":", 1)[-1] if tok.startswith("fin=") and x[0].isdigit() else x.split("/")[0]
                    mk = x.split("/")[1] if x.count("/") == 2 else ""
                    key = ev + ("+" + mk if mk else "")
                    EVHIST[key] = EVHIST.get(key, 0) + 1


def compare(case, model, impl):
    _cmp_n[0] += 1
    if _cmp_n[0] % 8 == 0:
        _hist(impl)
    if model == impl:
        return None
    pm, pi = parse_out(model), parse_out(impl)
    if pm is None:
        return "model produced no trace (%s)" % model[:200]
    if pi is None:
        return "implementation produced no trace"
    for k, (a, b) in enumerate(zip(pm["steps"], pi["steps"])):
        if a != b:
            return "step %d differs: model %s, implementation %s" % (k, "/".join(a), "/".join(b))
    if pm["fin"] != pi["fin"]:
        for k, (a, b) in enumerate(zip(pm["fin"], pi["fin"])):
            if a != b:
                return "completion step %d differs: model %s, implementation %s" % (k, a, b)
        return "completion phase differs in length"
    return "final IsClosed / termination differs"


def nontrivial(case, model):
    # at least two threads interleave and some Close is involved
    progs, sched, _ = case_fields(case)
    return len(set(sched)) >= 2 and any(o[0] == "K" for p in progs for o in p)


# ------------------------------------------------------------------ generators
def progs_2x1():
    return [[[a], [b]] for a in OPS for b in OPS]


FIXED_2X2 = [
    [["C", "C"], ["KN", "I"]], [["KP", "I"], ["C", "Kn"]], [["KN", "C"], ["C", "KP"]],
    [["I", "C"], ["KE", "KN"]], [["K0", "C"], ["C", "I"]], [["Kp", "C"], ["KN", "C"]],
    [["C", "KN"], ["C", "KE"]], [["KN", "KN"], ["KP", "I"]], [["I", "I"], ["KP"]],
    # an object already initialised by C(), a Close whose callback is still running, and a second closer
    # (nil callback / non-blocking callback) arriving meanwhile: it must wait for the first one
    [["C", "KN"], ["K0", "I"]], [["C", "KE"], ["K0", "C"]], [["C", "KP"], ["K0", "I"]], [["C", "KN"], ["Kn", "I"]],
]


def gen(chk, tier):
    rng = chk.rng
    quick = tier == "quick"
    streams = []
    nst = 0
    # (a) every interleaving of 2 threads x 1 call, all 81 operation pairs
    ex = []
    for progs, (_, scheds) in zip(progs_2x1(), enum_many(progs_2x1(), "all", 1000000)):
        ex += ["c16 progs=%s sched=%s" % (prog_str(progs), s) for s in scheds]
    streams.append(("exhaustive-2x1", ex))
    # (b) every interleaving of 2 threads x 1-2 calls for a fixed set + a random sample of programs
    pl = list(FIXED_2X2)
    for _ in range(14 if quick else 1200):
        pl.append([rand_prog(rng, 2), rand_prog(rng, 2)])
    ex2 = []
    for progs, (_, scheds) in zip(pl, enum_many(pl, "all", 2500 if quick else 200000)):
        ex2 += ["c16 progs=%s sched=%s" % (prog_str(progs), s) for s in scheds]
    if quick:
        ex2 = ex2[:36000]     # the fixed programs come first; bounds the run time whatever the random programs are
    else:
        ex2 = ex2[:200000]    # same for the thorough tier (about 1000 cases/s end to end: the tier stays near ten minutes)
    streams.append(("exhaustive-2x2", ex2))
    # (c) one schedule per (reachable model state, thread) edge incl. the disabled steps, 3 threads x <= 2 calls
    pl = [[rand_prog(rng, 2), rand_prog(rng, 2), rand_prog(rng, 2)] for _ in range(9 if quick else 300)]
    pl.insert(0, [["KP"], ["C"], ["Kn", "I"]])   # the fixed program first: the thorough tier caps the stream
    ed = []
    for progs, (n, scheds) in zip(pl, enum_many(pl, "edges", 4000 if quick else 60000)):
        nst += n
        ed += ["c16 progs=%s sched=%s" % (prog_str(progs), s) for s in scheds]
    streams.append(("state-edge-cover-3", ed if quick else ed[:30000]))   # thorough: capped (3-thread / forced-waiter cases run at 60-250 cases/s)
    # (d) random bursty schedules, 4-5 threads x 1-3 calls
    rd = []
    for _ in range(1500 if quick else 100000):
        nt = rng.choice([4, 5])
        progs = [rand_prog(rng, 3) for _ in range(nt)]
        total = sum(len(p) for p in progs)
        rd.append(case_line(progs, random_schedule(rng, nt, rng.range(4, 7 * total))))
    streams.append(("random-bursty-4-5", rd if quick else rd[:30000]))   # thorough: capped (3-thread / forced-waiter cases run at 60-250 cases/s)
    chk.cov["states"] = nst
    return streams + gen_wait_forced(chk, tier)


# programs with WaitUtil on a zero-value object and on one already initialised by C(), against C / Close / WaitUtil
FIXED_WAIT_2X2 = [
    [["W"], ["C", "K0"]], [["W"], ["C", "KN"]], [["W"], ["K0", "C"]], [["C", "W"], ["K0"]], [["C", "W"], ["KN"]],
    [["W", "I"], ["Kp"]], [["W", "W"], ["C", "Ke"]], [["W", "C"], ["KE", "W"]], [["K0", "W"], ["W"]],
    [["C", "W"], ["C", "KP"]], [["I", "W"], ["C", "K0"]], [["W", "K0"], ["W", "C"]], [["W"], ["W", "Kn"]],
]
FIXED_WAIT_3 = [
    [["W"], ["C"], ["K0"]], [["W"], ["C"], ["KN"]], [["W"], ["W"], ["Kn"]], [["C", "W"], ["W"], ["KP", "I"]],
    [["W", "I"], ["C", "W"], ["Ke"]], [["W"], ["K0"], ["K0"]],
]
# a lock waiter released while the mutex is held: by the lazy initialisation of C()/WaitUtil, by a Close before /
# inside / after its callback; followed by IsClosed / C() / WaitUtil so that an early return is visible
FIXED_FORCED = [
    [["C", "KN"], ["K0", "I"]], [["C", "KE"], ["Kn", "C"]], [["C"], ["K0", "I"]], [["W"], ["K0", "I"]], [["C"], ["Kn", "W"]],
    [["KN", "I"], ["K0", "I"]], [["KP"], ["Kn", "I"]], [["K0"], ["K0", "I"]], [["Kn"], ["C", "I"]], [["KN"], ["W", "I"]],
    [["C", "K0"], ["C", "I"]], [["W", "K0"], ["W", "I"]], [["C"], ["K0"], ["I", "C"]], [["KN"], ["K0"], ["Kn", "I"]],
    [["C"], ["W"], ["KN", "I"]], [["KE"], ["C"], ["W"]],
]


def has_wait_and_close(progs):
    ops = [o for p in progs for o in p]
    return "W" in ops and any(o[0] == "K" for o in ops)


def gen_wait_forced(chk, tier):
    """WaitUtil as a stepped operation, and lock waiters that are really inside Lock() while the mutex is held."""
    rng = chk.rng.fork()
    quick = tier == "quick"
    streams = []
    # (e) every interleaving of 2 threads x 1 call where a WaitUtil is involved (19 pairs)
    pl = [[[a], [b]] for a in OPS_W for b in OPS_W if "W" in (a, b)]
    ex = []
    for progs, (_, scheds) in zip(pl, enum_many(pl, "all", 1000000)):
        ex += ["c16 progs=%s sched=%s" % (prog_str(progs), s) for s in scheds]
    streams.append(("exhaustive-2x1-wait", ex))
    # (f) every interleaving (capped) of 2 threads x 1-2 calls: zero-value and C()-initialised object, WaitUtil against C/Close/WaitUtil
    pl = list(FIXED_WAIT_2X2)
    while len(pl) < len(FIXED_WAIT_2X2) + (12 if quick else 600):
        progs = [rand_prog(rng, 2, ops=OPS_W), rand_prog(rng, 2, ops=OPS_W)]
        if has_wait_and_close(progs):
            pl.append(progs)
    ex2 = []
    for progs, (_, scheds) in zip(pl, enum_many(pl, "all", 450 if quick else 200000)):
        ex2 += ["c16 progs=%s sched=%s" % (prog_str(progs), s) for s in scheds]
    ex2 = ex2[:9000] if quick else ex2[:60000]
    streams.append(("exhaustive-2x2-wait", ex2))
    # (g) one schedule per (reachable model state, thread) edge, 3 threads
    pl = list(FIXED_WAIT_3)
    while len(pl) < len(FIXED_WAIT_3) + (8 if quick else 300):
        progs = [rand_prog(rng, 2, ops=OPS_W) for _ in range(3)]
        if has_wait_and_close(progs):
            pl.append(progs)
    ed = []
    for progs, (n, scheds) in zip(pl, enum_many(pl, "edges", 450 if quick else 60000)):
        ed += ["c16 progs=%s sched=%s" % (prog_str(progs), s) for s in scheds]
    if quick:
        ed = ed[:7000]
    streams.append(("state-edge-cover-3-wait", ed if quick else ed[:30000]))   # thorough: capped (3-thread / forced-waiter cases run at 60-250 cases/s)
    # (h) for every reachable model state and every thread parked before the held mutex there: the path to the state,
    #     then that thread FORCED (its goroutine goes into the real Lock()), then (1) the round-robin completion,
    #     (2) random continuations
    pl = [[[a], [b]] for a in OPS_W for b in OPS_W] + list(FIXED_FORCED)
    for _ in range(10 if quick else 400):
        pl.append([rand_prog(rng, 2, ops=OPS_W) for _ in range(rng.choice([2, 3]))])
    fo = []
    for progs, (n, scheds) in zip(pl, enum_many(pl, "forced", 400 if quick else 20000)):
        total = sum(len(p) for p in progs)
        for s in scheds:
            fo.append("c16 progs=%s sched=%s" % (prog_str(progs), s))
            for _ in range(1 if quick else 3):
                tail = random_schedule(rng, len(progs), rng.range(2, 6 * total))
                fo.append("c16 progs=%s sched=%s,%s" % (prog_str(progs), s, ",".join(map(str, tail))))
    streams.append(("forced-lock-waiter", fo if quick else fo[:8000]))   # thorough: capped (3-thread / forced-waiter cases run at 60-250 cases/s)
    # (i) random bursty schedules with WaitUtil in the alphabet and forced items sprinkled in
    rd = []
    for _ in range(500 if quick else 50000):
        nt = rng.choice([3, 4, 5])
        progs = [rand_prog(rng, 3, ops=OPS_W) for _ in range(nt)]
        total = sum(len(p) for p in progs)
        sched = [("f%d" % t) if rng.chance(1, 4) else str(t) for t in random_schedule(rng, nt, rng.range(4, 7 * total))]
        rd.append("c16 progs=%s sched=%s" % (prog_str(progs), ",".join(sched)))
    streams.append(("random-bursty-wait-forced", rd if quick else rd[:8000]))   # thorough: capped (3-thread / forced-waiter cases run at 60-250 cases/s)
    return streams


def gen_wait(tier):
    cases = []
    for timeout, delta in ([(90, 40)] if tier == "quick" else [(90, 40), (150, 50), (60, 30)]):
        for mode in ("before", "after", "closed", "closedinit", "cbslow", "zero", "neg", "zeroclosed"):
            cases.append("c16w mode=%s timeout=%d delta=%d" % (mode, timeout, delta))
    cases.append("c16w mode=reuse timeout=20 delta=1")
    cases.append("c16w mode=closedtiny timeout=0 delta=0")
    cases.append("c16w mode=cbwait timeout=0 delta=0")
    return cases


def run_wait_stream(chk, binary, tier):
    """Real-time WaitUtil scenarios: monitor only, generous margins, one retry before reporting."""
    cases = gen_wait(tier)
    try:
        impl = common.run_impl(binary, cases, timeout=300)
    except common.ImplCrash as e:
        chk.infra_errors.append("WaitUtil stream crashed: " + str(e)[-800:])
        return
    hist = {}
    for c, i in zip(cases, impl):
        mf = monitor_wait(c, i)
        if mf is not None and mf[0] != "crash":
            i2 = common.run_impl(binary, [c], timeout=120)[0]   # scheduling noise: retry once
            mf = monitor_wait(c, i2)
            i = i2
        chk.count_case("waitutil-realtime", c, True)
        mode = c.split()[1]
        hist[mode + ":" + i.split()[0]] = hist.get(mode + ":" + i.split()[0], 0) + 1
        if mf is not None:
            chk.monitor_fail(mf[0], c, i, mf[1])
    chk.cov["waitutil_results"] = hist
    chk.sample(dict(stream="waitutil-realtime", case=cases[0], impl=impl[0]), limit=12)


# ------------------------------------------------------------------ callbacks that leave Close abnormally
def run_abnormal_stream(chk, binary):
    """One Close whose callback ends by runtime.Goexit() (t.Fatal inside a callback), panic(nil) with
    GODEBUG=panicnil=1 (recover() returns nil), an ordinary panic or an error; then the property's own words:
    the object is closed, every channel C() returned is closed, WaitUtil is true, a second Close runs no callback.
    Monitor only, nothing depends on timing. (Added after the seeded change C16-store-after-callback-goexit.)"""
    cases = ["c16x mode=%s init=%d" % (mode, ini) for mode in ("goexit", "panicnil", "panic", "error") for ini in (0, 1)]
    try:
        impl = common.run_impl(binary, cases, timeout=300)
    except common.ImplCrash as e:
        chk.infra_errors.append("abnormal-callback stream crashed: " + str(e)[-800:])
        return
    for c, i in zip(cases, impl):
        chk.count_case("abnormal-callback-exit", c, True)
        m = dict(t.split("=", 1) for t in i.split() if "=" in t)
        if not i.startswith("closed="):
            chk.monitor_fail("abnormal-callback-hang", c, i, "a call did not return after a callback that left Close abnormally: " + i[:200])
        elif m["closed"] != "true" or m["after"] != "true" or m["before"] not in ("-", "true") or m["wait"] != "true":
            chk.monitor_fail("abnormal-callback-not-closed", c, i,
                             "after the only Close call (callback ended by %s) was over: IsClosed()=%s, channel returned by C() before closed=%s, "
                             "channel returned afterwards closed=%s, WaitUtil=%s: the object must be closed" % (
                                 c.split()[1][5:], m["closed"], m["before"], m["after"], m["wait"]))
        elif m["cb1"] != "1" or m["cb2"] != "0":
            chk.monitor_fail("abnormal-callback-second-callback", c, i,
                             "callbacks executed: first Close %s, second Close %s (at most one callback, that of the call that performs the close)" % (m["cb1"], m["cb2"]))


# ------------------------------------------------------------------ WaitUtil on the virtual clock
def gen_wait_ft(rng, tier):
    """faketime scenarios: the close happens delta ns before / after / exactly at the timeout."""
    cases = []
    timeouts = [1000, 1000000, 77, 3000000000] if tier == "quick" else [1000, 1000000, 77, 3000000000, 13, 999999937, 60000000000]
    for timeout in timeouts:
        for delta in (1, 2, max(1, timeout // 2), timeout - 1):
            for mode in ("before", "after", "cbslow", "initrace"):
                if mode in ("before", "cbslow", "initrace") and delta > timeout:
                    continue
                cases.append("c16f mode=%s timeout=%d delta=%d" % (mode, timeout, delta))
        for mode in ("tie", "closed", "closedinit"):
            cases.append("c16f mode=%s timeout=%d delta=0" % (mode, timeout))
    for _ in range(40 if tier == "quick" else 2000):
        timeout = rng.range(2, 10 ** rng.range(1, 10))
        delta = rng.range(1, timeout - 1)
        cases.append("c16f mode=%s timeout=%d delta=%d" % (rng.choice(["before", "after", "cbslow", "initrace"]), timeout, delta))
    return sorted(set(cases))


def expect_wait_ft(case):
    """what wc_waitutil_iff says: true iff the close event precedes the timer event; the call
    returns at the earlier of the two instants (None = exact tie: either)."""
    m = dict(t.split("=", 1) for t in case.split()[1:])
    timeout, delta, mode = int(m["timeout"]), int(m["delta"]), m["mode"]
    if mode in ("before", "cbslow", "initrace"):
        return (True, timeout - delta)
    if mode == "after":
        return (False, timeout)
    if mode in ("closed", "closedinit"):
        return (True, 0)
    return None


def run_wait_ft_stream(chk, tier):
    try:
        binary = common.build_go("./cmd/ftwc", tags="verif faketime")
    except common.BuildError as e:
        chk.infra_errors.append("faketime WaitUtil harness does not build against /repo: " + str(e)[-800:])
        return
    cases = gen_wait_ft(chk.rng.fork(), tier)
    try:
        impl = common.run_impl(binary, cases, timeout=600, env=dict(os.environ, GOMAXPROCS="2"))
    except common.ImplCrash as e:
        chk.infra_errors.append("faketime WaitUtil stream crashed: " + str(e)[-800:])
        return
    for c, i in zip(cases, impl):
        chk.count_case("waitutil-faketime", c, True)
        mo = re.match(r"res=(\w+) ns=(-?\d+) closed=(\w+)$", i)
        if not mo:
            chk.monitor_fail("crash", c, i, "no result from the implementation")
            continue
        if mo.group(1) == "HANG":
            chk.monitor_fail("waitutil-hang", c, i, "WaitUtil did not return on the virtual clock")
            continue
        res, ns = mo.group(1) == "true", int(mo.group(2))
        exp = expect_wait_ft(c)
        chk.cov["disagreements_checked"] += 1
        if exp is None:
            m = dict(t.split("=", 1) for t in c.split()[1:])
            if ns != int(m["timeout"]):
                chk.monitor_fail("waitutil-time", c, i, "tie: WaitUtil must return at the timeout instant whichever branch wins")
            continue
        if res != exp[0]:
            chk.monitor_fail("waitutil-result", c, i, "WaitUtil returned %s, but the close happened %s its timeout" % (res, "before" if exp[0] else "after"))
        elif ns != exp[1]:
            chk.monitor_fail("waitutil-time", c, i, "WaitUtil returned after %d ns, expected %d ns (the earlier of close and timeout)" % (ns, exp[1]))
        elif mo.group(3) != "true":
            chk.monitor_fail("isclosed-after-close", c, i, "IsClosed false after Close returned")
        else:
            chk.cov["traces_validated_against_impl"] += 1
    chk.sample(dict(stream="waitutil-faketime", case=cases[0], impl=impl[0]), limit=12)


# ------------------------------------------------------------------ vm_compute cross-check
OPCOQ = {"K0": "OpClose CbNone", "Kn": "OpClose (Cb ONil false)", "Ke": "OpClose (Cb OErr false)",
         "Kp": "OpClose (Cb OPanic false)", "KN": "OpClose (Cb ONil true)", "KE": "OpClose (Cb OErr true)",
         "KP": "OpClose (Cb OPanic true)", "C": "OpC", "I": "OpIsClosed", "W": "OpWait"}


def ev_code(ev):
    """the event of a step as a number (same coding as ev_code in the generated cases.v)"""
    table = {"done": 0, "blocked": 1, "yL": 11, "yB": 12, "yA": 13, "yU": 14, "yM": 15, "yW": 16,
             "r:nil": 20, "r:err": 21, "r:true": 22, "r:false": 23, "r:cnil": 29}
    if ev in table:
        return table[ev]
    if ev.startswith("r:c"):
        return 30      # channel class is compared through the closedness column
    return -1


def coq_crosscheck(chk, cases, model_out):
    items = []
    for c, m in zip(cases, model_out):
        progs, sched, _ = case_fields(c)
        pm = parse_out(m)
        pr = "[" + ";".join("[" + ";".join(OPCOQ[o] for o in p) + "]" for p in progs) + "]"
        exp = []
        for ev, marks, bits in pm["steps"]:
            exp.append("(%d, %d, %d)" % (ev_code(ev), marks.count("s") * 10 + marks.count("e"), len(bits) * 100 + bits.count("1")))
        items.append("(wc_obs (wc_init %s) (map IRun [%s]%%nat), [%s]%%Z)" % (
            pr, ";".join(map(str, sched)), ";".join(exp)))
    body = """From Got Require Import Base WaitClose.
Local Open Scope Z_scope.
Definition ret_code (acts : list wc_act) : option Z :=
  fold_right (fun a r => match a with
    | ARetClose RNil => Some 20 | ARetClose RErr => Some 21
    | ARetIsClosed true => Some 22 | ARetIsClosed false => Some 23
    | ARetWait true => Some 22 | ARetWait false => Some 23
    | ARetC WNil => Some 29 | ARetC _ => Some 30 | _ => r end) None acts.
Definition ev_code (s1 : wc_state) (i : nat) (acts : list wc_act) : Z :=
  match acts with
  | [] => 0
  | [ABlocked] => 1
  | _ => match ret_code acts with Some c => c | None => 10 + Z.of_nat (wc_site s1 i) end
  end.
Definition mark_code (acts : list wc_act) : Z :=
  fold_right (fun a r => match a with ACbStart => 10 + r | ACbEnd _ => 1 + r | _ => r end) 0 acts.
Definition chan_eqb (a b : wc_chan) : bool :=
  match a, b with WNil, WNil => true | WGlobal, WGlobal => true | WMade x, WMade y => Nat.eqb x y | _, _ => false end.
Definition add_chans (chans : list wc_chan) (acts : list wc_act) : list wc_chan :=
  fold_left (fun l a => match a with
    | ARetC WNil => l
    | ARetC c => if existsb (chan_eqb c) l then l else l ++ [c]
    | _ => l end) acts chans.
Fixpoint wc_obs_go (s : wc_state) (chans : list wc_chan) (sched : list wc_item) : list (Z * Z * Z) :=
  match sched with
  | [] => []
  | it :: r =>
      let '(s1, acts) := wc_hstep s it in
      let chans1 := add_chans chans acts in
      (ev_code s1 (wc_item_tid it) acts, mark_code acts,
       100 * Z.of_nat (length chans1) + Z.of_nat (length (filter (wc_closedb (wc_sh s1)) chans1)))
      :: wc_obs_go s1 chans1 r
  end.
Definition wc_obs (s : wc_state) (sched : list wc_item) := wc_obs_go s [] sched.
Definition t_eqb (a b : Z * Z * Z) : bool :=
  match a, b with (a1, a2, a3), (b1, b2, b3) => Z.eqb a1 b1 && Z.eqb a2 b2 && Z.eqb a3 b3 end.
Fixpoint l_eqb (a b : list (Z * Z * Z)) : bool :=
  match a, b with [], [] => true | x :: a', y :: b' => t_eqb x y && l_eqb a' b' | _, _ => false end.
Definition ok (c : list (Z * Z * Z) * list (Z * Z * Z)) : bool := l_eqb (fst c) (snd c).
Definition cases := [%s].
Definition bad := Eval vm_compute in length (filter (fun c => negb (ok c)) cases).
Print bad.
""" % ";\n".join(items)
    out = common.run_coq_eval(body)
    if "bad = 0%nat" not in out.replace("\n", " "):
        chk.diverge("vm_compute-vs-extraction", "sample of %d cases" % len(items), out[-300:], "",
                    "extracted OCaml model disagrees with vm_compute")
    return len(items)


# ------------------------------------------------------------------ canaries
CANARIES = [
    # (fault switch of the model, witness case of the *_refuted theorem)
    ("storeearly", "c16 progs=KN;K0 sched=0,0,0,0,1,1"),
    ("norecheck", "c16 progs=Kn;Ke sched=0,0,1,1,0,0,0,1,1,1"),
]


def run_canaries(chk, binary):
    """The faulty model variants must disagree with the implementation on their witnesses;
    otherwise the observation is too weak to tell right from wrong."""
    cases = [c for _, c in CANARIES]
    impl = common.run_impl(binary, cases)
    faulty = common.run_model([c + " fault=" + f for f, c in CANARIES])
    good = common.run_model(cases)
    n = 0
    for (f, c), i, fm, gm in zip(CANARIES, impl, faulty, good):
        if fm == i and gm == i:
            chk.diverge("canary", c, fm, i, "seeded fault %s of the model is not distinguished by the observation" % f)
        else:
            n += 1
    chk.cov["canaries_distinguished"] = n


TRUSTED = [
    "cooperative scheduler harness/internal/coop + harness/cmd/coop/c16.go + verif-tag yield hooks in loom/wait_close.go "
    "(LoadState, BeforeLock, AfterLock, AfterUnlock): one step = the code between two yields; mutex owner tracked through the "
    "AfterLock/AfterUnlock events, a thread parked at BeforeLock while the mutex is held is not resumed",
    "modelled, not verified: sync.Mutex as an owner field (Lock blocks while held, no fairness assumed); Go atomics as sequentially "
    "consistent steps; channel identity as 'made by the n-th lazy init' / 'the global closed channel'; defer/recover order "
    "(LIFO, runs on panic) as written in the model; WaitUtil's select as one atomic choice at the timer event "
    "(checked only by the real-time monitor stream, not step by step)",
]


def run(chk):
    chk.trusted = common.BASE_TRUSTED + TRUSTED
    chk.assumptions = ["sync/atomic operations are sequentially consistent (Go memory model)",
                       "preemption matters only at the yield sites: between two sites a goroutine touches shared memory only under the "
                       "mutex, or reads closeChan after having seen state <> New (field frozen: theorem wc_mutex_discipline)",
                       "callbacks do not call back into the same WaitClose and terminate",
                       "WaitUtil: a timeout event and the close are ordered by the history; real-time stream uses >= 30ms margins"]
    chk.cov["rule"] = ("case = (one program of Close(nil|cb nil/err/panic, optionally yielding)/C/IsClosed per thread on a zero-value WaitClose, schedule "
                       "of thread ids); the real code runs it under the mutex-aware cooperative scheduler, the model runs wc_step; compared per step: "
                       "event (yield site / return value / blocked / done), callback start/end markers, closedness of every channel returned by C() so "
                       "far (identity classes by first appearance), then the round-robin completion and the final IsClosed. Streams: every interleaving "
                       "of all 81 2x1 programs; every interleaving (capped per program) of fixed + random 2 threads x 1-2 calls; one schedule per "
                       "(reachable model state, thread) edge incl. disabled steps for 3 threads x <=2 calls; random bursty schedules for 4-5 threads x "
                       "<=3 calls; WaitUtil in real time (monitor only). non-trivial = at least two threads interleave and a Close is involved; "
                       "distinct = distinct case line")
    chk.run_proof_gate(PROOFS)
    binary = build_coop(chk)
    if binary:
        streams = [("corpus", [c for c in pure.corpus_cases("C16") if c.startswith("c16 ")])] + gen(chk, chk.tier)
        pure.run_streams(chk, binary, streams, compare, monitor, nontrivial)
        try:
            run_canaries(chk, binary)
        except Exception as ex:
            chk.infra_errors.append("canary run failed: %r" % (ex,))
        try:
            sample = streams[1][1][::max(1, len(streams[1][1]) // 50)][:50] + streams[2][1][::max(1, len(streams[2][1]) // 50)][:50] \
                + streams[3][1][:30] + streams[4][1][:30] + streams[5][1][::max(1, len(streams[5][1]) // 30)][:30] \
                + streams[6][1][::max(1, len(streams[6][1]) // 30)][:30]
            mo = common.run_model(sample)
            chk.cov["vm_compute_crosschecked"] = coq_crosscheck(chk, sample, mo)
        except Exception as ex:
            chk.infra_errors.append("vm_compute cross-check failed: %r" % (ex,))
        run_wait_stream(chk, binary, chk.tier)
        run_abnormal_stream(chk, binary)
        run_wait_ft_stream(chk, chk.tier)
        chk.cov["step_observation_histogram_sampled"] = dict(sorted(EVHIST.items()))
    chk.finish(search=search)


def search(chk):
    binary = build_coop(chk)
    if not binary:
        return
    chk.rng = chk.rng.fork()
    streams = gen(chk, "quick")
    cases = pure.corpus_cases("C16") + [c for _, cs in streams for c in cs] + gen_wait("quick")
    cases = [c for c in cases if c.startswith("c16")]
    try:
        impl = common.run_impl(binary, cases)
    except common.ImplCrash:
        return
    for c, i in zip(cases, impl):
        mf = monitor(c, i)
        if mf:
            chk.monitor_fail(mf[0], c, i, mf[1])


def replay(chk, path):
    rep = json.load(open(path))
    binary = build_coop(chk)
    cases = [x["case"] for x in rep.get("failing_inputs", []) + rep.get("divergences", [])
             if isinstance(x.get("case"), str) and x["case"].startswith("c16")]
    impl = common.run_impl(binary, cases)
    model = common.run_model([c if c.startswith("c16 ") else "skip" for c in cases])
    bad = 0
    for c, m, i in zip(cases, model, impl):
        mf = monitor(c, i)
        cmpr = compare(c, m, i) if c.startswith("c16 ") else None
        print("case=%s\n  model=%s\n  impl=%s\n  monitor=%s compare=%s" % (c, m, i, mf, cmpr))
        if mf or cmpr:
            bad += 1
    print("replayed %d case(s), %d still failing" % (len(cases), bad))
    raise SystemExit(1 if bad else 0)
