# cache_common.py -- shared by the cachex checks C04 (single flight / agreement), C05
# (staleness windows) and C06 (liveness). Vehicle: faketime trace validation (DESIGN.md 4.3,
# tools/AGENT_GUIDE.md last section): harness/cmd/ftcache executes a timed script against the
# real cachex and logs every call/return/loader start/end with its virtual stamp; the log is
# turned into the event history of coq/models/Cache.v, the extracted model replays it and
# must produce the same observables. Monitors restate the properties on the raw log.
import itertools
import os

from . import common

PROOFS = ["proofs/CacheProofs.v", "models/Cache.v", "proofs/CacheOptionsProofs.v", "models/CacheOptions.v"]
BIG_JCS = 128

# concrete Go keys: (type, value). Different types with equal numbers are different map keys
# in the same shard.
KEY_POOL = [
    ("int", "5"), ("int64", "5"), ("int8", "-3"), ("int16", "-32768"), ("int32", "2147483647"),
    ("int64", "-9223372036854775808"), ("uint8", "255"), ("uint16", "65535"), ("uint32", "4294967295"),
    ("uint64", "18446744073709551615"), ("string", "abc"), ("string", "k-21"), ("int", "21"),
    ("int", "-1"), ("uint8", "5"), ("string", "5"), ("int32", "-2147483648"), ("uint64", "9223372036854775808"),
    ("int", "37"), ("string", "zz_top"), ("int8", "127"), ("int16", "16"), ("int", "0"), ("string", "x"),
]


def build_ft(chk, faketime=True):
    try:
        return common.build_go("./cmd/ftcache", tags="verif faketime" if faketime else "verif",
                               out_name="ftcache" if faketime else "ftcache-rt")
    except common.BuildError as e:
        chk.infra_errors.append("ftcache harness does not build against the working tree (API changed?): " + str(e)[-1500:])
        return None


FT_ENV = dict(os.environ, GOMAXPROCS="2")


def run_ft(binary, lines, chunk=120, env=None, timeout=600):
    """One process per <chunk> scripts (leaked tickers of earlier scenarios cost clock jumps)."""
    out = []
    group = []
    last_scale = [None]

    def flush():
        if group:
            out.extend(common.run_impl(binary, list(group), env=env or FT_ENV, timeout=timeout))
            del group[:]

    for l in lines:
        # a script whose horizon is a large part of the clock's range (expiries >= 2^61 ns) gets a process of its own:
        # the virtual clock only moves forward, a second such script would leave the range of time.Time
        if _huge(l):
            flush()
            out.extend(common.run_impl(binary, [l], env=env or FT_ENV, timeout=120))
            continue
        # scripts on the scale of the default expiries (1 s) and scripts on the ns/us scale never share a process: a
        # sweep ticker configured for one scale that (wrongly) survives into the other would fire ~10^9 times
        sc = _scale(l)
        if group and sc != last_scale[0]:
            flush()
        last_scale[0] = sc
        group.append(l)
        if len(group) >= chunk:
            flush()
    flush()
    return out


def _scale(line):
    for tok in line.split():
        if tok.startswith("ne=") and int(tok[3:]) >= 1000000:
            return "large"
    return "small"


def _huge(line):
    for tok in line.split()[:12]:
        if tok.startswith(("ne=", "end=")) and int(tok.split("=", 1)[1]) >= 2 ** 61:
            return True
    return False


# ------------------------------------------------------------------ scripts
class Script:
    def __init__(self, ne, ee, par, jcs, keys, ld, acts=None, trials=1, tag="ftc"):
        self.ne, self.ee, self.par, self.jcs = ne, ee, par, jcs
        self.keys = list(keys)          # [(type, value)]
        self.ld = [list(l) for l in ld]  # per key [(dur, hasval, err)]
        self.acts = list(acts or [])    # (t, kind, k_or_action, v, e)
        self.trials = trials
        self.end = None
        self.wd = None
        self.meta = {}
        # option list passed to NewCache (tokens E<n>:<e>, P<n>, J<n>); None = the canonical minimal list: every
        # option whose value is the default of cachex/option.go is omitted. (ne, ee, par, jcs) is what the cache
        # SHOULD have: check_batch recomputes it from the option list with the extracted copt_create.
        self.opts = None
        self.legacy = False   # a corpus line without opts= : the harness passes all three options

    def copy(self):
        s = Script(self.ne, self.ee, self.par, self.jcs, self.keys, self.ld, self.acts, self.trials)
        s.meta = dict(self.meta)
        s.opts, s.legacy = self.opts, self.legacy
        return s

    def opt_tokens(self):
        if self.opts is not None:
            return list(self.opts)
        return minimal_opts(self.ne, self.ee, self.par, self.jcs)

    def used_instants(self):
        return set(a[0] for a in self.acts)

    def add(self, t, kind, k, v=0, e=0):
        self.acts.append((t, kind, k, v, e))
        return len(self.acts) - 1

    def finalize(self):
        nl = sum(1 for a in self.acts if a[1] == "L")
        maxdur = max(d for l in self.ld for (d, _, _) in l)
        last = max([a[0] for a in self.acts] + [0])
        self.end = self.meta.get("end") or last + (nl + 1) * maxdur + 2 * self.ne + 16
        self.wd = self.meta.get("wd") or self.end + 64 * self.ne + 1000
        return self

    def line(self):
        self.finalize()
        ld = "|".join(",".join("%d.%d.%d" % x for x in l) for l in self.ld)
        acts = ";".join(("%d/%s/%d/%d/%d" % a) if a[1] == "S" else ("%d/%s/%d" % a[:3]) for a in self.acts)
        opts = "" if self.legacy else " opts=%s" % (",".join(self.opt_tokens()) or "-")
        return "ftc ne=%d ee=%d par=%d jcs=%d%s trials=%d wd=%d end=%d keys=%s ld=%s acts=%s" % (
            self.ne, self.ee, self.par, self.jcs, opts, self.trials, self.wd, self.end,
            ",".join("%s:%s" % k for k in self.keys), ld, acts)


DEFAULTS = dict(ne=1000000000, ee=100000000, par=1, jcs=128)   # cachex/option.go createArguments (only used to OMIT options;
#                                                                the expected configuration comes from the model, expected_configs)


def minimal_opts(ne, ee, par, jcs):
    o = []
    if (ne, ee) != (DEFAULTS["ne"], DEFAULTS["ee"]):
        o.append("E%d:%d" % (ne, ee))
    if par != DEFAULTS["par"]:
        o.append("P%d" % par)
    if jcs != DEFAULTS["jcs"]:
        o.append("J%d" % jcs)
    return o


def random_opts(rng, ne, ee, par, jcs):
    """An option list that should produce (ne, ee, par, jcs): defaults omitted (sometimes spelled out), random order,
    sometimes an earlier option of the same kind that a later one overrides, WithParallel(n <= 0) is ignored."""
    groups = []
    e = []
    if (ne, ee) != (DEFAULTS["ne"], DEFAULTS["ee"]) or rng.chance(1, 8):
        if rng.chance(1, 5):
            e.append("E%d:%d" % rng.choice([(16, 16), (3200, 160), (2 * ne, ee), (DEFAULTS["ne"], DEFAULTS["ee"])]))
        e.append("E%d:%d" % (ne, ee))
    groups.append(e)
    pl = []
    if par != DEFAULTS["par"] or rng.chance(1, 8):
        if rng.chance(1, 5):
            pl.append("P%d" % rng.choice([2, 3, 8]))
        pl.append("P%d" % par)
        if rng.chance(1, 5):
            pl.append("P%d" % rng.choice([0, -1]))
    elif rng.chance(1, 6):
        pl.append("P%d" % rng.choice([0, -2]))
    groups.append(pl)
    j = []
    if jcs != DEFAULTS["jcs"] or rng.chance(1, 8):
        if rng.chance(1, 5):
            j.append("J%d" % rng.choice([1, 7, 64]))
        j.append("J%d" % jcs)
    groups.append(j)
    # interleave the groups keeping the order inside each group
    out = []
    groups = [g for g in groups if g]
    while groups:
        g = rng.choice(groups)
        out.append(g.pop(0))
        groups = [x for x in groups if x]
    return out


class Multi:
    """Several scripts = several caches in ONE process: created in this order, run concurrently on one virtual time line."""

    def __init__(self, subs):
        self.subs = list(subs)

    def line(self):
        return "ftm " + " || ".join(s.line() for s in self.subs)


def subs_of(item):
    return item.subs if isinstance(item, Multi) else [item]


def split_outputs(item, out):
    """[(script, output of that script)] of one harness output line"""
    if isinstance(item, Multi):
        parts = out.split(" || ")
        if len(parts) != len(item.subs):
            return [(sc, out) for sc in item.subs]
        return list(zip(item.subs, parts))
    return [(item, out)]


def expected_configs(chk, items):
    """(ne, ee, par, jcs) of every script := models/CacheOptions.v copt_create of ITS option list (extracted)."""
    scs = [sc for it in items for sc in subs_of(it) if not sc.legacy]
    if not scs:
        return
    outs = common.run_model(["copt %s" % (",".join(sc.opt_tokens()) or "-") for sc in scs])
    for sc, o in zip(scs, outs):
        p = o.split()
        if len(p) != 4:
            chk.infra_errors.append("option list %s: the model gives %s (generator produced a list NewCache rejects?)" % (sc.opt_tokens(), o))
            continue
        par, ne, ee, jcs = (int(x) for x in p)
        if (ne, ee, par, jcs) != (sc.ne, sc.ee, sc.par, sc.jcs):
            chk.infra_errors.append("option list %s: generator meant %s, copt_create gives %s" % (sc.opt_tokens(), (sc.ne, sc.ee, sc.par, sc.jcs), (ne, ee, par, jcs)))
        sc.ne, sc.ee, sc.par, sc.jcs = ne, ee, par, jcs


def parse_line(line):
    t = line.split()
    if t[0] == "ftm":
        parts, cur = [], []
        for tok in t[1:]:
            if tok == "||":
                parts.append(cur)
                cur = []
            else:
                cur.append(tok)
        parts.append(cur)
        return Multi([parse_line(" ".join(p)) for p in parts])
    f = dict(x.split("=", 1) for x in t[1:])
    keys = [tuple(k.split(":", 1)) for k in f["keys"].split(",")]
    ld = [[tuple(int(y) for y in x.split(".")) for x in ks.split(",")] for ks in f["ld"].split("|")]
    acts = []
    if f.get("acts"):
        for a in f["acts"].split(";"):
            p = a.split("/")
            if p[1] == "S":
                acts.append((int(p[0]), p[1], int(p[2]), int(p[3]), int(p[4])))
            else:
                acts.append((int(p[0]), p[1], int(p[2]), 0, 0))
    sc = Script(int(f["ne"]), int(f["ee"]), int(f["par"]), int(f["jcs"]), keys, ld, acts, int(f.get("trials", "1")))
    sc.end, sc.wd = int(f["end"]), int(f["wd"])
    if "opts" in f:
        sc.opts = [] if f["opts"] in ("-", "") else f["opts"].split(",")
    else:
        sc.legacy = True
    if sc.ne >= 2 ** 61:
        sc.meta["end"], sc.meta["wd"] = sc.end, sc.wd   # line() keeps the horizon of the parsed line (the default formula leaves int64)
    return sc


def vcode(s):
    return 0 if s == "nil" else int(s)


class Log:
    """Parsed log of one trial."""

    def __init__(self, text):
        self.text = text
        self.entries = []
        self.hang = False
        self.panic = None
        self.unfinished = []
        self.call = {}     # action -> call stamp
        self.ret = {}      # action -> (kind, stamp, payload...)
        self.final = {}    # action -> (stamp, v, e)
        self.starts = []   # (k, j, t)
        self.ends = []     # (k, j, t, v, e)
        self.shards = {}
        self.load_order = []  # actions in the order their Load returns were logged
        self.bad = None
        for seq, tok in enumerate(text.split()):
            p = tok.split(",")
            try:
                kind = p[0]
                if kind == "HANG":
                    self.hang = True
                elif kind == "u":
                    self.unfinished.append(int(p[1]))
                elif kind == "PANIC":
                    self.panic = tok
                elif kind == "sh":
                    self.shards[int(p[1])] = int(p[2])
                elif kind == "c":
                    self.call[int(p[1])] = int(p[2])
                    self.entries.append((seq, "c", int(p[1]), int(p[2])))
                elif kind == "rL":
                    self.ret[int(p[1])] = ("L", int(p[2]), int(p[3]))
                    self.load_order.append(int(p[1]))
                elif kind == "rG":
                    self.ret[int(p[1])] = ("G", int(p[2]), vcode(p[3]), int(p[4]))
                elif kind == "rg":
                    self.ret[int(p[1])] = ("g", int(p[2]), vcode(p[3]))
                elif kind == "rS":
                    self.ret[int(p[1])] = ("S", int(p[2]))
                elif kind == "rC":
                    self.ret[int(p[1])] = ("C", int(p[2]))
                elif kind == "rf":
                    self.final[int(p[1])] = (int(p[2]), vcode(p[3]), int(p[4]))
                elif kind == "ls":
                    self.starts.append((int(p[1]), int(p[2]), int(p[3])))
                    self.entries.append((seq, "ls", int(p[1]), int(p[2]), int(p[3])))
                elif kind == "le":
                    self.ends.append((int(p[1]), int(p[2]), int(p[3]), vcode(p[4]), int(p[5])))
                    self.entries.append((seq, "le", int(p[1]), int(p[2]), int(p[3]), vcode(p[4]), int(p[5])))
                else:
                    self.bad = "unknown log entry " + tok
            except (ValueError, IndexError):
                self.bad = "malformed log entry " + tok


def split_trials(impl_line):
    return [Log(t) for t in impl_line.split(" ## ")]


# ------------------------------------------------------------------ log -> model history
MAX_VARIANTS = 144


def build_histories(sc, log, sweeps=()):
    """Returns (variants, nties, note). Each variant = (tokens, outidx) where outidx maps an
    action index to the position of its event in tokens. Within one virtual instant:
    loader completions, then (sweeps), then script calls, then loader starts; events of one
    key at one instant that involve a call are a tie group and every order of the group is
    a variant (the runtime picked one of them)."""
    evs = []
    for e in log.entries:
        if e[1] == "le":
            evs.append((e[4], 0, e[0], "F", e[2], (e[3], e[5], e[6])))
        elif e[1] == "ls":
            evs.append((e[4], 3, e[0], "B", e[2], e[3]))
        elif e[1] == "c":
            a = e[2]
            act = sc.acts[a]
            if act[1] in ("L", "G", "g", "S"):
                evs.append((e[3], 2, e[0], act[1], act[2], a))
    for i, t in enumerate(sweeps):
        evs.append((t, 1, -1 - i, "W", None, None))
    evs.sort(key=lambda x: (x[0], x[1], x[2]))
    groups = {}
    for idx, ev in enumerate(evs):
        if ev[1] in (0, 2):
            groups.setdefault((ev[0], ev[4]), []).append(idx)
    ties = [g for g in groups.values() if len(g) >= 2 and any(evs[i][1] == 2 for i in g)]

    def is_get(i):
        return evs[i][3] in ("G", "g")

    def nperm(g):
        # orders of the group up to the relative order of its Get calls (pure reads commute): n! / m!
        n = 1
        m = sum(1 for i in g if is_get(i))
        for i in range(max(m, 1) + 1, len(g) + 1):
            n *= i
        return n

    nvar = 1
    for g in ties:
        nvar *= nperm(g)
    if nvar > MAX_VARIANTS:
        return None, len(ties), "too many same-instant orders (%d)" % nvar

    def perms_of(g):
        gets = [i for i in g if is_get(i)]
        out = []
        for p in itertools.permutations(g):
            if [i for i in p if is_get(i)] == gets:
                out.append(p)
        return out

    perms = [perms_of(g) for g in ties]
    variants = []
    for combo in itertools.product(*perms) if ties else [()]:
        order = list(range(len(evs)))
        for g, p in zip(ties, combo):
            for pos, src in zip(g, p):
                order[pos] = src
        toks, outidx, now = [], {}, 0
        running = {}
        bad = None
        for i in order:
            t, _, _, kind, k, data = evs[i]
            if t > now:
                toks.append("A%d" % (t - now))
                now = t
            if kind == "F":
                j, v, e = data
                r = running.setdefault(k, [])
                if j not in r:
                    bad = "loader invocation %d of key %d returned before it was logged as started" % (j, k)
                    break
                pos = r.index(j)
                r.pop(pos)
                toks.append("F%d:%d:%d:%d" % (k, pos, v, e))
            elif kind == "B":
                running.setdefault(k, []).append(data)
                toks.append("B%d" % k)
            elif kind == "W":
                toks.append("W")
            else:
                outidx[data] = len(toks)
                if kind == "L":
                    toks.append("L%d" % k)
                elif kind in ("G", "g"):
                    toks.append("G%d" % k)
                else:
                    act = sc.acts[data]
                    toks.append("S%d:%d:%d" % (k, act[3], act[4]))
        if bad:
            return None, len(ties), bad
        variants.append((toks, outidx))
    return variants, len(ties), None


def model_line(sc, toks):
    return "cch %d %d %s" % (sc.ne, sc.ee, " ".join(toks))


def parse_model(out):
    if " | " not in out:
        return None
    o, st = out.split(" | ", 1)
    outs = o.split()
    futs = {}
    inner = st[st.index("futs=[") + 6: st.index("] map=")]
    for tok in inner.split():
        p = tok.split(":")
        if p[2] == "L":
            futs[int(p[0])] = (int(p[1]), None)
        else:
            futs[int(p[0])] = (int(p[1]), (int(p[2]), int(p[3]), int(p[4])))
    q = st[st.index(" q=[") + 4: st.index("] run=")]
    run = st[st.index(" run=[") + 6: st.index("] disp=")]
    return dict(outs=outs, futs=futs, q=q, run=run)


def compare_variant(sc, log, toks, outidx, mout, exact_load_return=True):
    """None if the model's replay of this history reproduces the log's observables."""
    pm = parse_model(mout)
    if pm is None:
        return "model produced no result: " + mout[:200]
    outs, futs = pm["outs"], pm["futs"]
    if len(outs) != len(toks):
        return "model returned %d outputs for %d events" % (len(outs), len(toks))
    for i, o in enumerate(outs):
        if o == "BAD":
            return "model rejects event %d (%s): not enabled (e.g. a loader invocation without a job)" % (i, toks[i])
    if pm["q"] != "" or pm["run"] != "":
        return "model has jobs that never ran in the implementation: queue=[%s] running=[%s]" % (pm["q"], pm["run"])
    # identity classes of the returned Futures, numbered by first appearance
    mfid = {}
    impl_ids, model_ids, canon = [], [], {}
    for a in log.load_order:
        if a not in outidx:
            return "Load action %d returned but no call was logged" % a
        o = outs[outidx[a]]
        if o[0] != "L":
            return "model output for Load action %d is %s" % (a, o)
        fid = int(o[1:-1])
        mfid[a] = fid
        canon.setdefault(fid, len(canon))
        model_ids.append(canon[fid])
        impl_ids.append(log.ret[a][2])
    if impl_ids != model_ids:
        for a, x, y in zip(log.load_order, impl_ids, model_ids):
            if x != y:
                return "Load action %d (t=%d key %d) returned Future #%d, model Future #%d (numbered by first appearance)" % (
                    a, sc.acts[a][0], sc.acts[a][2], x, y)

    def expect(fid, tcall):
        key, d = futs[fid]
        if d is None:
            return None
        return (d[0], d[1], max(tcall, d[2]))

    for a, act in enumerate(sc.acts):
        kind = act[1]
        r = log.ret.get(a)
        if r is None:
            return "action %d (%s at %d) never returned" % (a, kind, act[0])
        tc = log.call.get(a)
        if kind == "L":
            if exact_load_return and r[1] != tc:
                return "Load action %d called at %d returned at %d" % (a, tc, r[1])
            fin = log.final.get(a)
            if fin is None:
                return "Future of Load action %d never resolved" % a
            ex = expect(mfid[a], max(sc.end, r[1]))
            if ex is None:
                return "Future of Load action %d resolved to %s but is still loading in the model" % (a, fin)
            if (fin[1], fin[2], fin[0]) != ex:
                return "Future of Load action %d: final Get2 = (%d,%d) at %d, model (%d,%d) at %d" % ((a, fin[1], fin[2], fin[0]) + ex)
        elif kind == "S":
            if r[1] != tc:
                return "Set action %d called at %d returned at %d" % (a, tc, r[1])
        elif kind in ("C", "D", "X"):
            continue   # a garbage collection / a call the cache rejects with a panic on the caller: not an event of the cache
        else:
            if kind in ("G", "g"):
                o = outs[outidx[a]]
                if o == "I":
                    ex = (0, 0, tc)
                else:
                    ex = expect(int(o[1:]), tc)
            else:
                if act[2] not in mfid:
                    return "wait action %d refers to a Load that did not return" % a
                ex = expect(mfid[act[2]], tc)
            if ex is None:
                return "action %d returned %s but its Future is still loading in the model" % (a, r)
            got = (r[2], r[3], r[1]) if r[0] == "G" else (r[2], ex[1], r[1])
            if got != ex:
                return "action %d (%s key/act %d called at %d) returned (%d,%d) at %d, model (%d,%d) at %d" % (
                    (a, kind, act[2], tc) + got + ex)
    return None


# ------------------------------------------------------------------ monitors on the raw log
def expire_of(sc, e):
    return sc.ne if e == 0 else sc.ee


def completions(sc, log):
    """per key: list of (stamp, v, e, how) for loader returns and Sets."""
    comp = {}
    for (k, j, t, v, e) in log.ends:
        comp.setdefault(k, []).append((t, v, e, "load#%d" % j))
    for a, act in enumerate(sc.acts):
        if act[1] == "S" and a in log.call:
            comp.setdefault(act[2], []).append((log.call[a], act[3], act[4], "set@%d" % a))
    for k in comp:
        comp[k].sort()
    return comp


def monitor_liveness(sc, log):
    if log.bad:
        return ("log", log.bad)
    if log.panic:
        return ("panic", "panic inside a cache call or loader: " + log.panic)
    if log.hang:
        pend = ["%s(key/act %d)@%d" % (sc.acts[a][1], sc.acts[a][2], sc.acts[a][0]) for a in log.unfinished]
        return ("hang", "virtual-time watchdog at %d ns (all loaders last <= %d ns): calls never returned: %s" % (
            sc.wd, max(d for l in sc.ld for (d, _, _) in l), ", ".join(pend[:8]) or "(only Futures unresolved)"))
    for a, act in enumerate(sc.acts):
        if a not in log.ret:
            return ("hang", "action %d (%s at %d) never returned" % (a, act[1], act[0]))
        if act[1] == "L" and a not in log.final:
            return ("hang", "Future returned by Load action %d never resolved" % a)
    return None


def monitor_c04(sc, log):
    """single flight + agreement, directly on the log."""
    m = monitor_liveness(sc, log)
    if m:
        return m
    sets = {}
    for a, act in enumerate(sc.acts):
        if act[1] == "S":
            sets.setdefault(act[2], []).append(log.call[a])
    # (1) concurrently running loaders of one key <= 1 + number of Sets of that key so far
    iv = {}
    for (k, j, t) in log.starts:
        iv.setdefault(k, {})[j] = [t, None]
    for (k, j, t, v, e) in log.ends:
        if k in iv and j in iv[k]:
            iv[k][j][1] = t
    for k, d in iv.items():
        ivs = sorted(d.values())
        for (s2, e2) in ivs:
            conc = sum(1 for (s1, e1) in ivs if s1 <= s2 and (e1 is None or e1 > s2))
            nset = sum(1 for t in sets.get(k, []) if t <= s2)
            if conc > 1 + nset:
                return ("overlap", "key %d: %d loader invocations running at t=%d with only %d Set(s) of that key before" % (k, conc, s2, nset))
    # (2) all waiters of one Future see one pair
    seen = {}
    for a, act in enumerate(sc.acts):
        if act[1] == "L":
            fid = log.ret[a][2]
            fin = log.final[a]
            pair = (fin[1], fin[2])
            if fid in seen and seen[fid][0] != pair:
                return ("disagree", "Future #%d resolved to %s for action %d but to %s for action %d" % (fid, seen[fid][0], seen[fid][1], pair, a))
            seen.setdefault(fid, (pair, a))
    for a, act in enumerate(sc.acts):
        if act[1] in ("W", "w"):
            fid = log.ret[act[2]][2]
            r = log.ret[a]
            want = seen[fid][0]
            if (r[0] == "G" and (r[2], r[3]) != want) or (r[0] == "g" and r[2] != want[0]):
                return ("disagree", "Future #%d: waiter action %d got %s, another waiter got %s" % (fid, a, r[2:], want))
    # (3) every pair is the pair of one loader invocation of that key, or of a Set of it
    comp = completions(sc, log)
    for a, act in enumerate(sc.acts):
        r = log.ret[a]
        if act[1] == "L":
            k, pair = act[2], (log.final[a][1], log.final[a][2])
        elif act[1] == "G":
            k, pair = act[2], (r[2], r[3])
            if pair == (0, 0):
                continue
        elif act[1] == "g":
            k, pair = act[2], None
            if r[2] == 0:
                continue
            if not any(c[1] == r[2] for c in comp.get(k, [])):
                return ("foreign-pair", "Get1 action %d of key %d returned %d, not returned by any loader invocation / Set of that key" % (a, k, r[2]))
            continue
        else:
            continue
        if not any((c[1], c[2]) == pair for c in comp.get(k, [])):
            return ("foreign-pair", "action %d (%s key %d) obtained %s, not the result of any loader invocation / Set of that key (%s)" % (
                a, act[1], k, pair, comp.get(k, [])))
    # (4) a result that is fresh (age < E) and current never triggers a loader: a loader of key k
    #     starting at the instant of a Load(k) call, nothing else of k happening at that instant
    end_instants = set(t for (_, _, t, _, _) in log.ends)
    for (k, j, t) in log.starts:
        if k in sets:
            continue  # a Set may have displaced the load whose completion is the latest one
        calls = [a for a, act in enumerate(sc.acts) if act[1] == "L" and act[2] == k and log.call.get(a) == t]
        if not calls or t in end_instants:
            continue
        before = [c for c in comp.get(k, []) if c[0] < t]
        running_before = [1 for (k2, j2, t2) in log.starts if k2 == k and t2 < t and
                          not any(e[0] == k and e[1] == j2 and e[2] <= t for e in log.ends)]
        if before and not running_before:
            u, v, e, how = before[-1]
            if not any(c[0] == t for c in comp.get(k, [])) and t - u < expire_of(sc, e):
                return ("fresh-reload", "key %d: loader invocation %d started at %d by a Load although the result of %s completed at %d is only %d ns old (E=%d)" % (
                    k, j, t, how, u, t - u, expire_of(sc, e)))
    return None


def monitor_c05(sc, log):
    """staleness bound + one refresh per stale window, directly on the log."""
    m = monitor_liveness(sc, log)
    if m:
        return m
    comp = completions(sc, log)

    def too_old(k, pair, tcall, what):
        cands = [c for c in comp.get(k, []) if (c[1], c[2]) == pair]
        if not cands:
            return None  # foreign pair: C04's monitor
        # ok if some candidate completion is younger than 2E at the call, or completes later
        for (u, v, e, how) in cands:
            if u >= tcall or tcall - u < 2 * expire_of(sc, e):
                return None
        u, v, e, how = cands[-1]
        return ("rotted-served", "%s at %d returned %s of key %d which completed at %d (%s): %d ns old >= 2E = %d" % (
            what, tcall, pair, k, u, how, tcall - u, 2 * expire_of(sc, e)))

    for a, act in enumerate(sc.acts):
        r = log.ret[a]
        if act[1] == "G" and (r[2], r[3]) != (0, 0):
            m = too_old(act[2], (r[2], r[3]), log.call[a], "Get2 action %d" % a)
            if m:
                return m
        if act[1] == "L":
            m = too_old(act[2], (log.final[a][1], log.final[a][2]), log.call[a], "Load action %d" % a)
            if m:
                return m
        if act[1] == "g" and r[2] != 0:
            cands = [c for c in comp.get(act[2], []) if c[1] == r[2]]
            if cands and all(c[0] < log.call[a] and log.call[a] - c[0] >= 2 * expire_of(sc, c[2]) for c in cands):
                return ("rotted-served", "Get1 action %d at %d returned %d of key %d, completed at %d: >= 2E old" % (a, log.call[a], r[2], act[2], cands[-1][0]))
    # fresh result: Get2/Get1 must be served immediately with the current pair (no Set races)
    for a, act in enumerate(sc.acts):
        if act[1] != "G":
            continue
        k, tc = act[2], log.call[a]
        cs = comp.get(k, [])
        before = [c for c in cs if c[0] < tc]
        if not before or any(c[0] == tc for c in cs):
            continue
        u, v, e, how = before[-1]
        if tc - u < expire_of(sc, e):
            # the current entry could also be a displaced load finishing later than a Set: only
            # check when the latest completion is the one that owns the map entry (no Set on k at all,
            # or the latest completion is a Set)
            if how.startswith("set") or not any(c[3].startswith("set") for c in cs):
                r = log.ret[a]
                if (r[2], r[3], r[1]) != (v, e, tc):
                    return ("fresh-not-served", "Get2 action %d at %d: key %d has a fresh result (%d,%d) completed at %d (age %d < E=%d) but got (%d,%d) at %d" % (
                        a, tc, k, v, e, u, tc - u, expire_of(sc, e), r[2], r[3], r[1]))
    # fresh result passed to Set (the latest completion of the key is a Set younger than E): a Load must
    # return that very result at once and must not start a loader
    for a, act in enumerate(sc.acts):
        if act[1] != "L":
            continue
        k, tc = act[2], log.call[a]
        cs = comp.get(k, [])
        before = [c for c in cs if c[0] < tc]
        if not before or any(c[0] == tc for c in cs):
            continue
        u, v, e, how = before[-1]
        if how.startswith("set") and tc - u < expire_of(sc, e):
            # no load of this key may be in flight at tc (a displaced load finishing later is C04's subject)
            if any(st[0] == k and st[2] < tc and not any(en[0] == k and en[1] == st[1] and en[2] <= tc for en in log.ends) for st in log.starts):
                continue
            fin = log.final.get(a)
            if fin is not None and (fin[1], fin[2]) != (v, e):
                return ("fresh-not-served", "Load action %d at %d: key %d holds the fresh result (%d,%d) passed to Set at %d (age %d < E=%d) but the returned Future resolved to (%d,%d)" % (
                    a, tc, k, v, e, u, tc - u, expire_of(sc, e), fin[1], fin[2]))
            # a loader start at tc may belong to a job that an EARLIER Load of the key queued while every
            # worker was busy (its Future displaced by the Set since): only a start that no earlier Load can
            # account for (each Load creates at most one job) is this call's
            earlier_loads = sum(1 for b, bct in enumerate(sc.acts) if bct[1] == "L" and bct[2] == k and b in log.call and log.call[b] < tc)
            starts_so_far = sum(1 for st in log.starts if st[0] == k and st[2] <= tc)
            if any(st[0] == k and st[2] == tc for st in log.starts) and starts_so_far > earlier_loads:
                return ("needless-load", "Load action %d at %d: key %d holds the fresh result passed to Set at %d (age %d < E=%d) but a loader was started" % (
                    a, tc, k, u, tc - u, expire_of(sc, e)))
    # the property's case table for keys that are never Set, in logs where no job had to queue and
    # nothing else of the key happens at the call instant: fresh / stale / rotted / loading
    set_keys = set(act[2] for act in sc.acts if act[1] == "S")
    all_ends = {(k, j): t for (k, j, t, v, e) in log.ends}
    end_instants = set(all_ends.values())

    def worker_idle_at(tc, k):
        # fewer than <parallel> loaders running, no loader returning and no other key's loader
        # starting at that instant: a job created at tc starts at tc
        if tc in end_instants or any(t == tc and k2 != k for (k2, j, t) in log.starts):
            return False
        n = sum(1 for (k2, j, t) in log.starts if t < tc and all_ends.get((k2, j), tc + 1) > tc)
        return n < sc.par

    if True:
        ends = {(k, j): (t, v, e) for (k, j, t, v, e) in log.ends}
        for a, act in enumerate(sc.acts):
            if act[1] not in ("L", "G", "g") or act[2] in set_keys or a not in log.call:
                continue
            k, tc = act[2], log.call[a]
            if not worker_idle_at(tc, k):
                continue
            cs = comp.get(k, [])
            if any(c[0] == tc for c in cs):
                continue  # completion at the call instant: either order is allowed
            before = [c for c in cs if c[0] < tc]
            running = [(j, t) for (k2, j, t) in log.starts if k2 == k and t < tc and ends.get((k, j), (tc + 1,))[0] > tc]
            started_now = [(j, t) for (k2, j, t) in log.starts if k2 == k and t == tc]
            if len(running) > 1:
                continue  # C04's monitor
            cur = before[-1] if before else None
            age_ok = cur is not None and tc - cur[0] < 2 * expire_of(sc, cur[2])
            fresh = cur is not None and tc - cur[0] < expire_of(sc, cur[2])
            if act[1] == "g":
                # Cache.Get1 = first component of what Get2 returns in the same situation, at the same instant
                r = log.ret[a]
                if age_ok:
                    want = (cur[1], tc)
                elif running:
                    en = ends.get((k, running[0][0]))
                    if en is None:
                        continue
                    want = (en[1], en[0])
                else:
                    want = (0, tc)
                if (r[2], r[1]) != want:
                    state = "fresh" if fresh else ("stale (E <= age < 2E)%s" % (", refresh running" if running else "") if age_ok else ("rotted/absent, load in flight" if running else "rotted/absent, no load in flight"))
                    return ("get1-case-table", "Get1 action %d of key %d at %d: entry is %s (last completion %s, E=%s) so it must return %d at %d (first component of Get2's answer), got %d at %d" % (
                        a, k, tc, state, cur[:3] if cur else None, expire_of(sc, cur[2]) if cur else None, want[0], want[1], r[2], r[1]))
            elif act[1] == "G":
                r = log.ret[a]
                if age_ok:
                    want = (cur[1], cur[2], tc)
                elif running:
                    en = ends.get((k, running[0][0]))
                    if en is None:
                        continue
                    want = (en[1], en[2], en[0])
                else:
                    want = (0, 0, tc)
                if (r[2], r[3], r[1]) != want:
                    state = "fresh" if fresh else ("stale (E <= age < 2E)" if age_ok else ("rotted/absent, load in flight" if running else "rotted/absent, no load in flight"))
                    return ("get2-case-table", "Get2 action %d of key %d at %d: entry is %s (last completion %s, E=%s) so it must return (%d,%d) at %d, got (%d,%d) at %d" % (
                        a, k, tc, state, cur[:3] if cur else None, expire_of(sc, cur[2]) if cur else None, want[0], want[1], want[2], r[2], r[3], r[1]))
            else:
                must_start = (not running) and (not fresh)
                if must_start and not started_now:
                    return ("stale-not-refreshed", "Load action %d of key %d at %d: no load in flight and the last result (%s) is not fresh (E=%s), but no loader invocation started" % (
                        a, k, tc, cur[:3] if cur else None, expire_of(sc, cur[2]) if cur else None))
                if (not must_start) and started_now:
                    return ("needless-load", "Load action %d of key %d at %d started a loader although %s" % (
                        a, k, tc, "a load is in flight" if running else "the result completed at %d is fresh" % cur[0]))
                fin = log.final.get(a)
                if fin is None:
                    continue
                if age_ok:
                    want = (cur[1], cur[2])
                else:
                    src = running[0][0] if running else (started_now[0][0] if started_now else None)
                    if src is None or (k, src) not in ends:
                        continue
                    want = ends[(k, src)][1:]
                if (fin[1], fin[2]) != tuple(want):
                    return ("load-case-table", "Load action %d of key %d at %d: Future resolved to (%d,%d), the property's case table gives (%d,%d) (last completion %s)" % (
                        a, k, tc, fin[1], fin[2], want[0], want[1], cur[:3] if cur else None))
    # Get1 next to Get2: a Get1 and a Get2 of one key called at the same instant, nothing else of that key happening at
    # that instant (no Load/Set call, no loader return): Get1's value is Get2's value and both return at the same instant
    by_inst = {}
    for a, act in enumerate(sc.acts):
        if act[1] in ("G", "g", "L", "S") and a in log.call:
            by_inst.setdefault((act[2], log.call[a]), []).append(a)
    for (k, tc), group in by_inst.items():
        kinds = [sc.acts[a][1] for a in group]
        if "g" not in kinds or "G" not in kinds or "L" in kinds or "S" in kinds:
            continue
        if any(c[0] == tc for c in comp.get(k, [])):
            continue
        g2 = [a for a in group if sc.acts[a][1] == "G"][0]
        for a in group:
            if sc.acts[a][1] == "g":
                r1, r2 = log.ret[a], log.ret[g2]
                if (r1[2], r1[1]) != (r2[2], r2[1]):
                    return ("get1-vs-get2", "key %d at %d: Get1 (action %d) returned %d at %d, Get2 (action %d) called at the same instant returned (%d,%d) at %d" % (
                        k, tc, a, r1[2], r1[1], g2, r2[2], r2[3], r2[1]))
    # at most one refresh per stale window (keys without Set; loads that do not queue)
    nsets = set(act[2] for act in sc.acts if act[1] == "S")
    for k, cs in comp.items():
        if k in nsets:
            continue
        for idx, (u, v, e, how) in enumerate(cs):
            E = expire_of(sc, e)
            hi = u + 2 * E
            if idx + 1 < len(cs):
                hi = min(hi, cs[idx + 1][0])
            n = [t for (k2, j2, t) in log.starts if k2 == k and u + E <= t < hi]
            if len(n) > 1:
                return ("double-refresh", "key %d: result completed at %d (E=%d) was refreshed %d times within its stale window (loader starts at %s)" % (k, u, E, len(n), n))
    return None


# ------------------------------------------------------------------ running a batch
def check_batch(chk, binary, stream, scripts, monitor, feed_sweeps=None, exact_load_return=True, nontrivial=None):
    """Runs scripts (Script or Multi) on the implementation, replays each trial's log in the model (every
    same-instant order) with the configuration copt_create gives for the script's OWN option list, compares,
    applies the monitor (+ monitor_config). Returns list of (script, [Log]) per Script (Multis flattened)."""
    if not scripts:
        return []
    expected_configs(chk, scripts)
    lines = [s.line() for s in scripts]
    try:
        impl = run_ft(binary, lines)
    except common.ImplCrash as e:
        chk.infra_errors.append("ftcache crashed or timed out (stream %s): %s" % (stream, _printable(str(e)[-1200:])))
        # which script? halve the batch until one script is left whose process, run alone, does not finish normally
        try:
            found = isolate_crash(binary, lines)
        except Exception:
            found = None
        if found:
            chk.monitor_fail("crash", found[0], found[1][:1500], "stream %s: the harness process running this script alone did not finish normally "
                             "(a panic in a library goroutine ends the process): %s" % (stream, " ".join(found[1].split())[-400:]))
        return []
    work = []   # (script, report line, trial, log, variants, base)
    mlines = []
    results = []
    si = -1
    for item, line, whole in zip(scripts, lines, impl):
        if whole.startswith("PANIC") or whole == "BADCASE":
            chk.monitor_fail("panic", line, whole[:600], "the harness could not run the script: " + whole[:300])
            for sc in subs_of(item):
                results.append((sc, []))
            continue
        for sc, out in split_outputs(item, whole):
            si += 1
            logs = split_trials(out) if not out.startswith("PANIC") else []
            results.append((sc, logs))
            if not logs:
                chk.monitor_fail("panic", line, out[:600], "the harness could not run the script: " + out[:300])
                continue
            for ti, log in enumerate(logs):
                mf = monitor(sc, log) or monitor_config(sc, log)
                if mf:
                    chk.monitor_fail(mf[0], line, log.text[:3000], mf[1] + cfg_note(sc, item))
                sweeps = ()
                if feed_sweeps is not None and feed_sweeps(si, ti):
                    sweeps = tuple(range(4 * sc.ne, sc.end + 1, 4 * sc.ne))
                variants, nties, note = build_histories(sc, log, sweeps)
                chk.cov["ties"] = chk.cov.get("ties", 0) + nties
                if variants is None:
                    if note.startswith("too many"):
                        chk.cov["skipped_too_many_orders"] = chk.cov.get("skipped_too_many_orders", 0) + 1
                    else:
                        chk.diverge(stream, line, "", log.text[:3000], note)
                    continue
                work.append((sc, item, line, ti, log, variants, len(mlines)))
                for toks, _ in variants:
                    mlines.append(model_line(sc, toks))
    mouts = common.run_model(mlines) if mlines else []
    for (sc, item, line, ti, log, variants, base) in work:
        notes = []
        ok = False
        for vi, (toks, outidx) in enumerate(variants):
            note = compare_variant(sc, log, toks, outidx, mouts[base + vi], exact_load_return)
            if note is None:
                ok = True
                break
            notes.append(note)
        chk.cov["disagreements_checked"] += 1
        chk.cov["programs"] += 1
        nt = nontrivial(sc, log) if nontrivial else True
        chk.count_case(stream, sc.line() + ("#%d" % ti if ti else "") + ("@multi" if isinstance(item, Multi) else ""), nt)
        if ok:
            chk.cov["traces_validated_against_impl"] += 1
            chk.cov["model_events"] = chk.cov.get("model_events", 0) + len(variants[0][0])
        else:
            chk.diverge(stream, line, mouts[base][:1500], log.text[:3000],
                        notes[0] + (" (and %d other same-instant order(s) also disagree)" % (len(notes) - 1) if len(notes) > 1 else "") + cfg_note(sc, item))
    if results and results[0][1]:
        sc, logs = results[0]
        chk.sample(dict(stream=stream, case=lines[0][:600], impl=logs[0].text[:600]), limit=12)
    return results


def cfg_note(sc, item):
    if sc.legacy:
        return ""
    n = " [cache created with options (%s): normalExpire=%d errorExpire=%d parallel=%d jobChanSize=%d" % (
        ",".join(sc.opt_tokens()) or "none", sc.ne, sc.ee, sc.par, sc.jcs)
    if isinstance(item, Multi):
        n += "; cache #%d of %d in this process" % (item.subs.index(sc), len(item.subs))
    return n + "]"


def monitor_config(sc, log):
    """The cache behaves as configured by ITS OWN option list: never more than <parallel> loaders at once; a job waits
    only while <parallel> loaders are running; a Load blocks only when <jobChanSize> jobs can be pending."""
    if log.bad or log.panic or log.hang:
        return None
    ends = {(k, j): t for (k, j, t, v, e) in log.ends}
    ivs = [(t, ends.get((k, j)), k, j) for (k, j, t) in log.starts]

    def busy(t):
        return sum(1 for (s0, e0, _, _) in ivs if s0 <= t and (e0 is None or e0 > t))

    for (s0, e0, k, j) in ivs:
        n = busy(s0)
        if n > sc.par:
            return ("config-parallel", "%d loaders running at t=%d (key %d invocation %d just started) but the cache has parallel=%d workers" % (n, s0, k, j, sc.par))
    # first Load of a key that is never Set: it creates a job; if its loader starts later than the call, all workers were busy
    set_keys = set(act[2] for act in sc.acts if act[1] == "S")
    first = {}
    for a, act in enumerate(sc.acts):
        if act[1] == "L" and a in log.call and act[2] not in set_keys:
            if act[2] not in first or log.call[a] < log.call[first[act[2]]]:
                first[act[2]] = a
    for k, a in first.items():
        tc = log.call[a]
        st = [t for (k2, j, t) in log.starts if k2 == k and j == 0]
        if st and st[0] > tc and busy(tc) < sc.par and not any(e0 == tc for (_, e0, _, _) in ivs):
            return ("config-parallel", "the job of Load action %d (key %d, called at %d) started only at %d although just %d loader(s) were running at %d: the cache should have parallel=%d workers" % (
                a, k, tc, st[0], busy(tc), tc, sc.par))
    # a Load returns later than called only when the job queue is full: at most one job per earlier Load call
    for a, act in enumerate(sc.acts):
        if act[1] != "L" or a not in log.call or a not in log.ret:
            continue
        tc, tr = log.call[a], log.ret[a][1]
        if tr > tc:
            created = sum(1 for b, bct in enumerate(sc.acts) if bct[1] == "L" and b != a and b in log.call and log.call[b] <= tc)
            started = sum(1 for (s0, _, _, _) in ivs if s0 < tc)
            if created - started < sc.jcs:
                return ("config-jobchan", "Load action %d called at %d returned at %d (blocked) although at most %d job(s) can be pending: the cache should have jobChanSize=%d" % (
                    a, tc, tr, created - started, sc.jcs))
    return None


def _printable(t):
    return "".join(ch if 32 <= ord(ch) < 127 or ch == "\n" else "?" for ch in t)


def isolate_crash(binary, lines, env=None):
    """(line, tail of the output) of one script whose process does not finish normally when run alone, or None"""
    cur = list(lines)
    while len(cur) > 1:
        half = cur[:len(cur) // 2]
        try:
            run_ft(binary, half, env=env, timeout=240)
            cur = cur[len(cur) // 2:]
        except common.ImplCrash:
            cur = half
    try:
        run_ft(binary, cur, env=env, timeout=120)
    except common.ImplCrash as e:
        return cur[0], _printable(str(e)[-700:])
    return None


def run_ft_isolating(binary, lines, env=None):
    """run_ft; when the process crashes or times out, every script is run again in a process of its own and the output of a
    script whose process does not finish normally is 'CRASH <tail of the output>'"""
    try:
        return run_ft(binary, lines, env=env)
    except common.ImplCrash:
        outs = []
        for l in lines:
            try:
                outs.extend(run_ft(binary, [l], env=env, timeout=90))
            except common.ImplCrash as e:
                outs.append("CRASH " + _printable(str(e)[-700:]))
        return outs


def monitor_drop_c04(sc, log):
    """single flight for a cache dropped by its owner: monitor_c04, and a loader runs at most once per Load of its key"""
    m = monitor_c04(sc, log)
    if m:
        return m
    nload = {}
    for act in sc.acts:
        if act[1] == "L":
            nload[act[2]] = nload.get(act[2], 0) + 1
    nstart = {}
    for (k, j, t) in log.starts:
        nstart[k] = nstart.get(k, 0) + 1
    for k, c in sorted(nstart.items()):
        if c > nload.get(k, 0):
            return ("overlap", "key %d: %d loader invocations for %d Load call(s) of that key" % (k, c, nload.get(k, 0)))
    return None


def run_drop_stream(chk, binary, stream, drops, monitor, what):
    for sc in drops:
        chk.count_case(stream, sc.line(), True)
    for sc, whole in zip(drops, run_ft_isolating(binary, [sc.line() for sc in drops])):
        if whole.startswith("CRASH"):
            chk.monitor_fail("crash", sc.line(), whole[:1500], what + "the harness process running this script alone did not finish normally "
                             "(a panic in a library goroutine ends the process): " + " ".join(whole[6:].split())[-400:])
            continue
        if whole.startswith("PANIC"):
            chk.monitor_fail("panic", sc.line(), whole[:500], whole[:300])
            continue
        for log in split_trials(whole):
            mf = monitor(sc, log)
            if mf:
                chk.monitor_fail("future-unresolved-after-cache-dropped" if mf[0] == "hang" else mf[0], sc.line(), log.text[:3000], what + mf[1])


def monitor_items(chk, binary, items, monitor, chunk=120):
    """monitors only (used by the failing-input searches)"""
    outs = run_ft(binary, [it.line() for it in items], chunk=chunk)
    for it, whole in zip(items, outs):
        if whole.startswith("PANIC"):
            chk.monitor_fail("panic", it.line(), whole[:500], whole[:300])
            continue
        for sc, out in split_outputs(it, whole):
            if out.startswith("PANIC"):
                chk.monitor_fail("panic", it.line(), out[:500], out[:300])
                continue
            for log in split_trials(out):
                mf = monitor(sc, log) or monitor_config(sc, log)
                if mf:
                    chk.monitor_fail(mf[0], it.line(), log.text[:3000], mf[1] + cfg_note(sc, it))


# ------------------------------------------------------------------ generators
EXPIRES = [(1600, 1600), (1600, 800), (3200, 160), (1000, 999), (4800, 1600), (48, 16), (160, 1), (2, 1), (16000, 4000)]
# explicit expiries of the caches that share a process with a cache created WITHOUT WithExpire (1 s / 100 ms): within a
# factor 1000 of the defaults, so that the sweep tickers of all caches of the process fire at most a few thousand times
# during the longest script (each tick is a jump of the virtual clock)
EXPIRES_LARGE = [(1600000, 1600000), (3200000, 160000), (48000000, 16000000), (1600000000, 800000000), (2000000000, 100000000),
                 (320000000, 100000000)]
DEFAULT_EXPIRE = (DEFAULTS["ne"], DEFAULTS["ee"])


def pick_keys(rng, n):
    pool = list(KEY_POOL)
    rng.shuffle(pool)
    return pool[:n]


def rand_ld(rng, ne, nkeys, long_ok=True):
    ld = []
    for _ in range(nkeys):
        l = []
        for _ in range(rng.range(1, 6)):
            durs = [1, 17, 33, ne // 2 + 1, max(1, ne - 15), ne + 1]
            if long_ok:
                durs += [2 * ne + 1, 5 * ne + 1]
            d = rng.choice(durs)
            err = rng.choice([0, 0, 0, 7, 9])
            hasval = 1 if err == 0 and rng.chance(9, 10) else (1 if rng.chance(1, 2) else 0)
            l.append((d, hasval, err))
        ld.append(l)
    return ld


def free_instant(used, t):
    t = max(0, t)
    while t in used:
        t += 1
    used.add(t)
    return t


def base_script(rng, nkeys=None, par=None, jcs=BIG_JCS, nacts=None, horizon_mult=12, set_pct=12, expire=None):
    ne, ee = expire or rng.choice(EXPIRES)
    nkeys = nkeys or rng.range(1, 4)
    sc = Script(ne, ee, par or rng.choice([1, 2, 4]), jcs, pick_keys(rng, nkeys), rand_ld(rng, ne, nkeys))
    sc.opts = random_opts(rng, sc.ne, sc.ee, sc.par, sc.jcs)
    used = set()
    horizon = horizon_mult * ne
    for _ in range(nacts or rng.range(3, 10)):
        t = free_instant(used, 16 * rng.below(horizon // 16 + 1))
        k = rng.below(nkeys)
        if rng.below(100) < set_pct:
            sc.add(t, "S", k, 5000000 + len(sc.acts) if rng.chance(4, 5) else 0, rng.choice([0, 0, 3]))
        else:
            sc.add(t, "L", k)
    return sc


BOUNDARY_OFFSETS = [(-1, "E-1"), (0, "E"), (1, "E+1")]


def multi_scripts(rng, n, nacts=(3, 7), horizon_mult=6):
    """Several caches in one process with different option lists: the first one sets every option to a non-default
    value, the later ones leave each of expiry / parallel / jobChanSize at its default (option omitted) half of the
    time; the caches often use the very same typed keys."""
    out = []
    for _ in range(n):
        subs = []
        with_default = rng.chance(2, 3)     # some cache of this process is created without WithExpire
        pool = EXPIRES_LARGE if with_default else EXPIRES
        m = rng.choice([2, 2, 3])
        dflt = rng.range(1, m - 1) if with_default else -1
        for i in range(m):
            if i == 0:
                exp, par, jcs = rng.choice(pool), rng.choice([2, 4]), rng.choice([48, 64, 200])
            else:
                exp = DEFAULT_EXPIRE if (i == dflt or (with_default and rng.chance(1, 3))) else rng.choice(pool)
                par = DEFAULTS["par"] if rng.chance(1, 2) else rng.choice([2, 4])
                jcs = DEFAULTS["jcs"] if rng.chance(1, 2) else rng.choice([32, 64])   # never full: the scripts have < 32 Loads
            sc = base_script(rng, par=par, jcs=jcs, nacts=rng.range(*nacts), horizon_mult=horizon_mult, expire=exp)
            if i > 0 and rng.chance(1, 2) and len(subs[0].keys) >= len(sc.keys):
                sc.keys = subs[0].keys[:len(sc.keys)]
            subs.append(sc)
        if rng.chance(1, 3):
            subs.reverse()   # the all-default cache first, the configured ones later
        out.append(Multi(subs))
    out.sort(key=lambda mu: 0 if any(sc.ne >= 1000000 for sc in mu.subs) else 1)   # stable: the 1 s scale first (run_ft)
    return out


def add_boundary_probes(rng, sc, log, kinds, density=3):
    """Adds calls at u+E-1, u+E, u+E+1, u+2E-1, u+2E, u+2E+1 for completions u seen in log."""
    comp = completions(sc, log)
    used = sc.used_instants()
    loads = [a for a, act in enumerate(sc.acts) if act[1] == "L"]
    for k, cs in comp.items():
        for (u, v, e, how) in cs:
            E = expire_of(sc, e)
            for mult in (1, 2):
                for off in (-1, 0, 1):
                    if not rng.chance(density, 6):
                        continue
                    t = u + mult * E + off
                    if t < 0 or t in used:
                        continue
                    used.add(t)
                    kind = rng.choice(kinds)
                    if kind in ("W", "w"):
                        cands = [a for a in loads if sc.acts[a][2] == k and sc.acts[a][0] < t]
                        if not cands:
                            kind = "G"
                        else:
                            sc.add(t, kind, rng.choice(cands))
                            continue
                    sc.add(t, kind, k)
                    if kind == "g" and rng.chance(1, 2):
                        sc.add(t, "G", k)   # Get1 next to Get2 at one instant: must agree
    return sc


def add_first_boundary_probes(rng, sc, log, kinds):
    """Like add_boundary_probes, but only around u+E and some way into the stale window (for expiries whose
    2E is beyond the range of the clock)."""
    comp = completions(sc, log)
    used = sc.used_instants()
    loads = [a for a, act in enumerate(sc.acts) if act[1] == "L"]
    for k, cs in comp.items():
        for (u, v, e, how) in cs:
            E = expire_of(sc, e)
            for off in (-1, 0, 1, 16 * rng.range(1, 4096)):
                t = u + E + off
                if t < 0 or t in used or t + 4096 >= sc.meta.get("end", t + 8192) or not rng.chance(4, 6):
                    continue
                used.add(t)
                kind = rng.choice(kinds)
                if kind in ("W", "w"):
                    cands = [a for a in loads if sc.acts[a][2] == k and sc.acts[a][0] < t]
                    if cands:
                        sc.add(t, kind, rng.choice(cands))
                        continue
                    kind = "G"
                sc.add(t, kind, k)
    return sc


def add_burst_probes(rng, sc, log, kinds, same_instant=False):
    """Adds bursts of calls 1 ns apart (or at one instant) around loader starts / completions."""
    comp = completions(sc, log)
    used = sc.used_instants()
    nk = len(sc.keys)
    add0 = sc.add

    def add(t, kind, k):
        if kind in ("W", "w"):
            cands = [a for a, act in enumerate(sc.acts) if act[1] == "L" and act[2] == k and act[0] < t]
            if not cands:
                return add0(t, "G", k)
            return add0(t, kind, rng.choice(cands))
        return add0(t, kind, k)

    points = []
    for k, cs in comp.items():
        points += [(u, k) for (u, v, e, how) in cs]
    points += [(t, k) for (k, j, t) in log.starts]
    rng.shuffle(points)
    for (u, k) in points[:rng.range(1, 4)]:
        if same_instant:
            t = u + rng.choice([-1, 0, 1, 1, 2, 5])
            if t < 0 or t in used:
                continue
            used.add(t)
            for _ in range(rng.range(2, 3)):
                kk = k if rng.chance(3, 4) else rng.below(nk)
                add(t, rng.choice(kinds), kk)
        else:
            for off in range(-2, rng.range(1, 4)):
                t = u + off
                if t < 0 or t in used or not rng.chance(4, 5):
                    continue
                used.add(t)
                kk = k if rng.chance(4, 5) else rng.below(nk)
                add(t, rng.choice(kinds), kk)
    return sc


def boundary_hits(sc, log):
    """how many calls sit exactly at u+mE+d (m in 1,2; d in -1,0,1) of a completion of their key"""
    comp = completions(sc, log)
    hits = {}
    for a, act in enumerate(sc.acts):
        if act[1] not in ("L", "G", "g"):
            continue
        tc = log.call.get(a)
        for (u, v, e, how) in comp.get(act[2], []):
            E = expire_of(sc, e)
            for mult in (1, 2):
                for off in (-1, 0, 1):
                    if tc == u + mult * E + off:
                        key = "%s@u+%dE%+d%s" % (act[1], mult, off, "(err)" if e else "")
                        hits[key] = hits.get(key, 0) + 1
    return hits


def refine_scripts(binary, scripts, rounds, rng, adder=None):
    """rounds: list of kind lists; each round runs the scripts and adds boundary probes
    relative to the completions observed (Get probes never change the timeline)."""
    adder = adder or add_boundary_probes
    for kinds in rounds:
        outs = run_ft(binary, [s.line() for s in scripts])
        for item, whole in zip(scripts, outs):
            if whole.startswith("PANIC") or whole == "BADCASE":
                continue
            for sc, out in split_outputs(item, whole):
                if out.startswith("PANIC"):
                    continue
                log = split_trials(out)[0]
                if log.hang or log.bad:
                    continue
                adder(rng, sc, log, kinds)
    return scripts


# ------------------------------------------------------------------ vm_compute cross-check
def coq_event(tok):
    b = tok[1:].split(":")
    z = lambda s: "(%d)" % int(s)
    c = tok[0]
    if c == "L":
        return "CLoad %s" % z(b[0])
    if c == "G":
        return "CGet2 %s" % z(b[0])
    if c == "S":
        return "CSet %s %s %s" % (z(b[0]), z(b[1]), z(b[2]))
    if c == "B":
        return "CStart %s" % z(b[0])
    if c == "F":
        return "CFinish %s %d %s %s" % (z(b[0]), int(b[1]), z(b[2]), z(b[3]))
    if c == "W":
        return "CSweep"
    return "CAdvance %s" % z(b[0])


def out_code(o):
    if o == "I":
        return -1
    if o == ".":
        return -2
    if o == "BAD":
        return -3
    if o[0] == "L":
        return 10 * int(o[1:-1]) + (1 if o[-1] == "+" else 2)
    return 10 * int(o[1:]) + {"A": 3, "B": 4, "F": 5}[o[0]]


def coq_crosscheck(chk, mlines, mouts):
    items = []
    for l, o in zip(mlines, mouts):
        t = l.split()
        pm = parse_model(o)
        if pm is None:
            continue
        items.append("({| c_normE := %s; c_errE := %s |}, [%s], [%s])" % (
            t[1], t[2], "; ".join(coq_event(x) for x in t[3:]), "; ".join("(%d)" % out_code(x) for x in pm["outs"])))
    if not items:
        return 0
    body = """From Got Require Import Base Cache.
Local Open Scope Z_scope.
Definition out_code (o : c_out) : Z :=
  match o with
  | OLoad f c => 10 * Z.of_nat f + (if c then 1 else 2)
  | OImmediate => -1 | ONone => -2 | OBad => -3
  | OAwait f => 10 * Z.of_nat f + 3 | OStart f => 10 * Z.of_nat f + 4 | OFinish f => 10 * Z.of_nat f + 5
  end.
Definition zl_eqb (a b : list Z) : bool := if list_eq_dec Z.eq_dec a b then true else false.
Definition ok (c : c_cfg * list c_event * list Z) : bool :=
  match c with (cfg, evs, want) => zl_eqb (map out_code (c_outputs cfg c_init evs)) want end.
Definition cases := [%s].
Definition bad := Eval vm_compute in length (filter (fun c => negb (ok c)) cases).
Print bad.
""" % ";\n".join(items)
    out = common.run_coq_eval(body)
    if "bad = 0%nat" not in out.replace("\n", " "):
        chk.diverge("vm_compute-vs-extraction", "sample of %d histories" % len(items), out[-300:], "", "extracted OCaml model disagrees with vm_compute")
    return len(items)


# ------------------------------------------------------------------ shard index cases (pure)
def shard_cases(rng, n):
    cases = []
    rngs = {"int": (-2 ** 63, 2 ** 63 - 1), "int8": (-128, 127), "int16": (-2 ** 15, 2 ** 15 - 1), "int32": (-2 ** 31, 2 ** 31 - 1),
            "int64": (-2 ** 63, 2 ** 63 - 1), "uint8": (0, 255), "uint16": (0, 65535), "uint32": (0, 2 ** 32 - 1), "uint64": (0, 2 ** 64 - 1)}
    for ty, (lo, hi) in sorted(rngs.items()):
        for v in (lo, lo + 1, -1, 0, 1, 15, 16, 17, hi - 1, hi):
            if lo <= v <= hi:
                cases.append((ty, str(v)))
        for _ in range(n):
            cases.append((ty, str(rng.range(lo, hi))))
    for s in ["", "a", "abc", "k-21", "zz_top", "0", "The_quick_brown_fox"]:
        cases.append(("string", s))
    for _ in range(2 * n):
        cases.append(("string", "".join(rng.choice("abcdefghijklmnopqrstuvwxyz0123456789_-") for _ in range(rng.range(1, 12)))))
    return cases


def shard_model_line(ty, val, count=16):
    if ty == "string":
        return "csh string %d %s" % (count, val.encode().hex())
    if ty == "uint64":
        return "csh uint64 %d u%s" % (count, val)
    return "csh %s %d %s" % (ty, count, val)
