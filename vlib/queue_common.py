# queue_common.py -- shared by C01 (linearizable FIFO) and C02 (lock-free) checks of
# loom.Queue. Vehicle: cooperative scheduler over the verif yield points (DESIGN.md 4.2).
import itertools
import re

from . import common

PROOFS = ["proofs/QueueProofs.v", "models/Queue.v"]


def build_coop(chk):
    try:
        return common.build_go("./cmd/coop", tags="verif")
    except common.BuildError as e:
        chk.infra_errors.append("coop harness does not build against /repo working tree: " + str(e)[-1500:])
        return None


def prog_str(progs):
    return ";".join(".".join(p) for p in progs)


def case_line(tag, pre, progs, sched, extra=""):
    return "%s pre=%s progs=%s sched=%s%s" % (tag, ",".join(map(str, pre)), prog_str(progs), ",".join(map(str, sched)), extra)


def programs_small():
    """2 threads x 1 op, every combination, prefilled 0..2 (exhaustive interleavings)."""
    out = []
    for pre in ([], [1], [1, 2]):
        for a, b in itertools.product(["P", "O"], repeat=2):
            v = 10
            progs = []
            for o in (a, b):
                if o == "P":
                    v += 1
                    progs.append(["P%d" % v])
                else:
                    progs.append(["O"])
            out.append((pre, progs))
    return out


def rand_prog(rng, nops, nextv):
    p = []
    for _ in range(nops):
        if rng.chance(1, 2):
            nextv[0] += 1
            p.append("P%d" % nextv[0])
        else:
            p.append("O")
    return p


def programs_medium(rng, count, shapes):
    out = []
    for _ in range(count):
        nt, nops = rng.choice(shapes)
        nextv = [100]
        pre = [rng.range(1, 9) + 20 * k for k in range(rng.choice([0, 0, 1, 2, 3]))]
        progs = [rand_prog(rng, rng.range(1, nops), nextv) for _ in range(nt)]
        out.append((pre, progs))
    return out


def enum_schedules(pre, progs, mode, mx):
    line = "c01enum mode=%s max=%d pre=%s progs=%s" % (mode, mx, ",".join(map(str, pre)), prog_str(progs))
    out = common.run_model([line])[0]
    m = re.match(r"states=(\d+) scheds=(.*)$", out)
    if not m:
        raise RuntimeError("c01enum failed: " + out[:200])
    scheds = [[int(x) for x in s.split(",")] for s in m.group(2).split(";") if s]
    return int(m.group(1)), scheds


def random_schedule(rng, nthreads, length):
    """bursty random schedule (PCT flavour: a priority order with a few change points)."""
    sched = []
    prio = list(range(nthreads))
    rng.shuffle(prio)
    while len(sched) < length:
        burst = rng.choice([1, 1, 2, 3, 5, 8])
        t = prio[0] if rng.chance(2, 3) else rng.choice(prio)
        sched += [t] * burst
        if rng.chance(1, 3):
            rng.shuffle(prio)
    return sched[:length]


# ------------------------------------------------------------------ parsing a trace
def parse_out(line):
    """-> dict(steps=[ev], fin=[(tid,ev)], drain=[..]|None, solo=str|None, livelock=bool)"""
    if not line.startswith("steps="):
        return None
    d = dict(steps=[], fin=[], drain=None, solo=None, livelock="LIVELOCK" in line)
    for tok in line.split(" "):
        if tok.startswith("steps="):
            d["steps"] = [x for x in tok[6:].split(",") if x]
        elif tok.startswith("fin="):
            d["fin"] = [(int(x.split(":", 1)[0]), x.split(":", 1)[1]) for x in tok[4:].split(",") if x]
        elif tok.startswith("drain="):
            s = tok[6:].strip("[]")
            d["drain"] = [int(x) for x in s.split(",")] if s else []
        elif tok.startswith("solo="):
            d["solo"] = tok[5:]
    return d


def case_fields(case):
    m = dict(t.split("=", 1) for t in case.split()[1:])
    pre = [int(x) for x in m.get("pre", "").split(",") if x]
    progs = [[o for o in p.split(".") if o] for p in m.get("progs", "").split(";")]
    sched = [int(x) for x in m.get("sched", "").split(",") if x]
    return pre, progs, sched, m


def history(case, out):
    """Invoke/return history of the implementation: list of dict(tid, op, inv, ret, res)
    with inv/ret = global step indices (schedule steps, then completion steps)."""
    pre, progs, sched, m = case_fields(case)
    seq = list(zip(sched, out["steps"])) + out["fin"]
    nxt = [0] * len(progs)
    cur = [None] * len(progs)
    ops = []
    for idx, (tid, ev) in enumerate(seq):
        if tid >= len(progs) or ev in ("done", "blocked"):
            continue
        if cur[tid] is None:
            if nxt[tid] >= len(progs[tid]):
                continue
            cur[tid] = dict(tid=tid, op=progs[tid][nxt[tid]], inv=idx, ret=None, res=None)
            nxt[tid] += 1
            ops.append(cur[tid])
        if ev.startswith("r:"):
            cur[tid]["ret"] = idx
            cur[tid]["res"] = ev[2:]
            cur[tid] = None
        elif ev.startswith("panic"):
            cur[tid]["ret"] = idx
            cur[tid]["res"] = "PANIC"
            cur[tid] = None
    return pre, ops


def linearizable(pre, ops, drain):
    """Brute-force FIFO linearizability (Herlihy-Wing) of a complete history followed by the
    sequential drain. ops <= ~14."""
    n = len(ops)
    if any(o["ret"] is None for o in ops):
        return False, "operation did not return"
    if any(o["res"] == "PANIC" for o in ops):
        return False, "operation panicked"
    full = (1 << n) - 1
    seen = set()

    def ok_res(o, q):
        if o["op"] == "O":
            if o["res"] == "pop=nil":
                return (not q), q
            if not q or o["res"] != "pop=%d" % q[0]:
                return False, q
            return True, q[1:]
        return (o["res"] == "push"), q + (int(o["op"][1:]),)

    def go(done, q):
        if done == full:
            return list(q) == list(drain)
        key = (done, q)
        if key in seen:
            return False
        seen.add(key)
        # minimal ops: not done, and no other not-done op returned before its invocation
        pend = [i for i in range(n) if not done >> i & 1]
        for i in pend:
            if any(ops[j]["ret"] < ops[i]["inv"] for j in pend if j != i):
                continue
            good, q2 = ok_res(ops[i], q)
            if good and go(done | 1 << i, q2):
                return True
        return False

    return (True, "") if go(0, tuple(pre)) else (False, "no FIFO linearization of the observed history")


def monitor_c01(case, impl):
    out = parse_out(impl)
    if out is None:
        return ("crash", "no trace from the implementation: " + impl[:200])
    if out["livelock"] or out["drain"] is None:
        return ("livelock", "threads did not finish under round-robin completion")
    pre, ops = history(case, out)
    if len(ops) > 14:
        return None
    ok, why = linearizable(pre, ops, out["drain"])
    if not ok:
        return ("not-linearizable", why + ": history=" + "; ".join(
            "t%d %s [%s,%s] -> %s" % (o["tid"], o["op"], o["inv"], o["ret"], o["res"]) for o in ops) + " drain=%s" % out["drain"])
    return None


def monitor_c02(case, impl):
    out = parse_out(impl)
    if out is None:
        return ("crash", "no trace from the implementation: " + impl[:200])
    s = out["solo"]
    if s == "none":
        return ("solo-stuck", "operation running alone did not return within 64 of its own steps")
    if s not in (None, "idle") and int(s) > 16:
        return ("solo-bound", "operation running alone needed %s steps (> 16)" % s)
    return None
