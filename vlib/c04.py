# C04 -- cachex: concurrent Loads of a key share one load and agree on its result.
# Model: coq/models/Cache.v ; theorems: coq/props/C04.v ; vehicle: faketime trace validation
# + a real-time stress run checked by the monitors + pure shard-index differential.
import json

from . import common, pure
from . import cache_common as cc
from . import c04s
from .c05 import TRUSTED


def nontrivial(sc, log):
    # some Load obtained a Future that an earlier Load call had already obtained (sharing)
    ids = [log.ret[a][2] for a in log.load_order]
    return len(set(ids)) < len(ids)


def typed_twins(rng):
    """keys with the same number in different Go types (+ the string of it): distinct map keys, one shard"""
    n = rng.choice([5, 21, 0, 127])
    pool = [("int", str(n)), ("int64", str(n)), ("uint8", str(n)), ("string", str(n)), ("int16", str(n)), ("uint64", str(n))]
    rng.shuffle(pool)
    return pool


def gen(chk, binary, tier):
    rng = chk.rng
    quick = tier == "quick"
    n = 500 if quick else 4000
    streams = []
    kinds = ["L", "L", "L", "G", "g", "W", "w"]
    # (a) bursts of calls 1 ns apart around loader starts and completions
    a = [cc.base_script(rng, nacts=rng.range(3, 8), horizon_mult=6) for _ in range(n)]
    cc.refine_scripts(binary, a, [kinds, kinds], rng, adder=cc.add_burst_probes)
    streams.append(("bursts-around-completions", a))
    # (b) several calls at one virtual instant (every order of the group is tried in the model)
    b = [cc.base_script(rng, nacts=rng.range(2, 6), horizon_mult=4) for _ in range(n)]
    cc.refine_scripts(binary, b, [["L", "L", "G", "S"]], rng,
                      adder=lambda r, sc, log, k: cc.add_burst_probes(r, sc, log, ["L", "L", "G"], same_instant=True))
    streams.append(("same-instant-calls", b))
    # (c) same number, different Go key types: distinct entries in one shard
    c = []
    for _ in range(n // 2):
        sc = cc.base_script(rng, nkeys=rng.range(2, 4), nacts=rng.range(4, 10), horizon_mult=5)
        sc.keys = typed_twins(rng)[:len(sc.keys)]
        c.append(sc)
    cc.refine_scripts(binary, c, [kinds], rng, adder=cc.add_burst_probes)
    streams.append(("typed-twin-keys", c))
    # (d) several caches in ONE process, created one after the other with different option lists (options equal to the
    #     defaults omitted), running concurrently, often over the very same typed keys: each must behave as a lone cache
    #     with the configuration copt_create gives for its own list (cache_is_function_of_own_options_and_events)
    d = cc.multi_scripts(rng, n // 4)
    cc.refine_scripts(binary, d, [kinds], rng, adder=cc.add_burst_probes)
    streams.append(("several-caches-one-process", d))
    return streams


def stress_scripts(rng, n):
    out = []
    for _ in range(n):
        nk = rng.range(1, 3)
        sc = cc.Script(5_000_000_000, 5_000_000_000, rng.choice([1, 2, 4]), cc.BIG_JCS, cc.pick_keys(rng, nk),
                       [[(rng.choice([20_000, 100_000, 300_000]), 1, rng.choice([0, 0, 5]))] for _ in range(nk)])
        for i in range(rng.range(8, 24)):
            sc.add(rng.choice([0, 0, 0, 1000, 30_000, 150_000]), "L", rng.below(nk))
        for i in range(rng.range(0, 6)):
            sc.add(rng.choice([0, 1000, 30_000, 400_000]), rng.choice(["G", "W"]), rng.below(nk))
        sc.meta["end"] = 1_500_000
        sc.meta["wd"] = 60_000_000_000
        sc.trials = 3
        out.append(sc)
    return out


def monitor_stress(sc, log):
    """real-time run: all Loads of a key fall into the fresh window of its single load and no
    Set occurs, so exactly one loader invocation per key and one Future / one pair for all callers"""
    m = cc.monitor_c04(sc, log)
    if m:
        return m
    for k in range(len(sc.keys)):
        loads = [a for a, act in enumerate(sc.acts) if act[1] == "L" and act[2] == k]
        inv = [s for s in log.starts if s[0] == k]
        if loads and len(inv) != 1:
            return ("duplicate-load", "real-time stress: %d concurrent Loads of key %d caused %d loader invocations (want exactly 1)" % (len(loads), k, len(inv)))
        ids = set(log.ret[a][2] for a in loads)
        if len(ids) > 1:
            return ("duplicate-load", "real-time stress: concurrent Loads of key %d obtained %d different Futures" % (k, len(ids)))
    return None


def run_stress(chk, n):
    try:
        rt = common.build_go("./cmd/ftcache", tags="verif", out_name="ftcache-rt")
    except common.BuildError as e:
        chk.infra_errors.append("ftcache (real time) does not build: " + str(e)[-800:])
        return
    scripts = stress_scripts(chk.rng, n)
    lines = [s.line() for s in scripts]
    try:
        outs = common.run_impl(rt, lines, timeout=600)
    except common.ImplCrash as e:
        chk.infra_errors.append("real-time stress crashed or timed out: " + str(e)[-800:])
        return
    for sc, line, out in zip(scripts, lines, outs):
        if out.startswith("PANIC") or out == "BADCASE":
            chk.monitor_fail("panic", line, out[:500], out[:300])
            continue
        for log in cc.split_trials(out):
            chk.count_case("real-time-stress(monitors only)", line, True)
            mf = monitor_stress(sc, log)
            if mf:
                chk.monitor_fail(mf[0], line, log.text[:3000], mf[1])


def run_shards(chk, binary):
    cases = cc.shard_cases(chk.rng, 20 if chk.tier == "quick" else 400)
    counts = [0, 1, 2, 4, 64, 1024]
    ilines, keys = [], []
    for i, (ty, val) in enumerate(cases):
        c = counts[i % len(counts)]
        ilines.append("fsh %d %s %s" % (c, ty, val.encode().hex() if ty == "string" else val))
        keys.append((ty, val))
    impl = cc.run_ft(binary, ilines, chunk=100000)
    mlines = []
    for (ty, val), o in zip(keys, impl):
        cnt = int(o.split()[1]) if len(o.split()) == 2 else 16
        mlines.append(cc.shard_model_line(ty, val, cnt))
    model = common.run_model(mlines)
    for il, ml, i, m in zip(ilines, mlines, impl, model):
        chk.count_case("shard-index", il, True)
        chk.cov["disagreements_checked"] += 1
        p = i.split()
        if len(p) != 2:
            chk.monitor_fail("shard-panic", il, i, "GetShardingIndex failed: " + i[:200])
            continue
        if not (0 <= int(p[0]) < int(p[1])):
            chk.monitor_fail("shard-range", il, i, "shard index %s out of range [0,%s)" % (p[0], p[1]))
        if p[0] != m:
            chk.diverge("shard-index", il, m, i, "shard index differs from c_shard_index")
        else:
            chk.cov["traces_validated_against_impl"] += 1


def run(chk):
    chk.trusted = common.BASE_TRUSTED + TRUSTED
    chk.assumptions = ["each Load/Get2/Set is atomic at its shard-lock instant (modelled; exercised by the replay and the real-time stress)",
                       "time steps are non-negative (monotonic clock)"]
    chk.cov["rule"] = ("case = timed script executed on the real cachex under faketime (see C05) with bursts of Load/Get2/Get1/Set/Future.Get calls 1 ns apart "
                       "and at one instant around loader starts/completions, keys of mixed Go types incl. equal numbers in different types; the log is replayed by "
                       "the extracted Cache.v (every order of same-instant events of one key is a candidate history); compared: identity class of every returned "
                       "Future, job created <=> loader invocation, pair + resolution instant of every Get. Plus: shard index of typed keys vs c_shard_index; "
                       "real-time (no faketime) stress of 8-24 concurrent Loads checked by the monitors. Stream cache-dropped-while-loads-outstanding: the script drops its handle after a burst of Loads (and goes on loading through the inner object, early and after every worker has left): one loader invocation per Load, one pair per Future; when the batch's process dies each script is re-run in a process of its own and the one whose process dies is the failing input. non-trivial = some Load shares a Future with an earlier Load")
    chk.run_proof_gate(cc.PROOFS + c04s.PROOFS)
    all_corpus = pure.corpus_cases("C04")
    try:
        c04s.run(chk, [l for l in all_corpus if l.startswith("c04s ")])
    except Exception as ex:
        chk.infra_errors.append("call-steps stream failed: %r" % (ex,))
    binary = cc.build_ft(chk)
    if binary:
        try:
            corpus = [cc.parse_line(l) for l in all_corpus if l.startswith(("ftc", "ftm"))]
            cc.check_batch(chk, binary, "corpus", corpus, cc.monitor_c04, nontrivial=nontrivial)
            sample_lines = []
            for name, scripts in gen(chk, binary, chk.tier):
                res = cc.check_batch(chk, binary, name, scripts, cc.monitor_c04, nontrivial=nontrivial)
                if name == "several-caches-one-process":
                    chk.cov["caches_in_multi_cache_processes"] = len(res)
                    chk.cov["caches_created_without_WithExpire"] = chk.cov.get("caches_created_without_WithExpire", 0) + sum(
                        1 for sc, _ in res if not any(o.startswith("E") for o in sc.opt_tokens()))
                for sc, logs in res:
                    if logs and len(sample_lines) < 80 and not logs[0].hang:
                        variants, _, _ = cc.build_histories(sc, logs[0])
                        if variants and len(variants[0][0]) < 300:
                            sample_lines.append(cc.model_line(sc, variants[0][0]))
            try:
                mo = common.run_model(sample_lines)
                chk.cov["vm_compute_crosschecked"] = cc.coq_crosscheck(chk, sample_lines, mo)
            except Exception as ex:
                chk.infra_errors.append("vm_compute cross-check failed: %r" % (ex,))
            # the owner drops the cache while Loads are outstanding (and goes on loading through the inner object): the
            # finalizer closes the cache, senders and leaving workers run the loaders themselves -- still one invocation per
            # Load, one pair per Future (generator shared with C06, which checks liveness on it)
            from . import c06
            quick = chk.tier == "quick"
            cc.run_drop_stream(chk, binary, "cache-dropped-while-loads-outstanding",
                               c06.drop_scripts(chk.rng, 24 if quick else 300, trials=4 if quick else 10), cc.monitor_drop_c04,
                               "the script drops its last reference to the cache after a burst of Loads: ")
            run_shards(chk, binary)
            run_stress(chk, 100 if chk.tier == "quick" else 1500)
        except common.ImplCrash as e:
            chk.infra_errors.append("ftcache crashed or timed out: " + str(e)[-1200:])
    chk.finish(search=search)


def search(chk):
    binary = cc.build_ft(chk)
    if not binary:
        return
    chk.rng = chk.rng.fork()
    for name, scripts in gen(chk, binary, "quick"):
        cc.expected_configs(chk, scripts)
        cc.monitor_items(chk, binary, scripts, cc.monitor_c04)
    if not chk.monitor_failures:
        run_stress(chk, 300)


def replay(chk, path):
    rep = json.load(open(path))
    binary = cc.build_ft(chk)
    cases = [x["case"] for x in rep.get("failing_inputs", []) + rep.get("divergences", []) if isinstance(x.get("case"), str) and x["case"].startswith(("ftc", "ftm"))]
    scripts = [cc.parse_line(c) for c in cases]
    cc.check_batch(chk, binary, "replay", scripts, cc.monitor_c04)
    bad = len(chk.divergences) + len(chk.monitor_failures)
    for d in chk.divergences:
        print("divergence: %s\n  %s" % (d["case"][:400], d["note"]))
    for m in chk.monitor_failures:
        print("failing-input[%s]: %s\n  %s" % (m["key"], m["case"][:400], m["what"]))
    print("replayed %d case(s), %d still failing" % (len(cases), bad))
    raise SystemExit(1 if bad else 0)
