# C17, stream "observers-stepped": loom.Mutex.Count / IsLocked / IsWoken / IsStarving as stepped calls.
# Model: coq/models/MutexObs.v (mx_obs_run); theorems c17_observers_single_snapshot,
# c17_observers_report_a_real_state, c17_count_two_loads_refuted (coq/props/C17.v).
# Case: c17k op=<count|locked|woken|starving> w=<w1>,<w2>,...   The harness parks the call before every
# load of the state word (yield sites 23/24), writes the next word, and reports how many loads the call
# performed.  Added after the seeded change C17-count-two-loads (Count re-using IsLocked) was missed by
# the static-word stream c17c.
import re

OPS = ["count", "locked", "woken", "starving"]


def spec(op, w):
    if op == "count":
        return str((w >> 3) + (w & 1))
    bit = {"locked": 1, "woken": 2, "starving": 4}[op]
    return "true" if w & bit else "false"


def gen(chk, tier, words):
    """words: the boundary words of the c17c/c17t streams"""
    rng = chk.rng
    ws = sorted(set(words))
    cases = []
    # every ordered pair of boundary words for Count, a diagonal + sample for the flag readers
    for a in ws:
        for b in ws:
            cases.append("c17k op=count w=%d,%d" % (a, b))
    for op in OPS[1:]:
        for a in ws:
            cases.append("c17k op=%s w=%d" % (op, a))
            b = ws[rng.below(len(ws))]
            cases.append("c17k op=%s w=%d,%d" % (op, a, b))
    # hand-over shapes: the same total spread differently over (waiters, locked) in consecutive words
    for n in range(0, 6):
        for f1 in range(8):
            for f2 in range(8):
                w1 = (n << 3) | f1
                w2 = (max(n - 1, 0) << 3) | f2
                cases.append("c17k op=count w=%d,%d,%d" % (w1, w2, w1))
    for _ in range(300 if tier == "quick" else 20000):
        k = 1 + rng.below(4)
        cases.append("c17k op=%s w=%s" % (OPS[rng.below(4)], ",".join(str(rng.below(1 << 31)) for _ in range(k))))
    return [("observers-stepped", cases)]


def parse(line):
    m = re.match(r"loads=(\d+) sites=([\d,]*) ret=r:(\S+)$", line.strip())
    if not m:
        return None
    return int(m.group(1)), m.group(2), m.group(3)


def fields(case):
    m = dict(t.split("=", 1) for t in case.split()[1:])
    return m["op"], [int(x) for x in m["w"].split(",")]


def compare(case, model, impl):
    if model == impl:
        return None
    pm, pi = parse(model), parse(impl)
    if pi is None:
        return "implementation produced no result (%s)" % impl[:120]
    if pm is None:
        return "model produced no result (%s)" % model[:120]
    if pm[0] != pi[0] or pm[1] != pi[1]:
        return "the call performed %d load(s) of the state word at sites [%s]; model: %d at [%s]" % (pi[0], pi[1], pm[0], pm[1])
    return "returned %s, model %s" % (pi[2], pm[2])


def nontrivial(case, model):
    op, ws = fields(case)
    return len(set(ws)) > 1 or ws[0] >= 8


def monitor(case, impl):
    """the property's own words: the value reported is holder+waiters (resp. the flag) of a state word the
    mutex really had during the call, i.e. of one of the words present at the loads the call performed"""
    op, ws = fields(case)
    p = parse(impl)
    if p is None:
        return ("observer-crash", "%s on words %s: %s" % (op, ws, impl[:200]))
    loads, _, ret = p
    seen = [ws[min(k, len(ws) - 1)] for k in range(max(loads, 1))]
    allowed = {spec(op, w) for w in seen}
    if ret not in allowed:
        name = {"count": "Count()", "locked": "IsLocked()", "woken": "IsWoken()", "starving": "IsStarving()"}[op]
        return ("observer-untruthful",
                "%s returned %s while the state word went through %s during the call (%d loads): no word the mutex had "
                "gives that answer (%s)" % (name, ret, seen, loads, ", ".join("%d -> %s" % (w, spec(op, w)) for w in seen)))
    return None
