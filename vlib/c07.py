# C07 -- ants: every accepted task completes once with a result matching its attempts.
# Model: coq/models/Ants.v ; theorems: coq/props/C07.v ; vehicle: faketime trace validation.
import json

from . import common
from . import ants_common as ac
from . import c07s
from . import ants_mp as mp

PROP = "C07"
KINDS_QUICK = [("retry-outcomes", "retry", 2400), ("burst-discard", "burst", 1200), ("deadline-ties(allowed-set)", "ties", 1200),
               ("non-cooperative", "stubborn", 400), ("cancelled-dispatcher-context", "pcancel", 1200),
               ("retry-until-success(huge R)", "hugeR", 200), ("sub-millisecond-timeouts", "tinyT", 300),
               # several pools in one process, literal option lists (defaults omitted, non-positive values): ants_mp.py
               ("multi-pool-option-lists", "mp:mixed", 600),
               # the pool is dropped and collected while its inner goroutines are all busy with overrunning handlers
               ("pool-dropped-while-inner-goroutines-busy", "mp:dropbusy", 120)]


def monitors(r):
    return ac.monitor_c07(r.tasks, r.obs)


def process(chk, stream, results):
    for r in results:
        chk.count_case(stream, r.line, ac.nontrivial(r))
        chk.cov["programs"] += 1
        for key, what in r.problems:
            chk.monitor_fail(key, r.line, r.impl[:2000], what)
        if r.problems:
            continue
        if r.other_ties:
            chk.cov["accidental_ties_not_compared"] = chk.cov.get("accidental_ties_not_compared", 0) + 1
        else:
            chk.cov["disagreements_checked"] += 1
            if r.note is not None:
                chk.diverge(stream, r.line, (r.model_out or "")[:1500], r.impl[:1500], r.note)
            else:
                chk.cov["traces_validated_against_impl"] += 1
                if r.hd_ties:
                    chk.cov["tie_cases_allowed_set"] = chk.cov.get("tie_cases_allowed_set", 0) + 1
        for key, what in mp.tag(r, monitors(r)):
            chk.monitor_fail(key, r.line, r.impl[:2000], what)
    if results:
        r = results[0]
        chk.sample(dict(stream=stream, case=r.line[:400], impl=r.impl[:400], model=(r.model_out or "")[:400]), limit=10)


def gen_lines(rng, kind, n):
    if kind == "mp:dropbusy":
        return [mp.script_line(*mp.gen_drop_busy(rng)) for _ in range(n)]
    if kind.startswith("mp:"):   # several pools per process, literal option lists (ants_mp.py)
        return [mp.script_line(*mp.gen_script(rng, kind[3:])) for _ in range(n)]
    return [ac.script_line(*ac.gen_script(rng, kind)) for _ in range(n)]


def run_batch(chk, binary, kind, lines):
    return mp.run_cases(chk, binary, lines) if kind.startswith("mp:") else ac.run_cases(chk, binary, lines)


def run_streams(chk, binary, kinds, scale):
    allres = []
    corpus = ac.corpus_lines(PROP)
    if corpus:
        res = ac.run_cases(chk, binary, corpus)
        process(chk, "corpus", res)
        allres += res
    corpus = mp.corpus_lines(PROP)
    if corpus:
        res = mp.run_cases(chk, binary, corpus)
        process(chk, "corpus", res)
        allres += res
    for stream, kind, n in kinds:
        lines = gen_lines(chk.rng, kind, n * scale)
        for i in range(0, len(lines), 400):   # a fresh process every few hundred scenarios
            res = run_batch(chk, binary, kind, lines[i:i + 400])
            process(chk, stream, res)
            allres += res
    return allres


def setup(chk):
    chk.trusted = common.BASE_TRUSTED + ac.TRUSTED
    chk.assumptions = ["effective task options: timeout > 0, retry > 0 (createTaskOptions ignores other values)",
                       "handlers and the error callback do not panic; closeChan stays open while tasks are pending (the model has no close event): since fix 83eb87d a task keeps its pool alive, which the multi-pool scripts exercise by dropping the pool handle with tasks outstanding and forcing GCs",
                       "instantaneous onError callback (the model's decision, onError and wg.Done are one step)",
                       "WithContextBuilder: the builder returns ONE cancellable parent context shared by all dispatcher goroutines, without a deadline of its own "
                       "(stream cancelled-dispatcher-context); 'timed out' is read as 'the attempt's context was done' (own deadline or cancelled parent): "
                       "the code stores context.DeadlineExceeded in both cases"]
    chk.cov["rule"] = ("case = timed script (pool size 1-4; tasks with T in the ms range, R in 1..4, discardOnBusy on/off, error callback on/off; "
                       "per-attempt handler behaviour: duration T-1ns / T+1ns / around T/2, T/3, 2T / tiny, honours or ignores ctx, value/error) executed on the real pool "
                       "under the virtual clock; the log is converted to the model's event history and replayed by the extracted model with maximal progress: every event "
                       "must be accepted at its stamp and #invocations, deciding attempt, Get2 pair and unblock time, onError calls, handler return pairs/times, discard "
                       "decisions, pickup time and max running handlers must agree. Every task is also read through Get1() (own goroutine started right after Send returned) and Err() (right after Get2 returned): both are replayed as reads of the model (must be enabled at their stamp) and compared on their component; monitors get1-unblock / get1-value / err-after-get2. Exact ties duration = T are compared against the set of outcomes the model allows for "
                       "both tie orders. Stream cancelled-dispatcher-context: the pool is built with WithContextBuilder(parent) and parent is cancelled at a scripted "
                       "virtual instant (before the first Send, during the first attempt, anywhere, never) or by a handler right before it returns; the cancellation is the "
                       "model's input event AnParentCancel (a script cancellation at the same instant as another timed action is an accidental tie: monitors only). Streams multi-pool-option-lists: ONE process creates 2-3 pools one after the other (some later than the first Sends; at least one bigger than 1 and one of default size, any order) and sends bursts to all of them; every NewPool / Send gets a LITERAL option list (defaults mostly omitted, non-positive WithSize/WithRetry/WithTimeout values, repeated options, WithError(nil), WithContextBuilder(nil / builder tagged with an id)); the model computes each pool's and each task's configuration from its own list (apo_create / ato_create) and replays every pool's part of the log with it; the raw-log monitors use the configuration computed from the documented meaning of the options (ants_mp.eff_pool / eff_task), independent of the model; a third of these scripts drop the harness's only reference to one pool right after the last Send to it (tasks still queued or running) and force two GCs -- every accepted task must still complete with its handler's result; half of these scripts force runtime.GC() twice at 1-2 scripted instants while the pools are referenced and used afterwards; handler errors include (as a handler's OWN error before the deadline) the discard error obtained from another busy pool, context.DeadlineExceeded, context.Canceled and a wrapped discard error; Stream pool-dropped-while-inner-goroutines-busy: N handlers that ignore ctx overrun their deadline on all N inner goroutines, later tasks (R = 1 or 2) are handed over behind them, the harness drops the pool and collects in that window and again while the hogs run, right after they end and later: every accepted task still runs its handler and completes with its result; one evaluation = one (script, pool). non-trivial = some task retried, failed, timed out or was discarded; distinct = distinct script")


def run(chk):
    setup(chk)
    chk.run_proof_gate(ac.PROOFS + c07s.PROOFS + ["proofs/AntsGettersProofs.v", "models/AntsGetters.v", "proofs/AntsDropProofs.v", "models/AntsDrop.v"])
    binary = ac.build(chk)
    if binary:
        try:
            c07s.run(chk, c07s.corpus_lines())   # stream dispatch-steps (step model AntsSteps.v)
            scale = 1 if chk.tier == "quick" else 12
            res = run_streams(chk, binary, KINDS_QUICK, scale)
            try:
                chk.cov["vm_compute_crosschecked"] = ac.coq_crosscheck(chk, res, limit=40 if chk.tier == "quick" else 200)
                chk.cov["vm_compute_crosschecked_option_lists"] = mp.coq_crosscheck(chk, res, limit=40 if chk.tier == "quick" else 200)
            except Exception as ex:
                chk.infra_errors.append("vm_compute cross-check failed: %r" % (ex,))
            if chk.tier == "thorough":
                ac.realtime_stress(chk, PROP)
        except common.ImplCrash as e:
            chk.infra_errors.append("ftants harness crashed (a panic escaping the pool, e.g. a negative WaitGroup counter, or a deadlock): " + str(e)[-1500:])
    chk.finish(search=search)


def search(chk):
    """correspondence or proof broken: look for a script on which the implementation itself violates C07"""
    binary = ac.build(chk)
    if not binary:
        return
    rng = chk.rng.fork()
    for stream, kind, n in KINDS_QUICK:
        lines = gen_lines(rng, kind, 3 * n)
        for i in range(0, len(lines), 400):
            try:
                impl = common.run_impl(binary, lines[i:i + 400], env=ac.FT_ENV)
            except common.ImplCrash as e:
                chk.monitor_fail("crash", "one of %d scripts of stream %s" % (len(lines[i:i + 400]), stream), str(e)[-800:], "the pool crashed or deadlocked")
                return
            for line, out in zip(lines[i:i + 400], impl):
                if kind.startswith("mp:"):
                    for key, what in mp.monitor_only(line, out, ac.monitor_c07):
                        chk.monitor_fail(key, line, out[:2000], what)
                    continue
                N, tasks = ac.parse_script(line)
                obs = ac.Obs(out, len(tasks))
                probs = ac.structural_problems(tasks, obs)
                for key, what in probs or ac.monitor_c07(tasks, obs):
                    chk.monitor_fail(key, line, out[:2000], what)


def replay(chk, path):
    rep = json.load(open(path))
    binary = ac.build(chk)
    allc = [x["case"] for x in rep.get("failing_inputs", []) + rep.get("divergences", []) if isinstance(x.get("case"), str)]
    cases = [c for c in allc if c.startswith("ants ")] + [c for c in allc if c.startswith("antsmp ")]
    res = ac.run_cases(chk, binary, [c for c in allc if c.startswith("ants ")]) + mp.run_cases(chk, binary, [c for c in allc if c.startswith("antsmp ")])
    bad = 0
    for r in res:
        mons = r.problems + (mp.tag(r, monitors(r)) if not r.problems else [])
        print("case=%s\n  impl=%s\n  model=%s\n  monitors=%s compare=%s" % (r.line, r.impl[:1500], (r.model_out or "")[:800], mons, r.note))
        if mons or r.note:
            bad += 1
    print("replayed %d case(s), %d still failing" % (len(cases), bad))
    raise SystemExit(1 if bad else 0)
