# C04 stream "call-steps": the real cachex calls executed one shared access at a time under the
# mutex-aware cooperative scheduler (harness/cmd/coop/c04s.go, build tags "verif cachexhooks",
# yield points of tools/hooks/cachex-verif-hooks.patch) against the small-step machine
# coq/models/CacheSteps.v (ocaml/drv_c04s.ml).  Skipped (recorded, no violation) when the tree
# under test has no cachex hooks.
import os
import re

from . import common

PROOFS = ["proofs/CacheStepsProofs.v", "models/CacheSteps.v",
          "proofs/CacheStepsFullProofs.v", "models/CacheStepsFull.v"]

# set-ups of key 0 (E = 1 h, error E = 20 min; ages far from every boundary)
INITS = {
    "absent": "",
    "loading": "L0",
    "loading-stale-pred": "L0,F:5:0,B0:5400,L0",
    "fresh": "L0,F:5:0,B0:60",
    "expired": "L0,F:5:0,B0:5400",
    "rotted": "L0,F:5:0,B0:10800",
    "err-fresh": "L0,F:0:3,B0:60",
    "err-expired": "L0,F:0:3,B0:1800",
}
OPS = ["L0", "G0", "S0:3:0", "F:9:0", "Z"]
COVERED = ("L", "G", "F")     # calls covered by the refinement argument (no Set, no sweep)


def hooks_present():
    return os.path.exists(os.path.join(common.REPO, "cachex", "verif_on.go"))


def build(chk):
    try:
        return common.build_go("./cmd/coop", tags="verif cachexhooks", out_name="coop-c04s")
    except common.BuildError as e:
        chk.infra_errors.append("coop harness (cachexhooks) does not build against the tree under test: " + str(e)[-1500:])
        return None


def case_line(init, progs, sched, keys=1):
    return "c04s keys=%d init=%s progs=%s sched=%s" % (keys, init, ";".join(progs), sched)


def enum_many(items, mode, mx, tick=""):
    """items: [(init, progs)] -> [(states, [sched strings])]"""
    lines = ["c04senum mode=%s max=%d tick=%s init=%s progs=%s" % (mode, mx, tick, i, ";".join(p)) for i, p in items]
    outs = common.run_model(lines) if lines else []
    res = []
    for o in outs:
        m = re.match(r"states=(\d+) scheds=(.*)$", o)
        if not m:
            raise RuntimeError("c04senum failed: " + o[:200])
        res.append((int(m.group(1)), [s for s in m.group(2).split(";") if s]))
    return res


def spread(xs, n):
    """n elements of xs spread over the whole list (deterministic)"""
    if len(xs) <= n:
        return xs
    step = len(xs) / float(n)
    return [xs[int(i * step)] for i in range(n)]


def random_schedule(rng, nthreads, length, ticks):
    sched = []
    prio = list(range(nthreads))
    rng.shuffle(prio)
    while len(sched) < length:
        burst = rng.choice([1, 1, 2, 3, 5])
        t = prio[0] if rng.chance(2, 3) else rng.choice(prio)
        sched += [str(t)] * burst
        if ticks and rng.chance(1, 6):
            sched.append("t2700")
        if rng.chance(1, 3):
            rng.shuffle(prio)
    return ",".join(sched[:length])


def gen(chk, tier, light=False):
    rng = chk.rng
    quick = tier == "quick"
    streams = []
    # (a) every interleaving (capped per program pair, spread) of 2 threads x 1 call, all set-ups
    items = [(init, [a, b]) for init in INITS.values() for i, a in enumerate(OPS) for b in OPS[i:]]
    cap = 150 if quick else 4000
    ex = []
    for (init, progs), (_, scheds) in zip(items, enum_many(items, "all", 20000 if quick else 200000)):
        ex += [case_line(init, progs, s) for s in spread(scheds, cap)]
    streams.append(("call-steps/interleavings-2x1", ex))
    # (b) the same with clock ticks of 45 min between steps (calls covered by the refinement argument)
    cov = ["L0", "G0", "F:9:0"]
    items = [(init, [a, b]) for init in INITS.values() for i, a in enumerate(cov) for b in cov[i:]]
    capt = (25 if light else 60) if quick else 3000
    tk = []
    for (init, progs), (_, scheds) in zip(items, enum_many(items, "all", 20000 if quick else 300000, tick="2700:3")):
        tk += [case_line(init, progs, s) for s in spread(scheds, capt)]
    streams.append(("call-steps/interleavings-2x1-ticks", tk))
    # (c) one schedule per (reachable state, thread) edge incl. disabled steps, 3 threads
    triples = [("loading-stale-pred", ["G0", "S0:3:0", "F:9:0"]), ("loading-stale-pred", ["L0", "G0", "F:9:0"]),
               ("expired", ["L0", "L0", "G0"]), ("loading", ["G0", "F:9:0", "L0"]), ("rotted", ["L0", "Z", "G0"]),
               ("absent", ["L0", "L0", "F:9:0"]), ("fresh", ["S0:3:0", "G0", "Z"]), ("err-expired", ["L0", "G0", "F:7:0"])]
    for _ in range(2 if quick else 40):
        triples.append((rng.choice(list(INITS)), [rng.choice(OPS) for _ in range(3)]))
    items = [(INITS[i], p) for i, p in triples]
    ed = []
    nst = 0
    for (init, progs), (n, scheds) in zip(items, enum_many(items, "edges", 700 if quick else 30000)):
        nst += n
        ed += [case_line(init, progs, s) for s in scheds]
    streams.append(("call-steps/state-edge-cover-3", ed))
    chk.cov["call_steps_states"] = nst
    # (d) random bursty schedules with ticks, 4 threads x 1-2 calls, 1-2 keys
    rd = []
    for _ in range(600 if quick else 40000):
        keys = rng.choice([1, 1, 2])
        ops = ["L0", "G0", "S0:3:0", "F:9:0", "L0", "G0"] + (["L1", "G1", "S1:4:2"] if keys == 2 else ["Z"])
        progs = [".".join(rng.choice(ops) for _ in range(rng.range(1, 2))) for _ in range(4)]
        init = rng.choice(list(INITS.values()))
        rd.append(case_line(init, progs, random_schedule(rng, 4, rng.range(10, 60), ticks=True), keys=keys))
    streams.append(("call-steps/random-4-ticks", rd))
    return streams


def split_model(m):
    parts = m.split(" | ")
    return parts[0], (parts[1] if len(parts) > 1 else "")


def compare(case, model, impl):
    mt, _ = split_model(model)
    if mt == impl:
        return None
    if not mt.startswith("steps="):
        return "model produced no trace (%s)" % model[:200]
    if not impl.startswith("steps="):
        return "implementation produced no trace (%s)" % impl[:200]
    a = mt.split(" ")
    b = impl.split(" ")
    sa, sb = a[0][6:].split(";"), b[0][6:].split(";")
    for k, (x, y) in enumerate(zip(sa, sb)):
        if x != y:
            return "step %d differs: model %s, implementation %s" % (k, x, y)
    if len(a) > 1 and len(b) > 1 and a[1] != b[1]:
        fa, fb = a[1][4:].split(";"), b[1][4:].split(";")
        for k, (x, y) in enumerate(zip(fa, fb)):
            if x != y:
                return "completion step %d differs: model %s, implementation %s" % (k, x, y)
        return "completion phase differs in length"
    return "end state differs: model %s, implementation %s" % (a[-1], b[-1])


def prog_ops(case):
    m = dict(t.split("=", 1) for t in case.split()[1:] if "=" in t)
    return [o for p in m.get("progs", "").split(";") for o in p.split(".") if o], m


def monitor(case, impl):
    """property text on the implementation's trace alone: never two loads of one key in flight
    unless a Set displaced one (single flight), no panic / hang / unknown site"""
    if not impl.startswith("steps="):
        return ("crash", "no trace from the implementation: " + impl[:200])
    if " HANG" in impl or "LIVELOCK" in impl:
        return ("hang", "a managed goroutine blocked outside the scheduler's control")
    ops, m = prog_ops(case)
    if "panic:" in impl:
        return ("panic", "a call panicked")
    if "y?" in impl:
        return ("unknown-site", "unknown yield site")
    if m.get("keys", "1") == "1" and not any(o[0] == "S" for o in ops) and "S" not in m.get("init", ""):
        toks = impl.split(" ")
        steps = toks[0][6:].split(";") + [x.split(":", 1)[1] for x in (toks[1][4:].split(";") if len(toks) > 1 else []) if ":" in x]
        for k, o in enumerate(steps):
            parts = o.rsplit("/", 1)
            if len(parts) == 2 and parts[1]:
                loading = sum(1 for f in parts[1].split(",") if f.startswith("0"))
                if loading > 1:
                    return ("duplicate-load", "step %d: %d loads of one key in flight without a Set (%s)" % (k, loading, o))
    return None


E_NORMAL, E_ERROR = 3600, 1200


def monitor_miss(case, impl):
    """C05 on the implementation's trace alone: Get2 must not answer (nil, nil) at once when at
    EVERY instant of the call the key's entry was servable (loading, or complete and less than 2E
    old).  Ages are upper bounds (a result completed during the run is taken to be stamped when its
    worker's call began), so a report is never due to the approximation."""
    if not impl.startswith("steps="):
        return None
    ops, m = prog_ops(case)
    if m.get("keys", "1") != "1":
        return None
    progs = [[o for o in p.split(".") if o] for p in m.get("progs", "").split(";")]
    clock = 0
    stamp, err = {}, {}          # future id -> lower bound of its stamp, error code
    nfut = 0
    queue = []
    # set-up
    for o in [x for x in m.get("init", "").split(",") if x]:
        if o[0] == "L":
            pass
        elif o[0] == "F":
            _, v, e = o.split(":")
            err["init%d" % len(err)] = int(e)
        elif o[0] == "B":
            f, age = o[1:].split(":")
            stamp[int(f)] = stamp.get(int(f), 0) - int(age)
    # futures completed in the set-up: first observation tells which are done; their error codes in order
    toks = impl.split(" ")
    steps = [x for x in toks[0][6:].split(";") if x]
    sched = [x for x in m.get("sched", "").split(",") if x]
    fin = [x for x in (toks[1][4:].split(";") if len(toks) > 1 else []) if x]
    seq = list(zip(sched, steps)) + [tuple(x.split(":", 1)) for x in fin]
    init_errs = [err[k] for k in sorted(err, key=lambda z: int(z[4:]))]
    err = {}
    pcidx = [0] * len(progs)
    cur = [None] * len(progs)       # (op, clock at call start, index of first obs)
    obs = []                         # (clock, entry or None, loading?, futs)
    first = True

    def parse(o):
        parts = o.split("/")
        ev = parts[0]
        ent = parts[2][1:].split(".")[0] if len(parts) > 2 else "-"
        futs = [x for x in parts[3].split(",")] if len(parts) > 3 and parts[3] else []
        return ev, (None if ent == "-" else int(ent)), futs
    known_done = set()
    for k, (who, o) in enumerate(seq):
        ev, ent, futs = parse(o)
        if first:
            first = False
            done0 = [i for i, f in enumerate(futs) if f.startswith("1")]
            # everything complete at the first observation was completed by the set-up (or by this very step: a Set)
            for i, f in enumerate(done0):
                stamp.setdefault(f, 0)
                err[f] = init_errs[i] if i < len(init_errs) else 0
                known_done.add(f)
        if who.startswith("t"):
            clock += int(who[1:])
        else:
            tid = int(who)
            if tid < len(progs) and ev not in ("done", "blocked"):
                if cur[tid] is None and pcidx[tid] < len(progs[tid]):
                    cur[tid] = (progs[tid][pcidx[tid]], clock, max(0, len(obs) - 1))
                for i, f in enumerate(futs):
                    if f.startswith("1") and i not in known_done:
                        known_done.add(i)
                        op = cur[tid][0] if cur[tid] else "F:0:0"
                        stamp[i] = cur[tid][1] if cur[tid] else clock
                        err[i] = int(op.split(":")[2]) if op.count(":") == 2 else 0
        obs.append((clock, ent, futs))
        if not who.startswith("t"):
            tid = int(who)
            if tid < len(progs) and ev.startswith("r:") and cur[tid] is not None:
                op, c0, i0 = cur[tid]
                if op[0] == "G" and ev == "r:0:0":
                    servable = True
                    for (c, e, fs) in obs[i0:]:
                        if e is None or e >= len(fs):
                            servable = False
                            break
                        if fs[e].startswith("0"):
                            continue
                        ex = E_ERROR if err.get(e, 0) != 0 else E_NORMAL
                        if e not in stamp or c - stamp[e] >= 2 * ex:
                            servable = False
                            break
                    if servable and len(obs[i0:]) > 0:
                        return ("get2-miss-while-servable",
                                "step %d: Get2 of thread %d answered (nil, nil) at once although at every instant of the call "
                                "the key had a loading entry or a result less than 2E old" % (k, tid))
                cur[tid] = None
                pcidx[tid] += 1
    return None


def nontrivial(case, model):
    _, m = prog_ops(case)
    tids = set(x for x in m.get("sched", "").split(",") if x and x[0] != "t")
    return len(tids) >= 2


def classify_full(model):
    """verdict of the machine with the refined ghost (CacheStepsFull.v, theorem cache_calls_linearize:
    all five operations): None when absent (Orig order), else ok / tick-in-window / violation"""
    _, g = split_model(model)
    g = " " + g
    if " fmis=" not in g:
        return None
    if " fsame=1" not in g or " fsim=1" not in g:
        return "violation"
    if " fmis=0" in g:
        return "ok"
    return "violation" if " fbad=0" in g else "tick-in-window"


def classify(case, model):
    """ghost verdict of the model run: ok / outside the hypotheses / NOT linearized inside them"""
    _, g = split_model(model)
    if " mis=0" in " " + g:
        return "ok"
    ops, m = prog_ops(case)
    covered = all(o[0] in COVERED for o in ops) and "S" not in m.get("init", "")
    if covered and " bad=0" in " " + g:
        return "violation"
    if not covered and " bad=0" in " " + g:
        return "set-or-sweep"
    return "tick-in-window"


def run(chk, corpus, light=False):
    """light = the part run by C05: corpus + tick interleavings, same comparison and monitors"""
    info = dict(status="run")
    chk.cov["call_steps"] = info
    if not hooks_present():
        info["status"] = ("SKIPPED (not run, no violation): the tree under test has no cachex verif hooks "
                          "(cachex/verif_on.go absent; apply tools/hooks/cachex-verif-hooks.patch)")
        return
    binary = build(chk)
    if not binary:
        return
    streams = [("call-steps/corpus", corpus)] + [x for x in gen(chk, chk.tier, light) if not light or "ticks" in x[0]]
    names, cases = [], []
    for name, cs in streams:
        names += [name] * len(cs)
        cases += cs
    try:
        impl = common.run_impl(binary, cases, timeout=1800)
    except common.ImplCrash as e:
        chk.infra_errors.append("call-steps harness crashed or timed out: " + str(e)[-1200:])
        return
    model = common.run_model(cases)
    verdicts = {}
    full_verdicts = {}
    examples = {}
    seen = set()
    for name, c, m, i in zip(names, cases, model, impl):
        chk.count_case(name, c, nontrivial(c, m))
        chk.cov["disagreements_checked"] += 1
        note = compare(c, m, i)
        if note is not None:
            chk.diverge(name, c, split_model(m)[0], i, note)
        else:
            chk.cov["traces_validated_against_impl"] += 1
        mf = monitor(c, i) or monitor_miss(c, i)
        if mf is not None:
            chk.monitor_fail(mf[0], c, i, mf[1])
        v = classify(c, m)
        verdicts[v] = verdicts.get(v, 0) + 1
        if v != "ok" and v not in examples:
            examples[v] = dict(case=c, ghost=split_model(m)[1])
        if v == "violation" and note is None:
            chk.monitor_fail("call-not-linearizable", c, i,
                             "a Load/Get2 result is not the atomic machine's output at any instant of the call "
                             "(no Set, no sweep, no clock tick inside a window): " + split_model(m)[1])
        elif v == "set-or-sweep" and note is None and any(k == "call-steps-set-nonatomic" for k, _ in chk.opens):
            chk.monitor_fail("call-steps-set-nonatomic", c, i, split_model(m)[1])
        vf = classify_full(m)
        if vf is not None:
            full_verdicts[vf] = full_verdicts.get(vf, 0) + 1
            if vf == "violation" and note is None:
                chk.monitor_fail("call-not-linearizable-full", c, i,
                                 "a call result (programs over Load/Get2/Set/worker/sweep) is not the refined atomic "
                                 "machine's output at any instant of the call, or the refined machine left the steps of "
                                 "CacheSteps.v / its history is not simulated by Cache.v: " + split_model(m)[1])
        if name not in seen:
            seen.add(name)
            chk.sample(dict(stream=name, case=c[:300], model=m[:300], impl=i[:300]), limit=16)
    info["ghost_verdicts"] = verdicts
    info["refined_ghost_verdicts_all_ops"] = full_verdicts
    info["examples_outside_hypotheses"] = examples
    info["cases"] = len(cases)


def search_cases(chk):
    return [c for _, cs in gen(chk, "quick") for c in cs]
