# fttaskx.py -- shared runner for the faketime taskx harness (C09, C10).
import os
import subprocess

from . import common

ENV = dict(os.environ, GOMAXPROCS="2")


def build(chk):
    try:
        return common.build_go("./cmd/fttaskx", tags="verif faketime")
    except common.BuildError as e:
        chk.infra_errors.append("fttaskx harness does not build against the repo working tree (API changed?): " + str(e)[-1500:])
        return None


def run(binary, lines, chunk=150, chunk_timeout=90, single_timeout=10):
    """Runs the cases in fresh processes of [chunk] scenarios. A process that crashes or does not
    finish (a library goroutine panicked / spins / everything deadlocked) is narrowed down to the
    first scenario that fails on its own: its output is "HANG" or "CRASH ..."; the outputs of
    the scenarios after it are "SKIPPED"."""
    out = []
    for i in range(0, len(lines), chunk):
        part = lines[i:i + chunk]
        try:
            out += common.run_impl(binary, part, env=ENV, timeout=chunk_timeout)
            continue
        except (common.ImplCrash, subprocess.TimeoutExpired):
            pass
        found = False
        for c in part:
            if found:
                out.append("SKIPPED")
                continue
            try:
                out += common.run_impl(binary, [c], env=ENV, timeout=single_timeout)
            except subprocess.TimeoutExpired:
                out.append("HANG")
                found = True
            except common.ImplCrash as e:
                out.append("CRASH " + " ".join(str(e)[-400:].split()))
                found = True
        if not found:
            # only fails in company: report the whole chunk as one hang
            out[-len(part):] = ["HANG-IN-SEQUENCE"] + ["SKIPPED"] * (len(part) - 1)
        out += ["SKIPPED"] * (len(lines) - len(out))
        break
    return out
