# C18 -- data-race freedom of the goroutine-safe APIs.
# Theorems: coq/props/C18.v (relational happens-before race lib/RaceHB.v, proved equivalent to the
# vector-clock monitor lib/Race.v in proofs/RaceHBProofs.v; publication protocol, instances
# models/RaceInst.v; for loom.Queue / WaitClose / Wheel additionally the labelled small-step models
# models/RaceQueue.v, RaceWaitClose.v, RaceWheel.v: race freedom of every run of the model that C01/C02,
# C03/C04 and C09 step against the code; likewise models/RaceCache.v for the cachex step model CacheSteps.v that
# C04's call-steps stream steps against the code; models/RaceAtomics.v, RaceMutex.v, RaceTaskQueue.v for the machines of C17 and C09). Tie to the code: (1) the access table regenerated from /repo's source
# by harness/cmd/accesses must equal RaceInst.ri_access_table; (2) a -race build of
# harness/cmd/racestress hammers every shared component in real time on 1..16 Ps: a race
# report is a failing schedule.
import json
import os
import re
import subprocess

from . import common

PROOFS = ["proofs/RaceProofs.v", "proofs/RaceHBProofs.v", "lib/Race.v", "lib/RaceHB.v", "models/RaceInst.v",
          # model-level race freedom: the steps of the Queue / WaitClose / Wheel models labelled with memory events
          "proofs/RaceMonLemmas.v",
          "models/RaceQueue.v", "proofs/RaceQueueProofs.v",
          "models/RaceWaitClose.v", "proofs/RaceWaitCloseProofs.v",
          "models/RaceWheel.v", "proofs/RaceWheelProofs.v",
          # the cachex step model (CacheSteps.v, the machine C04's call-steps stream steps against the code) labelled
          "models/RaceCache.v", "proofs/RaceCacheMon.v", "proofs/RaceCacheStruct.v", "proofs/RaceCacheInv.v",
          "proofs/RaceCacheGen.v", "proofs/RaceCacheCases.v", "proofs/RaceCacheProofs.v",
          # ants task / taskx callback task: labelled result-publication protocols (any attempts, late handlers)
          "models/RaceTasks.v", "proofs/RaceTasksProofs.v",
          # Flag / AddIf64 (Atomics.v, stepped by C17) and loom.Mutex (MutexWord.v mx_step) labelled
          "models/RaceAtomics.v", "proofs/RaceAtomicsProofs.v",
          "models/RaceMutex.v", "proofs/RaceMutexProofs.v",
          # taskx.Queue (TaskQueue.v tq_gstep, the machine C09 replays) labelled: producers, consumer, closer, Get2 waiters
          "models/RaceTaskQueue.v", "proofs/RaceTaskQueueStruct.v", "proofs/RaceTaskQueueProofs.v",
          # the ants step model (AntsSteps.v, the machine C07's dispatch-steps stream steps against the pool) labelled
          "models/RaceAnts.v", "proofs/AntsStepsProofs.v", "proofs/RaceAntsInv.v", "proofs/RaceAntsCases.v",
          "proofs/RaceAntsProofs.v"]


def coq_table():
    src = open(os.path.join(common.COQ, "models", "RaceInst.v")).read()
    m = re.search(r"Definition ri_access_table : list string := \[(.*?)\n\]\.", src, re.S)
    if not m:
        return None
    return re.findall(r'"([^"]*)"', m.group(1))


def source_table(chk):
    try:
        binary = common.build_go("./cmd/accesses", tags="verif")
    except common.BuildError as e:
        chk.infra_errors.append("access-table extractor does not build: " + str(e)[-800:])
        return None
    td = common.tmpdir()
    out = os.path.join(td, "acc.txt")
    rc, log = common.sh([binary, common.REPO, out], timeout=120)
    if rc != 0:
        chk.infra_errors.append("access-table extractor failed: " + log[-800:])
        return None
    return [l.rstrip("\n") for l in open(out) if l.strip()]


def compare_tables(chk):
    want = coq_table()
    got = source_table(chk)
    if want is None:
        chk.infra_errors.append("cannot read ri_access_table from coq/models/RaceInst.v")
        return 0
    if got is None:
        return 0
    w = dict(r.split("|", 1) for r in want)
    g = dict(r.split("|", 1) for r in got)
    n = 0
    for k in sorted(set(w) | set(g)):
        n += 1
        nontrivial = bool(re.search(r"\b[RWAS]:|send:|recv:|close:", w.get(k, "") + g.get(k, "")))
        chk.count_case("access-table-row", k + "|" + g.get(k, ""), nontrivial)
        chk.cov["disagreements_checked"] += 1
        if w.get(k) != g.get(k):
            chk.diverge("access-table", k, w.get(k, "<no such row in RaceInst.ri_access_table>"),
                        g.get(k, "<function no longer present in the source>"),
                        "the synchronisation fingerprint of this function differs from the one the race-freedom instances were labelled from")
        else:
            chk.cov["traces_validated_against_impl"] += 1
    for k in list(g)[:3]:
        chk.sample(dict(stream="access-table-row", function=k, fingerprint=g[k][:300]), limit=12)
    return n


def parse_race_reports(text):
    reps = []
    for block in text.split("==================")[1:]:
        if "WARNING: DATA RACE" not in block:
            continue
        frames = re.findall(r"^\s+(\S+\(\))\n\s+(\S+:\d+)", block, re.M)
        kinds = re.findall(r"^(Write|Read|Previous write|Previous read|Atomic \w+)", block, re.M | re.I)
        own = [f for f in frames if "lixianmin/got" in f[0] or "/repo/" in f[1] or "lixianmin" in f[1]]
        reps.append(dict(accesses=kinds[:2], frames=["%s %s" % f for f in own[:6]], text=block.strip()[:1500]))
    return reps


def stress(chk, search=False):
    try:
        binary = common.build_go("./cmd/racestress", tags="production", race=True)  # the production build: no verif hooks
    except common.BuildError as e:
        chk.infra_errors.append("race stress harness does not build against /repo: " + str(e)[-1500:])
        return
    quick = chk.tier == "quick" and not search
    plan = [(16, 400), (2, 300), (1, 200), (4, 300)] if quick else [(p, 2500) for p in (1, 2, 3, 4, 8, 16)] * 2
    seen = set()
    for procs, ms in plan:
        td = common.tmpdir()
        env = dict(os.environ, GOMAXPROCS=str(procs), GORACE="halt_on_error=0 exitcode=66 log_path=%s/race" % td)
        try:
            p = subprocess.run([binary, "all", str(ms)], stdout=subprocess.PIPE, stderr=subprocess.STDOUT, text=True,
                               timeout=ms / 1000.0 * 7 * 6 + 120, env=env)
        except subprocess.TimeoutExpired:
            chk.monitor_fail("stress-hang", "racestress all %d (GOMAXPROCS=%d)" % (ms, procs), "", "stress client did not finish (deadlock or livelock in a component)")
            continue
        text = ""
        for f in os.listdir(td):
            if f.startswith("race"):
                text += open(os.path.join(td, f), errors="replace").read()
        reps = parse_race_reports(text + p.stdout)
        case = "racestress all %dms GOMAXPROCS=%d" % (ms, procs)
        chk.count_case("race-stress", case, True)
        chk.cov["programs"] += 1
        chk.sample(dict(stream="race-stress", case=case, components="queue wheel waitclose atomics cache ants taskx",
                        race_reports=len(reps), exit=p.returncode), limit=12)
        for r in reps:
            key = "|".join(r["frames"][:2])
            if key in seen:
                continue
            seen.add(key)
            chk.monitor_fail("data-race", case, "\n".join(r["frames"]), "go race detector: %s at %s\n%s" % (
                " vs ".join(r["accesses"]), " / ".join(r["frames"][:2]), r["text"]))
        if p.returncode not in (0, 66):
            chk.monitor_fail("stress-crash", case, p.stdout[-600:], "stress client crashed (exit %d): an assertion of the component's contract failed or it panicked" % p.returncode)


def run(chk):
    chk.trusted = common.BASE_TRUSTED + [
        "harness/cmd/accesses: go/ast classification of accesses (which fields are tracked is a list in that file)",
        "Go race detector (TSan) as the implementation-side oracle",
        "modelled, not verified: Go's synchronisation (sequentially consistent atomics, Mutex, WaitGroup, channels, go statement) is represented by "
        "release/acquire events on sync objects (every acquire synchronizes with all earlier releases on the object) in lib/RaceHB.v; the vector-clock monitor "
        "lib/Race.v is PROVED to decide the relational happens-before race of that representation (c18_monitor_sound / c18_monitor_complete); "
        "covered by theorems: the publication patterns listed in RaceInst.v (abstract protocol instances) and, for loom.Queue, loom.WaitClose, "
        "loom.Wheel and the cachex Cache with its Futures, every run of the component's small-step model labelled with memory events "
        "(models/Race{Queue,WaitClose,Wheel,Cache}.v: which event each "
        "model step emits is a transcription of the source, cross-checked by the access-table rows of queue.go / wait_close.go / wheel.go / "
        "cache_impl.go / future.go and, for cachex, by c18_cache_labels_match_sites against the yield sites; the "
        "step-by-step tie of those models to the code is C01/C02, C03/C04, C09, and the C04 stream call-steps for cachex); "
        "loom.Flag / AddIf64, loom.Mutex and taskx.Queue: every run of at_step / mx_step / tq_gstep labelled with memory events (models/Race{Atomics,Mutex,TaskQueue}.v; "
        "tied to the code by C17 (at_event and TryLock sites at every step), C09 (the tq_gev trace the labelling is a function of) and the access-table rows of flag.go / atomic.go / mutex.go / "
        "queue.go / task_callback.go; Lock / Unlock of mx_step are a re-model of package sync, its internal plain loads and semaphore unlabelled); "
        "ants Task and taskx callback task: labelled protocol machines (models/RaceTasks.v: any number of attempts, late handlers, Get2 callers; "
        "a protocol-level reading of task_callback_ants.go / task_callback.go, not a stepped model) and the detector; other fields only by the detector"]
    chk.assumptions = ["atomic operations, mutexes, WaitGroups and channels synchronise as the Go memory model says",
                       "the components are used through their public API as the stress clients do"]
    chk.cov["rule"] = ("(1) one case per function row of the access table (synchronisation fingerprint regenerated from the source vs the row stored in RaceInst.v); "
                       "non-trivial = the row contains a plain access, an atomic, a lock/WaitGroup or a channel operation. "
                       "(2) one case per real-time run of the -race stress client over all seven components at a given GOMAXPROCS")
    chk.run_proof_gate(PROOFS)
    compare_tables(chk)
    stress(chk)
    chk.finish(search=search)


def search(chk):
    if not chk.monitor_failures:
        stress(chk, search=True)


def replay(chk, path):
    rep = json.load(open(path))
    print(json.dumps(rep.get("failing_inputs", [])[:3], indent=1)[:3000])
    chk.tier = "thorough"
    stress(chk)
    n = len([m for m in chk.monitor_failures if m])
    print("re-ran the race stress: %d failing run(s)" % n)
    raise SystemExit(1 if n else 0)
