# C15 -- sortx.SliceBy / UniqueInt / UniqueString.
# Model: coq/models/Sort.v, coq/models/Unique.v ; theorems: coq/props/C15.v
import itertools

from . import common, pure

PROOFS = ["proofs/SortProofs.v", "proofs/SortSorted.v", "proofs/SortPivot.v", "proofs/UniqueProofs.v", "models/Sort.v", "models/Unique.v"]

BR_NAMES = ["small_segment_insertion", "doPivot", "ninther", "dup_check", "protect_loop",
            "heapsort_fallback", "recurse_left_first", "recurse_right_first"]


# ---------------------------------------------------------------- the user's less (same as srt_less_mode / c15Less)
def less(mode, x, y):
    if mode == 0:
        return x < y
    if mode == 1:
        return y < x
    if mode == 2:
        return x // 4 < y // 4
    if mode == 3:
        return (x - y) % 3 == 1
    if mode == 4:
        return True
    return x <= y


CONSISTENT = (0, 1, 2)  # strict weak orders


def lst(s):
    s = s.strip("[]")
    return [int(x) for x in s.split(",")] if s else []


def parse_sort(line):
    if not line.startswith("k="):
        return None
    parts = dict(p.split("=", 1) for p in line.split())
    return lst(parts["k"]), lst(parts["v"]), int(parts["c"]), (lst(parts["br"]) if "br" in parts else None)


def parse_unique(line):
    if not line.startswith("r="):
        return None
    parts = dict(p.split("=", 1) for p in line.split())
    return lst(parts["r"]), lst(parts["a"])


def sort_case(mode, kt, keys, vals):
    return "c15S %d %d %d %d %s" % (mode, kt, len(keys), len(vals), " ".join(map(str, list(keys) + list(vals))))


def case_params(case):
    t = case.split()
    mode, kt, nk, nv = int(t[1]), int(t[2]), int(t[3]), int(t[4])
    xs = [int(x) for x in t[5:]]
    return mode, kt, xs[:nk], xs[nk:nk + nv]


def cmp_bound(n):
    """Comparison budget the monitor enforces: 4 * n * (bitlen(n) + 1) + 16 -- an
    O(n log n) envelope.  Each of the <= 2*bitlen(n) quicksort levels
    costs at most ~1.25 comparisons per element (scan + ninther), the final
    insertion sorts at most 6.5 per element, heapsort at most 2*bitlen per element."""
    return 4 * n * (n.bit_length() + 1) + 16


# ---------------------------------------------------------------- compare / monitor
def compare(case, model, impl):
    tag = case.split(" ", 1)[0]
    if tag == "c15S":
        pm, pi = parse_sort(model), parse_sort(impl)
        if pm is None:
            return "model produced no result (%s)" % model[:80]
        if pi is None:
            return "implementation produced no result (%s)" % impl[:80]
        if pm[0] != pi[0]:
            return "final keys differ"
        if pm[1] != pi[1]:
            return "final values differ"
        if pm[2] != pi[2]:
            return "number of less calls differs (model %d, impl %d)" % (pm[2], pi[2])
        return None
    pm, pi = parse_unique(model), parse_unique(impl)
    if pm is None:
        return "model produced no result (%s)" % model[:80]
    if pi is None:
        return "implementation produced no result (%s)" % impl[:80]
    if pm[0] != pi[0]:
        return "returned slice differs"
    if pm[1] != pi[1]:
        return "backing array after the call differs"
    return None


def collapse_ref(xs):
    out = []
    for x in xs:
        if not out or out[-1] != x:
            out.append(x)
    return out


def monitor(case, impl):
    """Direct restatement of the property on the implementation's observation."""
    tag = case.split(" ", 1)[0]
    if tag == "c15S":
        mode, kt, keys, vals = case_params(case)
        pi = parse_sort(impl)
        if pi is None:
            return ("panic", "SliceBy panicked / gave no result: " + impl[:200])
        k2, v2, cnt, _ = pi
        n = min(len(keys), len(vals))
        if len(k2) != len(keys) or len(v2) != len(vals):
            return ("length", "slice lengths changed")
        if k2[n:] != keys[n:] or v2[n:] != vals[n:]:
            return ("suffix", "elements beyond the first min(len(keys),len(values))=%d were modified" % n)
        if sorted(zip(k2[:n], v2[:n])) != sorted(zip(keys[:n], vals[:n])):
            return ("pairs", "(key,value) pairs of the prefix are not a permutation of the original pairs")
        if mode in CONSISTENT:
            for i in range(1, n):
                if less(mode, k2[i], k2[i - 1]):
                    return ("sorted", "keys[%d]=%d is less than keys[%d]=%d after the call" % (i, k2[i], i - 1, k2[i - 1]))
        if cnt > cmp_bound(n):
            return ("comparisons", "%d less calls for n=%d (budget %d = 4*n*(bitlen n+1)+16): not O(n log n)" % (cnt, n, cmp_bound(n)))
        return None
    xs = [int(x) for x in case.split()[1:]]
    pi = parse_unique(impl)
    if pi is None:
        return ("unique-panic", "Unique panicked / gave no result: " + impl[:200])
    r, a = pi
    ref = collapse_ref(xs)
    if r != ref:
        return ("unique", "Unique returned %s, want %s" % (r[:20], ref[:20]))
    if any(x == y for x, y in zip(r, r[1:])):
        return ("unique", "equal adjacent elements in the result")
    if xs == sorted(xs) and any(not (x < y) for x, y in zip(r, r[1:])):
        return ("unique", "sorted input but result not strictly increasing")
    if a[:len(r)] != r or a[len(r):] != xs[len(r):]:
        return ("unique-array", "backing array is not result ++ untouched tail")
    return None


def nontrivial(case, model):
    if case.startswith("c15S"):
        pm = parse_sort(model)
        return pm is not None and pm[2] >= 2
    pm = parse_unique(model)
    return pm is not None and len(pm[0]) < len(pm[1])


# ---------------------------------------------------------------- generators
def families(rng, n):
    """adversarial key families of length n: (name, keys)"""
    out = []
    out.append(("sorted", list(range(n))))
    out.append(("reversed", list(range(n, 0, -1))))
    out.append(("constant", [7] * n))
    out.append(("organ-pipe", [min(i, n - 1 - i) for i in range(n)]))
    out.append(("organ-pipe-inv", [max(i, n - 1 - i) for i in range(n)]))
    out.append(("dups3", [rng.below(3) for _ in range(n)]))
    out.append(("dups-sqrt", [rng.below(max(2, int(n ** 0.5))) for _ in range(n)]))
    out.append(("random", [rng.range(-1000000, 1000000) for _ in range(n)]))
    out.append(("sawtooth", [i % 7 for i in range(n)]))
    out.append(("zero-one", [(i * 7 // 3) % 2 for i in range(n)]))
    one = [5] * n
    if n:
        one[rng.below(n)] = rng.choice([4, 6])
    out.append(("all-equal-but-one", one))
    ns = list(range(n))
    for _ in range(max(1, n // 20)):
        i, j = rng.below(max(1, n)), rng.below(max(1, n))
        if n:
            ns[i], ns[j] = ns[j], ns[i]
    out.append(("nearly-sorted", ns))
    out.append(("sorted-blocks", [(i % 16) * 100 + i // 16 for i in range(n)]))
    return out


def killer_keys(sizes):
    """McIlroy-style quicksort killers, built by the OCaml driver against the extracted
    model itself (with and without the depth limit)."""
    reqs = []
    for n in sizes:
        reqs.append("c15K %d 1" % n)
        if n <= 700:
            reqs.append("c15K %d 0" % n)
    outs = common.run_model(reqs)
    res = []
    for r, o in zip(reqs, outs):
        ks = [int(x) for x in o.split()]
        if len(ks) != int(r.split()[1]):
            raise RuntimeError("killer generation failed: " + o[:100])
        res.append(("killer-" + ("limit" if r.endswith("1") else "nolimit"), ks))
    return res


def gen(rng, tier):
    streams = []
    quick = tier == "quick"
    # 1. bounded-exhaustive: all key sequences over a 4-letter alphabet
    L = 7 if quick else 8
    ex = []
    for n in range(0, L + 1):
        vals = list(range(10, 10 + n))
        for ks in itertools.product(range(4), repeat=n):
            ex.append(sort_case(0, 0, ks, vals))
    streams.append(("exhaustive-alphabet4", ex))
    # 2. other less functions (descending, weak order with ties, inconsistent) and element types, small
    sm = []
    cnt = 1500 if quick else 30000
    for _ in range(cnt):
        n = rng.choice([0, 1, 2, 3, 5, 8, 11, 12, 13, 14, rng.range(0, 30)])
        hi = rng.choice([2, 4, 9, 1000])
        ks = [rng.range(-hi, hi) for _ in range(n)]
        sm.append(sort_case(rng.choice([0, 1, 2, 2, 3, 3, 4, 5]), rng.below(3), ks, list(range(n))))
    streams.append(("modes-types-small", sm))
    # 3. keys and values of different lengths
    df = []
    cnt = 600 if quick else 10000
    for _ in range(cnt):
        nk = rng.choice([0, 1, 2, 5, 13, 14, 20, 41, 45, 60, rng.range(0, 80)])
        nv = rng.choice([0, 1, 2, 5, 13, 14, 20, 41, 45, 60, rng.range(0, 80)])
        hi = rng.choice([3, 50, 100000])
        ks = [rng.range(0, hi) for _ in range(nk)]
        vs = [rng.range(0, 9) for _ in range(nv)]
        df.append(sort_case(rng.choice([0, 0, 1, 2, 3]), rng.below(3), ks, vs))
    streams.append(("different-lengths", df))
    # 4. adversarial families around the thresholds (12: insertion sort, 40: ninther) and long
    if quick:
        sizes = [11, 12, 13, 14, 25, 39, 40, 41, 42, 50, 64, 97, 128, 200, 333, 500, 1000, 2000]
        ksizes = [13, 41, 50, 100, 200, 400, 700, 1000, 2000]
    else:
        sizes = list(range(9, 60)) + [64, 97, 100, 128, 150, 200, 256, 333, 500, 640, 777, 1000, 1024, 1500, 2000]
        ksizes = [13, 14, 20, 30, 41, 42, 50, 64, 100, 128, 200, 300, 400, 500, 700, 1000, 1500, 2000]
    fam = []
    reps = 1 if quick else 3
    for n in sizes:
        for _ in range(reps):
            for name, ks in families(rng, n):
                mode = 0
                if rng.chance(1, 6):
                    mode = rng.choice([1, 2, 3, 4, 5])
                fam.append(sort_case(mode, rng.below(3) if n <= 200 else 0, ks, list(range(n))))
    streams.append(("adversarial-families", fam))
    kl = []
    for name, ks in killer_keys(ksizes):
        kl.append(sort_case(0, 0, ks, list(range(len(ks)))))
        kl.append(sort_case(1, 0, [-k for k in ks], list(range(len(ks)))))
    streams.append(("quicksort-killer", kl))
    # 5. Unique: exhaustive over a 3-letter alphabet + long random / sorted inputs
    un = []
    LU = 7 if quick else 9
    for n in range(0, LU + 1):
        for xs in itertools.product(range(3), repeat=n):
            un.append(("c15U " if (n + sum(xs)) % 2 == 0 else "c15W ") + " ".join(map(str, xs)))
    streams.append(("unique-exhaustive-alphabet3", un))
    ur = []
    cnt = 300 if quick else 5000
    for _ in range(cnt):
        n = rng.choice([0, 1, 2, 3, 10, 50, rng.range(0, 400)])
        hi = rng.choice([1, 2, 5, 100, 1 << 40])
        xs = [rng.range(-hi, hi) for _ in range(n)]
        if rng.chance(1, 2):
            xs.sort()
        ur.append(rng.choice(["c15U ", "c15W "]) + " ".join(map(str, xs)))
    streams.append(("unique-random-sorted", ur))
    return streams


# ---------------------------------------------------------------- doPivot postcondition, also tested
def pivot_hypothesis_test(chk, rng, tier):
    """srt_partition_ok (doPivot returns a three-zone partition) is proved in Coq
    (proofs/SortPivot.v, c15_dopivot_partition).  It is additionally tested here on the
    extracted model function srt_do_pivot (a sanity check of statement and extraction, and of
    the stricter bound mlo < mhi): segments [lo,hi) with hi-lo > 12 inside longer arrays,
    all adversarial families, strict weak orders only."""
    cases = []
    cnt = 1500 if tier == "quick" else 20000
    for _ in range(cnt):
        w = rng.choice([13, 14, 20, 40, 41, 42, 60, rng.range(13, 120), rng.range(13, 400)])
        lo = rng.choice([0, 0, 1, 5, rng.range(0, 30)])
        tail = rng.choice([0, 0, 3, rng.range(0, 20)])
        fam = families(rng, w)
        name, seg = rng.choice(fam)
        keys = [rng.range(-5, 5) for _ in range(lo)] + seg + [rng.range(-5, 5) for _ in range(tail)]
        cases.append("c15P %d %d %d %s" % (rng.choice(CONSISTENT), lo, lo + w, " ".join(map(str, keys))))
    outs = common.run_model(cases)
    bad = 0
    for c, o in zip(cases, outs):
        t = c.split()
        mode, lo, hi = int(t[1]), int(t[2]), int(t[3])
        keys = [int(x) for x in t[4:]]
        why = None
        if not o.startswith("m="):
            why = "doPivot model did not return: " + o[:60]
        else:
            parts = dict(p.split("=", 1) for p in o.split())
            mlo, mhi = [int(x) for x in parts["m"].split(",")]
            k2 = lst(parts["k"])
            le = lambda x, y: not less(mode, y, x)
            if not (lo <= mlo < mhi <= hi):
                why = "bounds lo <= mlo < mhi <= hi violated"
            elif k2[:lo] != keys[:lo] or k2[hi:] != keys[hi:] or sorted(k2[lo:hi]) != sorted(keys[lo:hi]):
                why = "not a permutation of the segment / outside touched"
            else:
                p = k2[mlo]
                if not (all(le(x, p) for x in k2[lo:mlo]) and all(le(x, p) and le(p, x) for x in k2[mlo:mhi])
                        and all(le(p, x) for x in k2[mhi:hi])):
                    why = "three-zone postcondition violated"
        if why:
            bad += 1
            chk.diverge("dopivot-partition-hypothesis", c, o, "", "doPivot postcondition (c15_dopivot_partition) refuted on the extracted model: " + why)
    chk.cov["dopivot_partition_hypothesis_tested"] = dict(cases=len(cases), violations=bad)


# ---------------------------------------------------------------- vm_compute cross-check
def coq_crosscheck(chk, cases, model_out):
    items = []
    def z(v):
        return "(%d)" % v
    def zl(l):
        return "[" + ";".join(z(x) for x in l) + "]"
    for c, m in zip(cases, model_out):
        if c.startswith("c15S"):
            pm = parse_sort(m)
            if pm is None:
                continue
            mode, kt, keys, vals = case_params(c)
            items.append("ck_s %s %s %s %s %s %d" % (z(mode), zl(keys), zl(vals), zl(pm[0]), zl(pm[1]), pm[2]))
        else:
            pm = parse_unique(m)
            if pm is None:
                continue
            xs = [int(x) for x in c.split()[1:]]
            items.append("ck_u %s %s %s" % (zl(xs), zl(pm[0]), zl(pm[1])))
    if not items:
        return 0
    body = """From Got Require Import Base Sort Unique.
Local Open Scope Z_scope.
Definition zl_eqb (a b : list Z) : bool := if list_eq_dec Z.eq_dec a b then true else false.
Definition ck_s (mode : Z) (ks vs ks' vs' : list Z) (c : N) : bool :=
  match srt_sliceby_z mode ks vs with
  | SOk s => zl_eqb (st_keys s) ks' && zl_eqb (st_vals s) vs' && N.eqb (st_cmp s) c
  | _ => false end.
Definition ck_u (xs r a : list Z) : bool :=
  match unq_unique_z xs with
  | Ok (r', a') => zl_eqb r r' && zl_eqb a a'
  | _ => false end.
Definition cases : list bool := [%s].
Definition bad := Eval vm_compute in length (filter negb cases).
Print bad.
""" % ";\n".join(items)
    out = common.run_coq_eval(body)
    if "bad = 0%nat" not in out.replace("\n", " "):
        chk.diverge("vm_compute-vs-extraction", "sample of %d cases" % len(items), out[-300:], "", "extracted OCaml model disagrees with vm_compute")
    return len(items)


# ---------------------------------------------------------------- run
def run_streams(chk, binary, streams):
    names, cases = [], []
    for name, cs in streams:
        for c in cs:
            names.append(name)
            cases.append(c)
    try:
        impl = common.run_impl(binary, cases)
    except common.ImplCrash as e:
        chk.infra_errors.append("implementation harness crashed (a panic escaping the harness or a hang): " + str(e)[-1500:])
        return [], []
    model = common.run_model(cases)
    br = [0] * len(BR_NAMES)
    br_cases = [0] * len(BR_NAMES)
    sizes = {}
    maxratio = 0.0
    for name, c, m, i in zip(names, cases, model, impl):
        chk.count_case(name, c, nontrivial(c, m))
        chk.cov["programs"] += 1
        note = compare(c, m, i)
        chk.cov["disagreements_checked"] += 1
        if note is not None:
            chk.diverge(name, c, m, i, note)
        else:
            chk.cov["traces_validated_against_impl"] += 1
        mf = monitor(c, i)
        if mf is not None:
            chk.monitor_fail(mf[0], c, i, mf[1])
        if c.startswith("c15S"):
            pm = parse_sort(m)
            if pm and pm[3]:
                for k, v in enumerate(pm[3]):
                    br[k] += v
                    br_cases[k] += 1 if v else 0
                n = min(int(c.split()[3]), int(c.split()[4]))
                b = "n<=1" if n <= 1 else "2..12" if n <= 12 else "13..40" if n <= 40 else "41..200" if n <= 200 else "201..2000"
                sizes[b] = sizes.get(b, 0) + 1
                if n >= 2:
                    maxratio = max(maxratio, pm[2] / float(cmp_bound(n)))
    chk.cov["model_branch_hits"] = dict(zip(BR_NAMES, br))
    chk.cov["cases_hitting_branch"] = dict(zip(BR_NAMES, br_cases))
    chk.cov["sort_prefix_length_distribution"] = sizes
    chk.cov["max_comparisons_over_budget_ratio"] = round(maxratio, 3)
    for k, name in enumerate(BR_NAMES):
        if br[k] == 0:
            chk.infra_errors.append("generator weakness: model branch '%s' was never executed" % name)
    seen = set()
    for name, c, m, i in zip(names, cases, model, impl):
        if name not in seen:
            seen.add(name)
            chk.sample(dict(stream=name, case=c[:400], model=m[:400], impl=i[:400]), limit=12)
    return cases, model


def run(chk):
    chk.trusted = common.BASE_TRUSTED + [
        "modelled: Go int indices as unbounded Z (no wrap below 2^62 elements; uint(lo+hi)>>1 as (lo+hi)/2); "
        "reflect.Swapper as element swap of a list; the user's less as a pure total function of the two key values "
        "(the Go closure less(i,j) reads keys[i], keys[j])",
    ]
    chk.assumptions = [
        "less is a pure function of the two key values (for sortedness: a strict weak order; permutation/suffix/termination/bound: any less)",
        "slice lengths < 2^62 (Go int arithmetic does not wrap)",
    ]
    chk.cov["rule"] = ("cases = (less mode, element types, keys, values) for SliceBy and integer/string lists for Unique*; "
                       "non-trivial = the model performs >= 2 less calls (SliceBy) / the result is shorter than the input (Unique); "
                       "distinct = distinct case line")
    chk.run_proof_gate(PROOFS)
    binary = pure.build_pure(chk)
    if binary:
        streams = [("corpus", pure.corpus_cases("C15"))] + gen(chk.rng, chk.tier)
        cases, model = run_streams(chk, binary, streams)
        # vm_compute cross-check on a sample (small + a few medium-sized cases)
        if cases:
            idx = [k for k, c in enumerate(cases) if len(c) < 700]
            step = max(1, len(idx) // 150)
            pick = idx[::step][:170]
            try:
                n = coq_crosscheck(chk, [cases[k] for k in pick], [model[k] for k in pick])
                chk.cov["vm_compute_crosschecked"] = n
            except Exception as ex:
                chk.infra_errors.append("vm_compute cross-check failed: %r" % (ex,))
            try:
                pivot_hypothesis_test(chk, chk.rng.fork(), chk.tier)
            except Exception as ex:
                chk.infra_errors.append("doPivot hypothesis test failed: %r" % (ex,))
            # canary (DESIGN.md section 7): the model variant WITHOUT the depth limit must be told
            # apart from the real code by the observation (number of less calls) on killer inputs;
            # if not, the comparison is too weak to notice a missing heapsort fallback
            try:
                kc = [c for c in dict(streams)["quicksort-killer"] if int(c.split()[3]) >= 200]
                can = common.run_model([c.replace("c15S", "c15N", 1) for c in kc])
                imp = common.run_impl(binary, kc)
                differ = sum(1 for m, i in zip(can, imp) if compare("c15S", m, i) is not None)
                chk.cov["canary_no_depth_limit"] = dict(cases=len(kc), told_apart=differ)
                if kc and differ == 0:
                    chk.infra_errors.append("canary: the no-depth-limit model variant is not distinguished from the implementation on any killer input")
            except Exception as ex:
                chk.infra_errors.append("canary run failed: %r" % (ex,))
    chk.finish(search=search)


def search(chk):
    """Correspondence or proof broken: look for an input where the implementation itself
    violates the property (monitors only, larger generator)."""
    binary = pure.build_pure(chk)
    if not binary:
        return
    streams = gen(chk.rng.fork(), "thorough")
    cases = [c for _, cs in streams for c in cs]
    impl = common.run_impl(binary, cases)
    for c, i in zip(cases, impl):
        mf = monitor(c, i)
        if mf:
            chk.monitor_fail(mf[0], c, i, mf[1])


def replay(chk, path):
    import json
    rep = json.load(open(path))
    binary = pure.build_pure(chk)
    cases = [x["case"] for x in rep.get("failing_inputs", []) + rep.get("divergences", []) if isinstance(x.get("case"), str) and x["case"].startswith("c15")]
    impl = common.run_impl(binary, cases)
    model = common.run_model(cases)
    bad = 0
    for c, m, i in zip(cases, model, impl):
        mf = monitor(c, i)
        print("case=%s\n  model=%s\n  impl=%s\n  monitor=%s compare=%s" % (c[:300], m[:300], i[:300], mf, compare(c, m, i)))
        if mf or compare(c, m, i):
            bad += 1
    print("replayed %d case(s), %d still failing" % (len(cases), bad))
    raise SystemExit(1 if bad else 0)
