# C15 -- sortx.SliceBy / UniqueInt / UniqueString.
# Model: coq/models/Sort.v, coq/models/Unique.v ; theorems: coq/props/C15.v
import itertools

from . import common, pure

PROOFS = ["proofs/SortProofs.v", "proofs/SortSorted.v", "proofs/SortPivot.v", "proofs/UniqueProofs.v", "models/Sort.v", "models/Unique.v",
          "models/SortSeq.v", "proofs/SortSeqProofs.v"]

BR_NAMES = ["small_segment_insertion", "doPivot", "ninther", "dup_check", "protect_loop",
            "heapsort_fallback", "recurse_left_first", "recurse_right_first"]


# ---------------------------------------------------------------- the user's less (same as srt_less_mode / c15Less)
def less(mode, x, y):
    if mode == 0:
        return x < y
    if mode == 1:
        return y < x
    if mode == 2:
        return x // 4 < y // 4
    if mode == 3:
        return (x - y) % 3 == 1
    if mode == 4:
        return True
    if mode in (6, 7):      # the less that decides x < y by calling SliceBy itself (c15Nested / srt_less_nested)
        return x < y
    return x <= y


CONSISTENT = (0, 1, 2, 6, 7)  # strict weak orders


def lst(s):
    s = s.strip("[]")
    return [int(x) for x in s.split(",")] if s else []


def parse_sort(line):
    if not line.startswith("k="):
        return None
    parts = dict(p.split("=", 1) for p in line.split())
    return lst(parts["k"]), lst(parts["v"]), int(parts["c"]), (lst(parts["br"]) if "br" in parts else None)


def parse_unique(line):
    if not line.startswith("r="):
        return None
    parts = dict(p.split("=", 1) for p in line.split())
    return lst(parts["r"]), lst(parts["a"])


def sort_case(mode, kt, keys, vals):
    return "c15S %d %d %d %d %s" % (mode, kt, len(keys), len(vals), " ".join(map(str, list(keys) + list(vals))))


def case_params(case):
    t = case.split()
    mode, kt, nk, nv = int(t[1]), int(t[2]), int(t[3]), int(t[4])
    xs = [int(x) for x in t[5:]]
    return mode, kt, xs[:nk], xs[nk:nk + nv]


def cmp_bound(n):
    """Comparison budget the monitor enforces: 4 * n * (bitlen(n) + 1) + 16 -- an
    O(n log n) envelope.  Each of the <= 2*bitlen(n) quicksort levels
    costs at most ~1.25 comparisons per element (scan + ninther), the final
    insertion sorts at most 6.5 per element, heapsort at most 2*bitlen per element."""
    return 4 * n * (n.bit_length() + 1) + 16


# ---------------------------------------------------------------- compare / monitor
def compare(case, model, impl):
    tag = case.split(" ", 1)[0]
    if tag in SEQ_TAGS:
        return SEQ_TAGS[tag][0](case, model, impl)
    if tag == "c15S":
        pm, pi = parse_sort(model), parse_sort(impl)
        if pm is None:
            return "model produced no result (%s)" % model[:80]
        if pi is None:
            return "implementation produced no result (%s)" % impl[:80]
        if pm[0] != pi[0]:
            return "final keys differ"
        if pm[1] != pi[1]:
            return "final values differ"
        if pm[2] != pi[2]:
            return "number of less calls differs (model %d, impl %d)" % (pm[2], pi[2])
        return None
    pm, pi = parse_unique(model), parse_unique(impl)
    if pm is None:
        return "model produced no result (%s)" % model[:80]
    if pi is None:
        return "implementation produced no result (%s)" % impl[:80]
    if pm[0] != pi[0]:
        return "returned slice differs"
    if pm[1] != pi[1]:
        return "backing array after the call differs"
    return None


def collapse_ref(xs):
    out = []
    for x in xs:
        if not out or out[-1] != x:
            out.append(x)
    return out


def monitor(case, impl):
    """Direct restatement of the property on the implementation's observation."""
    tag = case.split(" ", 1)[0]
    if tag in SEQ_TAGS:
        return SEQ_TAGS[tag][1](case, impl)
    if tag == "c15S":
        mode, kt, keys, vals = case_params(case)
        pi = parse_sort(impl)
        if pi is None:
            return ("panic", "SliceBy panicked / gave no result: " + impl[:200])
        k2, v2, cnt, _ = pi
        n = min(len(keys), len(vals))
        if len(k2) != len(keys) or len(v2) != len(vals):
            return ("length", "slice lengths changed")
        if k2[n:] != keys[n:] or v2[n:] != vals[n:]:
            return ("suffix", "elements beyond the first min(len(keys),len(values))=%d were modified" % n)
        if sorted(zip(k2[:n], v2[:n])) != sorted(zip(keys[:n], vals[:n])):
            return ("pairs", "(key,value) pairs of the prefix are not a permutation of the original pairs")
        if mode in CONSISTENT:
            for i in range(1, n):
                if less(mode, k2[i], k2[i - 1]):
                    return ("sorted", "keys[%d]=%d is less than keys[%d]=%d after the call" % (i, k2[i], i - 1, k2[i - 1]))
        if cnt > cmp_bound(n):
            return ("comparisons", "%d less calls for n=%d (budget %d = 4*n*(bitlen n+1)+16): not O(n log n)" % (cnt, n, cmp_bound(n)))
        return None
    xs = [int(x) for x in case.split()[1:]]
    pi = parse_unique(impl)
    if pi is None:
        return ("unique-panic", "Unique panicked / gave no result: " + impl[:200])
    r, a = pi
    ref = collapse_ref(xs)
    if r != ref:
        return ("unique", "Unique returned %s, want %s" % (r[:20], ref[:20]))
    if any(x == y for x, y in zip(r, r[1:])):
        return ("unique", "equal adjacent elements in the result")
    if xs == sorted(xs) and any(not (x < y) for x, y in zip(r, r[1:])):
        return ("unique", "sorted input but result not strictly increasing")
    if a[:len(r)] != r or a[len(r):] != xs[len(r):]:
        return ("unique-array", "backing array is not result ++ untouched tail")
    return None


def nontrivial(case, model):
    tag = case.split(" ", 1)[0]
    if tag in SEQ_TAGS:
        return SEQ_TAGS[tag][2](case, model)
    if case.startswith("c15S"):
        pm = parse_sort(model)
        return pm is not None and pm[2] >= 2
    pm = parse_unique(model)
    return pm is not None and len(pm[0]) < len(pm[1])


# ---------------------------------------------------------------- calls that share something
# c15Q: call sequences on one pair of backing arrays; c15G: concurrent calls on private data;
# c15A: adaptive quicksort adversary with a solid prefix.  (c15S modes 6/7: calls from inside less.)
# "The result of a call is a function of that call's keys, values and less only"
# (c15_sliceby_history_independent, c15_store_call_is_standalone_call, c15_call_sequence).
def split_bar(s):
    return [p.strip() for p in s.split(" | ")]


def parse_q(case):
    parts = split_bar(case)
    h = parts[0].split()
    ktype, cap = int(h[1]), int(h[2])
    xs = [int(x) for x in h[3:]]
    calls = []
    for p in parts[1:]:
        t = [int(x) for x in p.split()]
        mode, ko, nk, vo, nv, w = t[:6]
        data = (t[6:6 + nk], t[6 + nk:6 + nk + nv]) if w == 1 else None
        calls.append((mode, ko, nk, vo, nv, data))
    return ktype, cap, xs[:cap], xs[cap:], calls


def q_case(ktype, k0, v0, calls):
    parts = ["c15Q %d %d %s" % (ktype, len(k0), " ".join(map(str, list(k0) + list(v0))))]
    for (mode, ko, nk, vo, nv, data) in calls:
        c = "%d %d %d %d %d %d" % (mode, ko, nk, vo, nv, 1 if data else 0)
        if data:
            c += " " + " ".join(map(str, list(data[0]) + list(data[1])))
        parts.append(c)
    return " | ".join(parts)


def parse_q_out(o):
    o = o.strip()
    if not o.startswith("k="):
        return None
    parts = dict(p.split("=", 1) for p in o.split() if "=" in p)
    return lst(parts["k"]), lst(parts["v"]), int(parts["c"])


def compare_q(case, model, impl):
    ktype, cap, k0, v0, calls = parse_q(case)
    ms, is_ = split_bar(model), split_bar(impl)
    if len(ms) != len(calls):
        return "model failed: " + model[:100]
    if len(is_) != len(calls):
        return "implementation gave %d results for %d calls (%s)" % (len(is_), len(calls), impl[:100])
    for idx, (m, i) in enumerate(zip(ms, is_)):
        pm, pi = parse_q_out(m), parse_q_out(i)
        if pm is None:
            return "call %d of the sequence: model produced no result (%s)" % (idx, m[:60])
        if pi is None:
            return "call %d of the sequence: implementation produced no result (%s)" % (idx, i[:120])
        if pm[0] != pi[0]:
            return "call %d of the sequence: key backing array differs" % idx
        if pm[1] != pi[1]:
            return "call %d of the sequence: value backing array differs" % idx
        if pm[2] != pi[2]:
            return "call %d of the sequence: number of less calls differs (model %d, impl %d)" % (idx, pm[2], pi[2])
    return None


def check_one_call(mode, keys, vals, k2, v2, cnt):
    """the property text for one SliceBy(keys, vals, less_mode) call: k2, v2 = the slices after it"""
    n = min(len(keys), len(vals))
    if len(k2) != len(keys) or len(v2) != len(vals):
        return ("length", "slice lengths changed")
    if k2[n:] != keys[n:] or v2[n:] != vals[n:]:
        return ("suffix", "elements beyond the first min(len(keys),len(values))=%d were modified" % n)
    if sorted(zip(k2[:n], v2[:n])) != sorted(zip(keys[:n], vals[:n])):
        return ("pairs", "(key,value) pairs of the prefix are not a permutation of the original pairs")
    if mode in CONSISTENT:
        for i in range(1, n):
            if less(mode, k2[i], k2[i - 1]):
                return ("sorted", "keys[%d]=%d is less than keys[%d]=%d after the call" % (i, k2[i], i - 1, k2[i - 1]))
    if cnt > cmp_bound(n):
        return ("comparisons", "%d less calls for n=%d (budget %d = 4*n*(bitlen n+1)+16): not O(n log n)" % (cnt, n, cmp_bound(n)))
    return None


def monitor_q(case, impl):
    """every call of the sequence must satisfy the property on the slices it was given, and must
    not touch the backing arrays outside them -- whatever the earlier calls were"""
    ktype, cap, ks, vs, calls = parse_q(case)
    outs = split_bar(impl)
    if len(outs) != len(calls):
        return ("panic", "no result for the sequence: " + impl[:200])
    for idx, ((mode, ko, nk, vo, nv, data), o) in enumerate(zip(calls, outs)):
        if data:
            ks = ks[:ko] + list(data[0]) + ks[ko + nk:]
            vs = vs[:vo] + list(data[1]) + vs[vo + nv:]
        hist = "call %d of the sequence (slices keys[%d:%d], values[%d:%d] of backing arrays of %d elements; earlier calls: %s): " % (
            idx, ko, ko + nk, vo, vo + nv, cap, ",".join("len %d" % min(c[2], c[4]) for c in calls[:idx]) or "none")
        po = parse_q_out(o)
        if po is None:
            return ("panic", hist + "SliceBy panicked / gave no result: " + o[:200])
        k2, v2, cnt = po
        if len(k2) != cap or len(v2) != cap:
            return ("length", hist + "backing array length changed")
        if k2[:ko] != ks[:ko] or k2[ko + nk:] != ks[ko + nk:] or v2[:vo] != vs[:vo] or v2[vo + nv:] != vs[vo + nv:]:
            return ("outside-slice", hist + "the backing arrays were modified outside the slices given to the call")
        mf = check_one_call(mode, ks[ko:ko + nk], vs[vo:vo + nv], k2[ko:ko + nk], v2[vo:vo + nv], cnt)
        if mf:
            return (mf[0], hist + mf[1])
        ks, vs = k2, v2
    return None


def nontrivial_q(case, model):
    outs = [parse_q_out(m) for m in split_bar(model)]
    return len(outs) >= 2 and all(o is not None for o in outs) and outs[-1][2] + outs[-2][2] >= 2


def g_subs(case):
    return ["c15S " + p for p in split_bar(case)[1:]]


def compare_g(case, model, impl):
    subs = g_subs(case)
    ms, is_ = split_bar(model), split_bar(impl)
    if len(ms) != len(subs) or len(is_) != len(subs):
        return "result count differs from the number of goroutines (%s)" % impl[:100]
    for g, (c, m, i) in enumerate(zip(subs, ms, is_)):
        note = compare(c, m, i)
        if note:
            return "goroutine %d of %d (private data, concurrent with the others): %s (sequential answer: %s)" % (g, len(subs), note, m[:80])
    return None


def monitor_g(case, impl):
    subs = g_subs(case)
    is_ = split_bar(impl)
    if len(is_) != len(subs):
        return ("panic", "no result: " + impl[:200])
    for g, (c, i) in enumerate(zip(subs, is_)):
        mf = monitor(c, i)
        if mf:
            return (mf[0], "goroutine %d of %d sorting private slices concurrently with the others: %s" % (g, len(subs), mf[1]))
    return None


def parse_a(o):
    if not o.startswith("k="):
        return None
    parts = dict(p.split("=", 1) for p in o.split())
    return lst(parts["k"]), lst(parts["v"]), int(parts["c"]), lst(parts["f"])


def compare_a(case, model, impl):
    pm, pi = parse_a(model), parse_a(impl)
    if pm is None:
        return "model produced no result (%s)" % model[:80]
    if pi is None:
        return "implementation produced no result (%s)" % impl[:80]
    if pm[2] != pi[2]:
        return "number of less calls against the adversary differs (model %d, impl %d)" % (pm[2], pi[2])
    if pm[3] != pi[3]:
        return "the adversary froze different values"
    if pm[0] != pi[0] or pm[1] != pi[1]:
        return "final keys/values differ"
    return None


def monitor_a(case, impl):
    t = case.split()
    n = int(t[1])
    pa = parse_a(impl)
    if pa is None:
        return ("panic", "SliceBy panicked / gave no result: " + impl[:200])
    k2, v2, cnt, f = pa
    if sorted(k2) != list(range(n)) or v2 != k2:
        return ("pairs", "(key,value) pairs are not a permutation of the original pairs")
    for i in range(1, n):
        if f[k2[i]] < f[k2[i - 1]]:
            return ("sorted", "item %d (adversary value %d) placed after item %d (value %d)" % (k2[i], f[k2[i]], k2[i - 1], f[k2[i - 1]]))
    if cnt > cmp_bound(n):
        return ("comparisons", "%d less calls for n=%d against the adaptive adversary with %s of %d items solid before the sort "
                "(budget %d = 4*n*(bitlen n+1)+16): not O(n log n); the same comparisons are made on the static keys %s..." % (
                    cnt, n, t[2], n, cmp_bound(n), f[:12]))
    return None


# ---------------------------------------------------------------- c15V: a less that reads the values slice too
def v_params(case):
    t = case.split()
    m = int(t[2])
    comp = [int(x) for x in t[3:]]
    return m, comp


def compare_v(case, model, impl):
    pm, pi = parse_sort(model), parse_sort(impl)
    if pm is None:
        return "model produced no result (%s)" % model[:80]
    if pi is None:
        return "implementation produced no result (%s)" % impl[:80]
    if pm[0] != pi[0] or pm[1] != pi[1]:
        return "final (key, value) pairs differ"
    if pm[2] != pi[2]:
        return "number of less calls differs (model %d, impl %d)" % (pm[2], pi[2])
    return None


def monitor_v(case, impl):
    m, comp = v_params(case)
    pi = parse_sort(impl)
    if pi is None:
        return ("panic", "SliceBy panicked / gave no result: " + impl[:200])
    k2, v2, cnt, _ = pi
    if any(k % m != v for k, v in zip(k2, v2)) or sorted(k2) != sorted(comp):
        return ("pairs", "(key,value) pairs after the call are not a permutation of the original pairs (less compares keys, ties by value)")
    for i in range(1, len(k2)):
        if k2[i] < k2[i - 1]:
            return ("sorted", "pair #%d (key %d, value %d) is less than pair #%d (key %d, value %d) under the supplied less (key, then value)" % (
                i, k2[i] // m, k2[i] % m, i - 1, k2[i - 1] // m, k2[i - 1] % m))
    if cnt > cmp_bound(len(comp)):
        return ("comparisons", "%d less calls for n=%d: not O(n log n)" % (cnt, len(comp)))
    return None


SEQ_TAGS = {
    "c15V": (compare_v, monitor_v, lambda case, model: len(case.split()) > 5),
    "c15Q": (compare_q, monitor_q, nontrivial_q),
    "c15G": (compare_g, monitor_g, lambda case, model: len(g_subs(case)) >= 2),
    "c15A": (compare_a, monitor_a, lambda case, model: parse_a(model) is not None and parse_a(model)[2] >= 2),
}


def gcd(a, b):
    while b:
        a, b = b, a % b
    return a


def adv_case(rng, n, k):
    a = 2 * rng.below(max(1, n // 2)) + 1
    while gcd(a, n) != 1:
        a += 2
    return "c15A %d %d %d %d" % (n, k, a % n if n > 1 else 0, rng.below(n))


def gen_shared(rng, tier):
    quick = tier == "quick"
    streams = []
    # 1. sequences on one pair of backing arrays: two calls, every pair of lengths of a list that
    #    crosses the 12 / 40 thresholds, (grow within capacity, shrink, equal), three element types
    seq = []
    lens = [0, 1, 2, 5, 12, 13, 14, 30, 41, 45]
    for cap in ((6, 14, 45) if quick else (6, 14, 30, 45, 64)):
        for n1 in [x for x in lens if x <= cap]:
            for n2 in [x for x in lens if x <= cap]:
                k0 = [rng.range(0, 99) for _ in range(cap)] if rng.chance(1, 2) else list(range(cap, 0, -1))
                v0 = list(range(100, 100 + cap))
                m2 = rng.choice([0, 0, 1, 2])
                seq.append(q_case(rng.below(3), k0, v0, [(rng.choice([0, 1]), 0, n1, 0, n1, None), (m2, 0, n2, 0, n2, None)]))
    streams.append(("seq-two-calls-same-backing-arrays", seq))
    # 2. random sequences: 3..8 calls on random sub-slices (offsets, different key/value lengths),
    #    some overwritten before the call, all less modes incl. inconsistent and nested ones
    rnd = []
    cnt = 500 if quick else 8000
    for _ in range(cnt):
        cap = rng.choice([2, 5, 13, 14, 20, 41, 50, rng.range(1, 80)])
        hi = rng.choice([3, 50, 100000])
        k0 = [rng.range(-hi, hi) for _ in range(cap)]
        v0 = [rng.range(0, 999) for _ in range(cap)]
        calls = []
        for _ in range(rng.range(3, 8)):
            nk = rng.choice([cap, rng.range(0, cap), rng.range(0, cap)])
            nv = rng.choice([nk if nk <= cap else cap, rng.range(0, cap)])
            ko = rng.choice([0, 0, rng.range(0, cap - nk)])
            vo = rng.choice([0, 0, rng.range(0, cap - nv)])
            data = None
            if rng.chance(1, 3):
                data = ([rng.range(-hi, hi) for _ in range(nk)], [rng.range(0, 999) for _ in range(nv)])
            calls.append((rng.choice([0, 0, 1, 2, 3, 4, 5, 6]), ko, nk, vo, nv, data))
        rnd.append(q_case(rng.below(3), k0, v0, calls))
    streams.append(("seq-random-subslices", rnd))
    # 3. SliceBy called from inside less (modes 6: 2-element inner sort, 7: 14-element inner sort)
    nest = []
    for n in ([2, 3, 5, 12, 13, 14, 30, 41, 60, 100] if quick else [2, 3, 5, 8, 12, 13, 14, 20, 30, 41, 42, 60, 100, 200, 400]):
        for name, ks in families(rng, n):
            if name in ("random", "reversed", "dups3", "organ-pipe", "sorted-blocks") or not quick:
                nest.append(sort_case(rng.choice([6, 7]), rng.below(3), ks, list(range(n))))
    streams.append(("nested-sliceby-inside-less", nest))
    # 4. goroutines sorting private data concurrently (every less call yields; procs 1 = one P)
    conc = []
    cnt = 60 if quick else 600
    for _ in range(cnt):
        subs = []
        for _ in range(rng.choice([2, 3, 4, 8])):
            n = rng.choice([5, 13, 14, 30, 31, 32, 41, 60, rng.range(2, 120)])
            hi = rng.choice([3, 1000])
            nv = rng.choice([n, n, rng.range(0, n + 5)])
            subs.append(sort_case(rng.choice([0, 0, 1, 2, 3, 6]), rng.below(3), [rng.range(0, hi) for _ in range(n)],
                                  list(range(nv)))[len("c15S "):])
        conc.append("c15G %d | %s" % (rng.choice([1, 1, 2, 0]), " | ".join(subs)))
    streams.append(("concurrent-private-data", conc))
    # 5. adaptive quicksort adversary with k of the n items solid before the sort starts
    #    (model plays the same adversary; sizes the list-based model can afford)
    adv = []
    for n in ([13, 50, 100, 200, 400] if quick else [13, 41, 50, 100, 200, 400, 700, 1000]):
        ks = sorted(set([0, 1, n // 2, n - 1, n] + [rng.range(0, n) for _ in range(6 if quick else 20)]))
        for k in ks:
            adv.append(adv_case(rng, n, k))
    streams.append(("killer-adaptive-solid-prefix", adv))
    return streams


def adversary_large(chk, binary, rng, tier):
    """The adaptive adversary with a solid prefix on sizes the list-based model cannot afford:
    implementation + monitor only (comparison budget, sortedness, pairs); then the frozen values are
    given back as STATIC keys (c15S) to implementation and monitor."""
    cases = []
    for n in ([1024, 2048, 4096] if tier == "quick" else [1024, 2048, 4096, 8192]):
        step = max(1, n // (40 if tier == "quick" else 200))
        for k in range(0, n + 1, step):
            cases.append(adv_case(rng, n, min(n, k + rng.below(step))))
    impl = common.run_impl(binary, cases)
    worst = 0.0
    static = []
    for c, i in zip(cases, impl):
        chk.count_case("killer-adaptive-solid-prefix-large(impl+monitor)", c, True)
        mf = monitor_a(c, i)
        pa = parse_a(i)
        if pa:
            n = int(c.split()[1])
            worst = max(worst, pa[2] / float(cmp_bound(n)))
            if mf or len(static) < 6:
                static.append(sort_case(0, 0, pa[3], list(range(n))))
        if mf:
            chk.monitor_fail(mf[0], c, i[:300], mf[1])
    si = common.run_impl(binary, static) if static else []
    for c, i in zip(static, si):
        chk.count_case("killer-solid-prefix-static(impl+monitor)", c[:200], True)
        mf = monitor(c, i)
        if mf:
            chk.monitor_fail(mf[0], c, i[:300], mf[1])
    chk.cov["adversary_large"] = dict(cases=len(cases), static_replays=len(static), max_comparisons_over_budget_ratio=round(worst, 3))


# ---------------------------------------------------------------- generators
def families(rng, n):
    """adversarial key families of length n: (name, keys)"""
    out = []
    out.append(("sorted", list(range(n))))
    out.append(("reversed", list(range(n, 0, -1))))
    out.append(("constant", [7] * n))
    out.append(("organ-pipe", [min(i, n - 1 - i) for i in range(n)]))
    out.append(("organ-pipe-inv", [max(i, n - 1 - i) for i in range(n)]))
    out.append(("dups3", [rng.below(3) for _ in range(n)]))
    out.append(("dups-sqrt", [rng.below(max(2, int(n ** 0.5))) for _ in range(n)]))
    out.append(("random", [rng.range(-1000000, 1000000) for _ in range(n)]))
    out.append(("sawtooth", [i % 7 for i in range(n)]))
    out.append(("zero-one", [(i * 7 // 3) % 2 for i in range(n)]))
    one = [5] * n
    if n:
        one[rng.below(n)] = rng.choice([4, 6])
    out.append(("all-equal-but-one", one))
    ns = list(range(n))
    for _ in range(max(1, n // 20)):
        i, j = rng.below(max(1, n)), rng.below(max(1, n))
        if n:
            ns[i], ns[j] = ns[j], ns[i]
    out.append(("nearly-sorted", ns))
    out.append(("sorted-blocks", [(i % 16) * 100 + i // 16 for i in range(n)]))
    return out


def killer_keys(sizes):
    """McIlroy-style quicksort killers, built by the OCaml driver against the extracted
    model itself (with and without the depth limit)."""
    reqs = []
    for n in sizes:
        reqs.append("c15K %d 1" % n)
        if n <= 700:
            reqs.append("c15K %d 0" % n)
    outs = common.run_model(reqs)
    res = []
    for r, o in zip(reqs, outs):
        ks = [int(x) for x in o.split()]
        if len(ks) != int(r.split()[1]):
            raise RuntimeError("killer generation failed: " + o[:100])
        res.append(("killer-" + ("limit" if r.endswith("1") else "nolimit"), ks))
    return res


def gen(rng, tier):
    streams = []
    quick = tier == "quick"
    # 1. bounded-exhaustive: all key sequences over a 4-letter alphabet
    L = 7 if quick else 8
    ex = []
    for n in range(0, L + 1):
        vals = list(range(10, 10 + n))
        for ks in itertools.product(range(4), repeat=n):
            ex.append(sort_case(0, 0, ks, vals))
    streams.append(("exhaustive-alphabet4", ex))
    # 2. other less functions (descending, weak order with ties, inconsistent) and element types, small
    sm = []
    cnt = 1500 if quick else 30000
    for _ in range(cnt):
        n = rng.choice([0, 1, 2, 3, 5, 8, 11, 12, 13, 14, rng.range(0, 30)])
        hi = rng.choice([2, 4, 9, 1000])
        ks = [rng.range(-hi, hi) for _ in range(n)]
        sm.append(sort_case(rng.choice([0, 1, 2, 2, 3, 3, 4, 5]), rng.below(3), ks, list(range(n))))
    streams.append(("modes-types-small", sm))
    # 2b. a less that reads the VALUES slice as well (ties between equal keys broken by the value)
    lv = []
    for _ in range(500 if quick else 10000):
        n = rng.choice([0, 1, 2, 3, 5, 8, 11, 12, 13, 14, 25, 40, rng.range(0, 120)])
        hi = rng.choice([1, 2, 4, 9])
        vs = list(range(n))
        rng.shuffle(vs)
        m = max(n, 1)
        lv.append("c15V %d %d %s" % (rng.below(2), m, " ".join(str(rng.range(0, hi) * m + v) for v in vs)))
    streams.append(("less-reads-values", lv))
    # 3. keys and values of different lengths
    df = []
    cnt = 600 if quick else 10000
    for _ in range(cnt):
        nk = rng.choice([0, 1, 2, 5, 13, 14, 20, 41, 45, 60, rng.range(0, 80)])
        nv = rng.choice([0, 1, 2, 5, 13, 14, 20, 41, 45, 60, rng.range(0, 80)])
        hi = rng.choice([3, 50, 100000])
        ks = [rng.range(0, hi) for _ in range(nk)]
        vs = [rng.range(0, 9) for _ in range(nv)]
        df.append(sort_case(rng.choice([0, 0, 1, 2, 3]), rng.below(3), ks, vs))
    streams.append(("different-lengths", df))
    # 4. adversarial families around the thresholds (12: insertion sort, 40: ninther) and long
    if quick:
        sizes = [11, 12, 13, 14, 25, 39, 40, 41, 42, 50, 64, 97, 128, 200, 333, 500, 1000, 2000]
        ksizes = [13, 41, 50, 100, 200, 400, 700, 1000, 2000]
    else:
        sizes = list(range(9, 60)) + [64, 97, 100, 128, 150, 200, 256, 333, 500, 640, 777, 1000, 1024, 1500, 2000]
        ksizes = [13, 14, 20, 30, 41, 42, 50, 64, 100, 128, 200, 300, 400, 500, 700, 1000, 1500, 2000]
    fam = []
    reps = 1 if quick else 3
    for n in sizes:
        for _ in range(reps):
            for name, ks in families(rng, n):
                mode = 0
                if rng.chance(1, 6):
                    mode = rng.choice([1, 2, 3, 4, 5])
                fam.append(sort_case(mode, rng.below(3) if n <= 200 else 0, ks, list(range(n))))
    streams.append(("adversarial-families", fam))
    kl = []
    for name, ks in killer_keys(ksizes):
        kl.append(sort_case(0, 0, ks, list(range(len(ks)))))
        kl.append(sort_case(1, 0, [-k for k in ks], list(range(len(ks)))))
    streams.append(("quicksort-killer", kl))
    # 5. Unique: exhaustive over a 3-letter alphabet + long random / sorted inputs
    un = []
    LU = 7 if quick else 9
    for n in range(0, LU + 1):
        for xs in itertools.product(range(3), repeat=n):
            un.append(("c15U " if (n + sum(xs)) % 2 == 0 else "c15W ") + " ".join(map(str, xs)))
    streams.append(("unique-exhaustive-alphabet3", un))
    ur = []
    cnt = 300 if quick else 5000
    for _ in range(cnt):
        n = rng.choice([0, 1, 2, 3, 10, 50, rng.range(0, 400)])
        hi = rng.choice([1, 2, 5, 100, 1 << 40])
        xs = [rng.range(-hi, hi) for _ in range(n)]
        if rng.chance(1, 2):
            xs.sort()
        ur.append(rng.choice(["c15U ", "c15W "]) + " ".join(map(str, xs)))
    streams.append(("unique-random-sorted", ur))
    streams += gen_shared(rng.fork(), tier)
    return streams


# ---------------------------------------------------------------- doPivot postcondition, also tested
def pivot_hypothesis_test(chk, rng, tier):
    """srt_partition_ok (doPivot returns a three-zone partition) is proved in Coq
    (proofs/SortPivot.v, c15_dopivot_partition).  It is additionally tested here on the
    extracted model function srt_do_pivot (a sanity check of statement and extraction, and of
    the stricter bound mlo < mhi): segments [lo,hi) with hi-lo > 12 inside longer arrays,
    all adversarial families, strict weak orders only."""
    cases = []
    cnt = 1500 if tier == "quick" else 20000
    for _ in range(cnt):
        w = rng.choice([13, 14, 20, 40, 41, 42, 60, rng.range(13, 120), rng.range(13, 400)])
        lo = rng.choice([0, 0, 1, 5, rng.range(0, 30)])
        tail = rng.choice([0, 0, 3, rng.range(0, 20)])
        fam = families(rng, w)
        name, seg = rng.choice(fam)
        keys = [rng.range(-5, 5) for _ in range(lo)] + seg + [rng.range(-5, 5) for _ in range(tail)]
        cases.append("c15P %d %d %d %s" % (rng.choice(CONSISTENT), lo, lo + w, " ".join(map(str, keys))))
    outs = common.run_model(cases)
    bad = 0
    for c, o in zip(cases, outs):
        t = c.split()
        mode, lo, hi = int(t[1]), int(t[2]), int(t[3])
        keys = [int(x) for x in t[4:]]
        why = None
        if not o.startswith("m="):
            why = "doPivot model did not return: " + o[:60]
        else:
            parts = dict(p.split("=", 1) for p in o.split())
            mlo, mhi = [int(x) for x in parts["m"].split(",")]
            k2 = lst(parts["k"])
            le = lambda x, y: not less(mode, y, x)
            if not (lo <= mlo < mhi <= hi):
                why = "bounds lo <= mlo < mhi <= hi violated"
            elif k2[:lo] != keys[:lo] or k2[hi:] != keys[hi:] or sorted(k2[lo:hi]) != sorted(keys[lo:hi]):
                why = "not a permutation of the segment / outside touched"
            else:
                p = k2[mlo]
                if not (all(le(x, p) for x in k2[lo:mlo]) and all(le(x, p) and le(p, x) for x in k2[mlo:mhi])
                        and all(le(p, x) for x in k2[mhi:hi])):
                    why = "three-zone postcondition violated"
        if why:
            bad += 1
            chk.diverge("dopivot-partition-hypothesis", c, o, "", "doPivot postcondition (c15_dopivot_partition) refuted on the extracted model: " + why)
    chk.cov["dopivot_partition_hypothesis_tested"] = dict(cases=len(cases), violations=bad)


# ---------------------------------------------------------------- vm_compute cross-check
def coq_crosscheck(chk, cases, model_out):
    items = []
    def z(v):
        return "(%d)" % v
    def zl(l):
        return "[" + ";".join(z(x) for x in l) + "]"
    for c, m in zip(cases, model_out):
        if c.startswith("c15S"):
            pm = parse_sort(m)
            if pm is None:
                continue
            mode, kt, keys, vals = case_params(c)
            items.append("ck_s %s %s %s %s %s %d" % (z(mode), zl(keys), zl(vals), zl(pm[0]), zl(pm[1]), pm[2]))
        elif c.startswith("c15Q"):
            ktype, cap, k0, v0, calls = parse_q(c)
            outs = [parse_q_out(o) for o in split_bar(m)]
            if any(o is None for o in outs):
                continue
            cl = ";".join("StcMk %s %d %d %d %d %s" % (z(mode), ko, nk, vo, nv, ("(Some (%s, %s))" % (zl(d[0]), zl(d[1]))) if d else "None")
                          for (mode, ko, nk, vo, nv, d) in calls)
            el = ";".join("(%s, %s, %d%%N)" % (zl(o[0]), zl(o[1]), o[2]) for o in outs)
            items.append("ck_q (StoMk %s %s) [%s] [%s]" % (zl(k0), zl(v0), cl, el))
        elif not c.startswith(("c15U", "c15W")):
            continue
        else:
            pm = parse_unique(m)
            if pm is None:
                continue
            xs = [int(x) for x in c.split()[1:]]
            items.append("ck_u %s %s %s" % (zl(xs), zl(pm[0]), zl(pm[1])))
    if not items:
        return 0
    body = """From Got Require Import Base Sort Unique SortSeq.
Local Open Scope Z_scope.
Definition zl_eqb (a b : list Z) : bool := if list_eq_dec Z.eq_dec a b then true else false.
Definition ck_s (mode : Z) (ks vs ks' vs' : list Z) (c : N) : bool :=
  match srt_sliceby (srt_less_mode2 mode) ks vs with
  | SOk s => zl_eqb (st_keys s) ks' && zl_eqb (st_vals s) vs' && N.eqb (st_cmp s) c
  | _ => false end.
Fixpoint ck_q_all (rs : list (srt_res (srt_store * N))) (es : list (list Z * list Z * N)) : bool :=
  match rs, es with
  | [], [] => true
  | SOk (st, n) :: rs', (k, v, c) :: es' => zl_eqb (sto_keys st) k && zl_eqb (sto_vals st) v && N.eqb n c && ck_q_all rs' es'
  | _, _ => false end.
Definition ck_q (st : srt_store) (cs : list srt_call) (es : list (list Z * list Z * N)) : bool :=
  ck_q_all (srt_run_calls st cs) es.
Definition ck_u (xs r a : list Z) : bool :=
  match unq_unique_z xs with
  | Ok (r', a') => zl_eqb r r' && zl_eqb a a'
  | _ => false end.
Definition cases : list bool := [%s].
Definition bad := Eval vm_compute in length (filter negb cases).
Print bad.
""" % ";\n".join(items)
    out = common.run_coq_eval(body)
    if "bad = 0%nat" not in out.replace("\n", " "):
        chk.diverge("vm_compute-vs-extraction", "sample of %d cases" % len(items), out[-300:], "", "extracted OCaml model disagrees with vm_compute")
    return len(items)


# ---------------------------------------------------------------- run
def run_streams(chk, binary, streams):
    names, cases = [], []
    for name, cs in streams:
        for c in cs:
            names.append(name)
            cases.append(c)
    try:
        impl = common.run_impl(binary, cases)
    except common.ImplCrash as e:
        chk.infra_errors.append("implementation harness crashed (a panic escaping the harness or a hang): " + str(e)[-1500:])
        return [], []
    model = common.run_model(cases)
    br = [0] * len(BR_NAMES)
    br_cases = [0] * len(BR_NAMES)
    sizes = {}
    maxratio = 0.0
    for name, c, m, i in zip(names, cases, model, impl):
        chk.count_case(name, c, nontrivial(c, m))
        chk.cov["programs"] += 1
        note = compare(c, m, i)
        chk.cov["disagreements_checked"] += 1
        if note is not None:
            chk.diverge(name, c, m, i, note)
        else:
            chk.cov["traces_validated_against_impl"] += 1
        mf = monitor(c, i)
        if mf is not None:
            chk.monitor_fail(mf[0], c, i, mf[1])
        if c.startswith("c15S"):
            pm = parse_sort(m)
            if pm and pm[3]:
                for k, v in enumerate(pm[3]):
                    br[k] += v
                    br_cases[k] += 1 if v else 0
                n = min(int(c.split()[3]), int(c.split()[4]))
                b = "n<=1" if n <= 1 else "2..12" if n <= 12 else "13..40" if n <= 40 else "41..200" if n <= 200 else "201..2000"
                sizes[b] = sizes.get(b, 0) + 1
                if n >= 2:
                    maxratio = max(maxratio, pm[2] / float(cmp_bound(n)))
    chk.cov["model_branch_hits"] = dict(zip(BR_NAMES, br))
    chk.cov["cases_hitting_branch"] = dict(zip(BR_NAMES, br_cases))
    chk.cov["sort_prefix_length_distribution"] = sizes
    chk.cov["max_comparisons_over_budget_ratio"] = round(maxratio, 3)
    for k, name in enumerate(BR_NAMES):
        if br[k] == 0:
            chk.infra_errors.append("generator weakness: model branch '%s' was never executed" % name)
    seen = set()
    for name, c, m, i in zip(names, cases, model, impl):
        if name not in seen:
            seen.add(name)
            chk.sample(dict(stream=name, case=c[:400], model=m[:400], impl=i[:400]), limit=12)
    return cases, model


def run(chk):
    chk.trusted = common.BASE_TRUSTED + [
        "modelled: Go int indices as unbounded Z (no wrap below 2^62 elements; uint(lo+hi)>>1 as (lo+hi)/2); "
        "reflect.Swapper as element swap of a list; the user's less as a pure total function of the two key values "
        "(the Go closure less(i,j) reads keys[i], keys[j])",
    ]
    chk.assumptions = [
        "less is a pure function of the two key values (for sortedness: a strict weak order; permutation/suffix/termination/bound: any less)",
        "slice lengths < 2^62 (Go int arithmetic does not wrap)",
    ]
    chk.cov["rule"] = ("cases = (less mode, element types, keys, values) for SliceBy and integer/string lists for Unique*; "
                       "non-trivial = the model performs >= 2 less calls (SliceBy) / the result is shorter than the input (Unique); "
                       "distinct = distinct case line")
    chk.run_proof_gate(PROOFS)
    binary = pure.build_pure(chk)
    if binary:
        streams = [("corpus", pure.corpus_cases("C15"))] + gen(chk.rng, chk.tier)
        cases, model = run_streams(chk, binary, streams)
        # vm_compute cross-check on a sample (small + a few medium-sized cases)
        if cases:
            idx = [k for k, c in enumerate(cases) if len(c) < 700]
            step = max(1, len(idx) // 150)
            pick = idx[::step][:170]
            try:
                n = coq_crosscheck(chk, [cases[k] for k in pick], [model[k] for k in pick])
                chk.cov["vm_compute_crosschecked"] = n
            except Exception as ex:
                chk.infra_errors.append("vm_compute cross-check failed: %r" % (ex,))
            try:
                pivot_hypothesis_test(chk, chk.rng.fork(), chk.tier)
            except Exception as ex:
                chk.infra_errors.append("doPivot hypothesis test failed: %r" % (ex,))
            try:
                adversary_large(chk, binary, chk.rng.fork(), chk.tier)
            except common.ImplCrash as ex:
                chk.infra_errors.append("implementation harness crashed (adversary stream): " + str(ex)[-800:])
            # canary (DESIGN.md section 7): the model variant WITHOUT the depth limit must be told
            # apart from the real code by the observation (number of less calls) on killer inputs;
            # if not, the comparison is too weak to notice a missing heapsort fallback
            try:
                kc = [c for c in dict(streams)["quicksort-killer"] if int(c.split()[3]) >= 200]
                can = common.run_model([c.replace("c15S", "c15N", 1) for c in kc])
                imp = common.run_impl(binary, kc)
                differ = sum(1 for m, i in zip(can, imp) if compare("c15S", m, i) is not None)
                chk.cov["canary_no_depth_limit"] = dict(cases=len(kc), told_apart=differ)
                if kc and differ == 0:
                    chk.infra_errors.append("canary: the no-depth-limit model variant is not distinguished from the implementation on any killer input")
            except Exception as ex:
                chk.infra_errors.append("canary run failed: %r" % (ex,))
    chk.finish(search=search)


def search(chk):
    """Correspondence or proof broken: look for an input where the implementation itself
    violates the property (monitors only, larger generator)."""
    binary = pure.build_pure(chk)
    if not binary:
        return
    streams = gen(chk.rng.fork(), "thorough")
    cases = [c for _, cs in streams for c in cs]
    impl = common.run_impl(binary, cases)
    for c, i in zip(cases, impl):
        mf = monitor(c, i)
        if mf:
            chk.monitor_fail(mf[0], c, i, mf[1])
    adversary_large(chk, binary, chk.rng.fork(), "thorough")


def replay(chk, path):
    import json
    rep = json.load(open(path))
    binary = pure.build_pure(chk)
    cases = [x["case"] for x in rep.get("failing_inputs", []) + rep.get("divergences", []) if isinstance(x.get("case"), str) and x["case"].startswith("c15")]
    impl = common.run_impl(binary, cases)
    model = common.run_model(cases)
    bad = 0
    for c, m, i in zip(cases, model, impl):
        mf = monitor(c, i)
        print("case=%s\n  model=%s\n  impl=%s\n  monitor=%s compare=%s" % (c[:300], m[:300], i[:300], mf, compare(c, m, i)))
        if mf or compare(c, m, i):
            bad += 1
    print("replayed %d case(s), %d still failing" % (len(cases), bad))
    raise SystemExit(1 if bad else 0)
