# C01 -- loom.Queue is a linearizable FIFO. Model: coq/models/Queue.v ; theorems: coq/props/C01.v
import json

from . import common
from . import queue_common as qc


def compare(case, model, impl):
    if model == impl:
        return None
    pm, pi = qc.parse_out(model), qc.parse_out(impl)
    if pm is None:
        return "model produced no trace (%s)" % model[:200]
    if pi is None:
        return "implementation produced no trace"
    for k, (a, b) in enumerate(zip(pm["steps"], pi["steps"])):
        if a != b:
            return "step %d differs: model %s, implementation %s" % (k, a, b)
    if pm["fin"] != pi["fin"]:
        return "completion phase differs"
    if pm["drain"] != pi["drain"]:
        return "final queue content differs"
    return "trace differs"


def nontrivial(case, model):
    # a schedule with at least one context switch between two busy threads
    pre, progs, sched, m = qc.case_fields(case)
    return len(set(sched)) >= 2


def gen(chk, tier):
    rng = chk.rng
    streams = []
    quick = tier == "quick"
    # (a) every interleaving of 2 threads x 1 op, prefill 0..2
    ex = []
    nst = 0
    for pre, progs in qc.programs_small():
        _, scheds = qc.enum_schedules(pre, progs, "all", 3000 if quick else 200000)
        ex += [qc.case_line("c01", pre, progs, s) for s in scheds]
    streams.append(("exhaustive-2x1", ex))
    # (b) one schedule per (reachable model state, enabled thread) edge for larger programs
    ed = []
    shapes = [(2, 2), (3, 1), (2, 3), (3, 2)] if quick else [(2, 2), (3, 1), (2, 3), (3, 2), (4, 1), (3, 3), (4, 2)]
    for pre, progs in qc.programs_medium(rng, 10 if quick else 60, shapes):
        n, scheds = qc.enum_schedules(pre, progs, "edges", 1500 if quick else 20000)
        nst += n
        ed += [qc.case_line("c01", pre, progs, s) for s in scheds]
    streams.append(("state-edge-cover", ed))
    # (c) random bursty schedules, 3-4 threads x 3-5 ops
    rd = []
    for pre, progs in qc.programs_medium(rng, 300 if quick else 6000, [(3, 4), (4, 3), (4, 5), (3, 5)]):
        total = sum(len(p) for p in progs)
        rd.append(qc.case_line("c01", pre, progs, qc.random_schedule(rng, len(progs), rng.range(4, 9 * total))))
    streams.append(("random-bursty", rd))
    chk.cov["states"] = nst
    return streams


def coq_crosscheck(chk, cases, model_out):
    """Re-evaluate a sample with vm_compute inside coqc and compare with the extracted model."""
    def code(ev):
        if ev.startswith("y"):
            return int(ev[1:])
        if ev == "r:push":
            return 10
        if ev == "r:pop=nil":
            return 11
        if ev.startswith("r:pop="):
            return 1000 + int(ev[6:])
        return 0
    items = []
    for c, m in zip(cases, model_out):
        pre, progs, sched, _ = qc.case_fields(c)
        pm = qc.parse_out(m)
        pr = "[" + ";".join("[" + ";".join(("QPop" if o == "O" else "QPush %s" % o[1:]) for o in p) + "]" for p in progs) + "]"
        items.append("(q_obs (q_init [%s]%%Z %s) [%s]%%nat, [%s]%%Z, [%s]%%Z)" % (
            ";".join(map(str, pre)), pr, ";".join(map(str, sched)),
            ";".join(str(code(e)) for e in pm["steps"]), ";".join(map(str, pm["drain"]))))
    body = """From Got Require Import Base Queue.
Local Open Scope Z_scope.
Definition ev_code (s : q_state) (i : nat) (ev : q_event) : Z :=
  match ev with
  | QERetPush => 10 | QERetEmpty => 11 | QELinRetPop v => 1000 + v | QENone => 0 | QEPanic => -1
  | _ => Z.of_nat (q_site s i) end.
Fixpoint q_obs_go (s : q_state) (sched : list nat) : list Z * q_state :=
  match sched with
  | [] => ([], s)
  | i :: r => let '(s1, ev) := q_step s i in let '(l, s2) := q_obs_go s1 r in (ev_code s1 i ev :: l, s2)
  end.
(* completion: round-robin, bounded *)
Fixpoint q_fin (fuel : nat) (s : q_state) : q_state :=
  match fuel with O => s | S f =>
    let n := length (q_threads s) in
    let s' := fold_left (fun s i => if q_enabled s i then fst (q_step s i) else s) (seq 0 n) s in
    if existsb (q_enabled s') (seq 0 n) then q_fin f s' else s' end.
Definition q_obs (s : q_state) (sched : list nat) : list Z * list Z :=
  let '(l, s1) := q_obs_go s sched in (l, q_abs (q_fin 200 s1)).
Definition zl_eqb (a b : list Z) : bool := if list_eq_dec Z.eq_dec a b then true else false.
Definition ok (c : (list Z * list Z) * list Z * list Z) : bool :=
  match c with ((l, d), el, ed) => zl_eqb l el && zl_eqb d ed end.
Definition cases := [%s].
Definition bad := Eval vm_compute in length (filter (fun c => negb (ok c)) cases).
Print bad.
""" % ";\n".join(items)
    out = common.run_coq_eval(body)
    if "bad = 0%nat" not in out.replace("\n", " "):
        chk.diverge("vm_compute-vs-extraction", "sample of %d cases" % len(items), out[-300:], "", "extracted OCaml model disagrees with vm_compute")
    return len(items)


# proof gate: files whose statements are counted as obligations, and the theorems of props/C01.v
# that must exist and be closed under the global context
PROOFS = qc.PROOFS + ["lib/Linearizability.v", "proofs/LinearizabilityProofs.v", "models/QueueHistory.v", "proofs/QueueLinProofs.v",
                      "models/QueueHwCheck.v", "proofs/QueueHwCheckProofs.v"]
REQUIRED_THEOREMS = ["c01_queue_invariant", "c01_no_nil_dereference", "c01_refines_fifo", "c01_thread_protocol",
                     "c01_no_loss_dup_invent", "c01_linearizable", "c01_herlihy_wing_linearizable",
                     "c01_hw_linearization_witness", "c01_fifo_legal_consequences", "c01_hw_definition_rejects", "c01_hw_check_sound"]

# ---- cross-check of the python brute-force monitor against the Coq definition: the extracted checker
# q_hw_check (coq/models/QueueHwCheck.v; c01_hw_check_sound: true => hw_linearizable) runs on the same
# implementation histories; the final drain is encoded as Pops of an extra thread after everything else.
def hw_line(pre, ops, drain, nthreads):
    evs = []
    for o in ops:
        evs.append((o["inv"], 0, "i%d:%s" % (o["tid"], o["op"])))
        evs.append((o["ret"], 1, "r%d:%s" % (o["tid"], o["res"])))
    evs.sort()
    toks = [e[2] for e in evs]
    for d in list(drain) + [None]:
        toks.append("i%d:O" % nthreads)
        toks.append("r%d:pop=%s" % (nthreads, "nil" if d is None else d))
    return "c01hw pre=%s hist=%s" % (",".join(map(str, pre)), ",".join(toks))


def _op(tid, op, inv, ret, res):
    return dict(tid=tid, op=op, inv=inv, ret=ret, res=res)


# hand-made histories (pre, ops, drain), most of them NOT linearizable: both checkers must refuse them
HW_FIXED = [
    ([], [_op(0, "P1", 0, 1, "push"), _op(1, "O", 2, 3, "pop=nil")], [1]),           # stale nil Pop
    ([], [_op(0, "P1", 0, 2, "push"), _op(1, "O", 1, 3, "pop=nil")], [1]),           # same, overlapping: fine
    ([1], [_op(0, "O", 0, 2, "pop=1"), _op(1, "O", 1, 3, "pop=1")], []),             # value popped twice
    ([], [_op(0, "P1", 0, 1, "push"), _op(0, "P2", 2, 3, "push"), _op(1, "O", 4, 5, "pop=2")], [1]),  # not FIFO
    ([], [_op(0, "P1", 0, 1, "push")], []),                                           # value lost (drain empty)
    ([], [_op(0, "O", 0, 1, "pop=9")], []),                                           # value invented
    ([], [_op(0, "P1", 0, 3, "push"), _op(1, "P2", 1, 2, "push"), _op(2, "O", 4, 5, "pop=2")], [1]),  # fine: P2 first
    ([], [_op(0, "P1", 0, 1, "push"), _op(1, "P2", 2, 3, "push"), _op(2, "O", 4, 5, "pop=2")], [1]),  # real-time order violated
]
HW_FIXED_EXPECT = [False, True, False, False, False, False, True, False]


def hw_crosscheck(chk, binary, cases):
    impl = common.run_impl(binary, cases)
    items = []
    for c, i in zip(cases, impl):
        out = qc.parse_out(i)
        if out is None or out["drain"] is None or out["livelock"]:
            continue
        pre, ops = qc.history(c, out)
        if len(ops) > 12 or any(o["ret"] is None or o["res"] == "PANIC" for o in ops):
            continue
        nthreads = len(qc.case_fields(c)[1])
        items.append((c, pre, ops, out["drain"], nthreads, None))
    for (pre, ops, drain), exp in zip(HW_FIXED, HW_FIXED_EXPECT):
        items.append(("fixed", pre, ops, drain, 3, exp))
    lines = [hw_line(pre, ops, drain, nt) for (_, pre, ops, drain, nt, _) in items]
    res = common.run_model(lines)
    yes = no = 0
    for (c, pre, ops, drain, nt, exp), line, r in zip(items, lines, res):
        py, _ = qc.linearizable(pre, ops, drain)
        coq = {"lin=1": True, "lin=0": False}.get(r)
        if coq is None or coq != py or (exp is not None and py != exp):
            chk.diverge("hw-check-vs-monitor", line, r, "lin=%d" % int(py),
                        "extracted Coq checker q_hw_check and the python linearizability monitor disagree (or a fixed history is judged wrongly) on history of case %s" % c[:200])
        yes += int(bool(coq))
        no += int(coq is False)
    chk.cov["hw_check_crosschecked"] = len(items)
    chk.cov["hw_check_linearizable"] = yes
    chk.cov["hw_check_refused"] = no


TRUSTED = [
    "cooperative scheduler harness/internal/coop + verif-tag yield hooks in loom/queue.go (queueLoad/queueCas): one step = one shared access",
    "modelled, not verified: pointer identity of queue nodes as position in the chain (nodes are GC-managed, next CASed from nil once); Go atomics as sequentially consistent steps; goroutine scheduling as arbitrary interleaving of those steps",
]


def run(chk):
    chk.trusted = common.BASE_TRUSTED + TRUSTED
    chk.assumptions = ["sync/atomic operations are sequentially consistent (Go memory model)",
                       "preemption matters only between shared-memory accesses (all of which go through queueLoad/queueCas)"]
    chk.cov["rule"] = ("case = (prefill, one Push/Pop program per thread, schedule of thread ids); the real queue runs it under the cooperative "
                       "scheduler, the model runs q_step; compared: the event of every step (yield site kind / returned value), the round-robin "
                       "completion and the final drain. Streams: every interleaving of 2 threads x 1 op; one schedule per (reachable model state, "
                       "enabled thread) edge for 2-3 threads x 1-3 ops; random bursty schedules for 3-4 threads x up to 5 ops. "
                       "non-trivial = schedule interleaves at least two threads; distinct = distinct case line")
    chk.run_proof_gate(PROOFS)
    missing = [t for t in REQUIRED_THEOREMS if t not in chk.proof.get("theorems", []) or chk.proof.get("assumptions", {}).get(t) != []]
    if missing:
        chk.proof_failures.append("props/C01.v: required theorem(s) missing or not closed under the global context: " + ", ".join(missing))
    binary = qc.build_coop(chk)
    if binary:
        from . import pure
        streams = [("corpus", pure.corpus_cases("C01"))] + gen(chk, chk.tier)
        pure.run_streams(chk, binary, streams, compare, qc.monitor_c01, nontrivial)
        sample = [c for c in streams[2][1][:60]] + [c for c in streams[3][1][:60]]
        try:
            mo = common.run_model(sample)
            chk.cov["vm_compute_crosschecked"] = coq_crosscheck(chk, sample, mo)
        except Exception as ex:
            chk.infra_errors.append("vm_compute cross-check failed: %r" % (ex,))
        try:
            hw_crosscheck(chk, binary, streams[1][1][:40] + streams[2][1][:70] + streams[3][1][:140])
        except Exception as ex:
            chk.infra_errors.append("hw_check cross-check failed: %r" % (ex,))
    chk.finish(search=search)


def search(chk):
    binary = qc.build_coop(chk)
    if not binary:
        return
    chk.rng = chk.rng.fork()
    streams = gen(chk, "quick")
    cases = [c for _, cs in streams for c in cs]
    impl = common.run_impl(binary, cases)
    for c, i in zip(cases, impl):
        mf = qc.monitor_c01(c, i)
        if mf:
            chk.monitor_fail(mf[0], c, i, mf[1])


def replay(chk, path):
    rep = json.load(open(path))
    binary = qc.build_coop(chk)
    cases = [x["case"] for x in rep.get("failing_inputs", []) + rep.get("divergences", []) if isinstance(x.get("case"), str) and x["case"].startswith("c01")]
    impl = common.run_impl(binary, cases)
    model = common.run_model(cases)
    bad = 0
    for c, m, i in zip(cases, model, impl):
        mf = qc.monitor_c01(c, i)
        cmpr = compare(c, m, i)
        print("case=%s\n  model=%s\n  impl=%s\n  monitor=%s compare=%s" % (c, m, i, mf, cmpr))
        if mf or cmpr:
            bad += 1
    print("replayed %d case(s), %d still failing" % (len(cases), bad))
    raise SystemExit(1 if bad else 0)
