# octets.py -- helpers shared by the C11 and C12 checks (iox octets codec): case syntax,
# result parsing, an independent Python reference encoder/decoder, a parallel model runner.
import os
import resource
import struct
import subprocess

from . import common

PROOFS = ["proofs/OctetsProofs.v", "models/Octets.v", "lib/OctetsSpec.v"]

TRUSTED = common.BASE_TRUSTED + [
    "modelled, not verified: convert.String/convert.Bytes (unsafe casts) as the identity on byte lists; "
    "Go append growth (a write is 'buffer ++ bytes'); len(buffer) < 2^63 so position+readSize does not wrap; "
    "slice expressions checked against len (Go allows up to cap, so the model panics at least as often)",
    "alloc of the model = bytes requested from make(); the implementation's runtime.MemStats.TotalAlloc delta is "
    "compared as impl <= model + size-class slack",
]


# ---------------------------------------------------------------- reference codec (python)
def uleb128(u):
    out = bytearray()
    while True:
        b = u & 0x7F
        u >>= 7
        if u:
            out.append(b | 0x80)
        else:
            out.append(b)
            return bytes(out)


def ref_encode(typ, val):
    """typ in b y h i l v B S ; val = int or bytes"""
    if typ == "b":
        return bytes([1 if val else 0])
    if typ == "y":
        return bytes([val & 0xFF])
    if typ == "h":
        return struct.pack("<h", val)
    if typ == "i":
        return struct.pack("<i", val)
    if typ == "l":
        return struct.pack("<q", val)
    if typ == "v":
        return uleb128(val & 0xFFFFFFFF)
    if typ in "BS":
        return uleb128(len(val)) + val
    raise ValueError(typ)


def tok(api, typ, val):
    if typ in "BS":
        return "%s%s:%s" % (api, typ, val.hex())
    if typ == "b":
        return "%sb:%d" % (api, 1 if val else 0)
    return "%s%s:%d" % (api, typ, val)


def parse_tok(t):
    """'sh:-5' -> ('s','h',-5) ; 'wB:00ff' -> ('w','B',b'\\x00\\xff')"""
    api, typ, v = t[0], t[1], t[3:]
    if typ in "BS":
        return api, typ, bytes.fromhex(v)
    return api, typ, int(v)


# ---------------------------------------------------------------- result lines
def parse_fields(line):
    """'W=.. L=.. R=..' -> dict ; None if the line is not a result"""
    if not (line.startswith("W=") or line.startswith("R=")):
        return None
    d = {}
    for p in line.split(" "):
        if "=" in p:
            k, v = p.split("=", 1)
            d[k] = v
    return d


def parse_rd(item):
    """'h:-2@7/12+0' -> (val, pos, len, alloc)"""
    val, rest = item.rsplit("@", 1)
    pl, alloc = rest.split("+")
    pos, ln = pl.split("/")
    return val, int(pos), int(ln), int(alloc)


def parse_rds(field):
    return [parse_rd(x) for x in field.split(";")] if field else []


# ---------------------------------------------------------------- running both sides
def _big_stack():
    # the extracted list functions are not tail recursive: a 2^21-byte string needs a deep C stack
    try:
        soft, hard = resource.getrlimit(resource.RLIMIT_STACK)
        want = 4 << 30
        if hard != resource.RLIM_INFINITY:
            want = min(want, hard)
        if soft == resource.RLIM_INFINITY or soft >= want:
            return
        resource.setrlimit(resource.RLIMIT_STACK, (want, hard))
    except Exception:
        pass


def run_model_parallel(lines, nproc=None, timeout=1800):
    """Same contract as common.run_model, but the cases are split over several driver
    processes (the extracted model is pure, each line is independent)."""
    ok, log = common.build_ocaml()
    if not ok:
        raise common.BuildError("ocaml/extraction build failed:\n" + log[-2000:])
    if nproc is None:
        nproc = min(16, os.cpu_count() or 4)
    if len(lines) < 64:
        nproc = 1
    chunks = []
    per = (len(lines) + nproc - 1) // nproc
    for i in range(0, len(lines), per):
        chunks.append(lines[i:i + per])
    drv = os.path.join(common.OCAML, "driver")
    td = common.tmpdir()
    procs = []
    for k, ch in enumerate(chunks):
        inp = os.path.join(td, "m%d.in" % k)
        outp = os.path.join(td, "m%d.out" % k)
        with open(inp, "w") as f:
            f.write("\n".join(ch) + "\n")
        procs.append((subprocess.Popen([drv], stdin=open(inp), stdout=open(outp, "w"), stderr=subprocess.PIPE, preexec_fn=_big_stack), outp, len(ch)))
    out = []
    for p, outp, n in procs:
        _, err = p.communicate(timeout=timeout)
        if p.returncode != 0:
            raise RuntimeError("model driver failed: " + (err or b"").decode()[-2000:])
        o = open(outp).read().split("\n")
        if o and o[-1] == "":
            o.pop()
        if len(o) != n:
            raise RuntimeError("model driver returned %d lines for %d cases" % (len(o), n))
        out += o
    return out


def run_streams(chk, binary, streams, compare, monitor, nontrivial):
    """pure.run_streams with the parallel model runner."""
    names, cases = [], []
    for name, cs in streams:
        for c in cs:
            names.append(name)
            cases.append(c)
    if not cases:
        return [], [], []
    try:
        impl = common.run_impl(binary, cases)
    except common.ImplCrash as e:
        chk.infra_errors.append("implementation harness crashed (a panic escaping the harness, a runtime fatal error such as out of memory, or a hang): " + str(e)[-1500:])
        return [], [], []
    model = run_model_parallel(cases)
    for name, c, m, i in zip(names, cases, model, impl):
        chk.count_case(name, c, nontrivial(c, m))
        chk.cov["programs"] += 1
        note = compare(c, m, i)
        chk.cov["disagreements_checked"] += 1
        if note is not None:
            chk.diverge(name, c, m, i, note)
        else:
            chk.cov["traces_validated_against_impl"] += 1
        mf = monitor(c, i)
        if mf is not None:
            chk.monitor_fail(mf[0], c, i, mf[1])
    seen = set()
    for name, c, m, i in zip(names, cases, model, impl):
        if name not in seen:
            seen.add(name)
            chk.sample(dict(stream=name, case=c[:300], model=m[:300], impl=i[:300]), limit=14)
    return cases, model, impl


# ---------------------------------------------------------------- Coq terms for the vm_compute cross-check
def coq_z(v):
    return "(%d)" % v


def coq_zlist(bs):
    return "[" + ";".join(str(b) for b in bs) + "]"


COQ_FLAT = """From Got Require Import Base Octets.
Local Open Scope Z_scope.
Definition fl_val (x : oct_val) : list Z :=
  match x with
  | OVBool b => [0; if b then 1 else 0] | OVByte x => [1; x] | OVInt16 x => [2; x] | OVInt32 x => [3; x]
  | OVInt64 x => [4; x] | OV7Bit x => [5; x]
  | OVBytes l => 6 :: Z.of_nat (length l) :: l | OVString l => 7 :: Z.of_nat (length l) :: l
  | OVRaw l => 8 :: Z.of_nat (length l) :: l end.
Definition fl_err (e : oct_err) : Z :=
  match e with OctErrInvalidArgument => 0 | OctErrBad7BitInt => 1 | OctErrNegativeSize => 2 | OctErrNotEnoughData => 3 end.
Definition fl_rd (r : oct_rd oct_val) : list Z :=
  match r with
  | (Ok x, s, a) => (100 :: fl_val x) ++ [oct_position s; oct_len s; a]
  | (Err e, s, a) => [101; fl_err e; oct_position s; oct_len s; a]
  | (Panic, s, a) => [102; oct_position s; oct_len s; a] end.
Definition zl_eqb (a b : list Z) : bool := if list_eq_dec Z.eq_dec a b then true else false.
"""

VAL_CODE = {"b": 0, "y": 1, "h": 2, "i": 3, "l": 4, "v": 5, "B": 6, "S": 7, "r": 8}
ERR_CODE = {"E:InvalidArgument": 0, "E:Bad7BitInt": 1, "E:NegativeSize": 2, "E:NotEnoughData": 3}


def flat_rd(rd):
    """python twin of fl_rd on a parsed model result"""
    val, pos, ln, alloc = rd
    if val == "PANIC":
        return [102, pos, ln, alloc]
    if val.startswith("E:"):
        return [101, ERR_CODE[val], pos, ln, alloc]
    t, v = val[0], val[2:]
    if t in "BSr":
        b = bytes.fromhex(v)
        return [100, VAL_CODE[t], len(b)] + list(b) + [pos, ln, alloc]
    return [100, VAL_CODE[t], int(v), pos, ln, alloc]


def coq_val(typ, val):
    if typ == "b":
        return "OVBool %s" % ("true" if val else "false")
    if typ in "BS":
        return "%s %s" % ({"B": "OVBytes", "S": "OVString"}[typ], coq_zlist(val))
    return "%s %s" % ({"y": "OVByte", "h": "OVInt16", "i": "OVInt32", "l": "OVInt64", "v": "OV7Bit"}[typ], coq_z(val))


def coq_op(op):
    if op[0] == "n":
        return "OpRead %s" % coq_z(int(op[1:]))
    if op in ("v", "B", "S"):
        return {"v": "Op7Bit", "B": "OpBytes", "S": "OpString"}[op]
    api = "OctViaStream" if op[0] == "s" else "OctViaReader"
    return "%s %s" % ({"b": "OpBool", "y": "OpByte", "h": "OpInt16", "i": "OpInt32", "l": "OpInt64"}[op[1]], api)
