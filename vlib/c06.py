# C06 -- cachex stays live: Load and Futures always complete if loaders do.  (partial)
# Models: coq/models/CacheLiveSteps.v (small-step model of everything that can block; theorems
# cache_steps_* of coq/props/C06.v; stepped against the real code by the stream "liveness-steps",
# vlib/c06s.py), coq/models/CacheLive.v (coarser protocol abstraction; theorems cache_*) and
# coq/models/Cache.v (replay of every faketime trial's log). Vehicles: cooperative scheduler over
# the cachex yield points; faketime bursts + watchdog.
import json
import os

from . import common, pure
from . import cache_common as cc
from . import c06s

PROOFS = ["proofs/CacheLiveStepsProofs.v", "models/CacheLiveSteps.v", "models/CacheSteps.v",
          "proofs/CacheLiveProofs.v", "models/CacheLive.v", "models/Cache.v", "models/CacheOptions.v",
          "models/CacheDrop.v", "proofs/CacheDropProofs.v"]

TRUSTED = [
    "faketime runtime mode and harness/cmd/ftcache (timed script runner, log, virtual-time watchdog)",
    "harness/cmd/coop/c06s.go: deterministic scheduler over the cachex yield points (goroutine-state inspection through "
    "runtime.Stack, reflection access to the shard mutexes, the worker loop of startJobGoroutines played through "
    "VerifTakeJob / VerifSetValue / VerifSweep)",
    "modelled, not verified: CacheLiveSteps.v is a hand-written transcription of the blocking-relevant code; its link to the "
    "code is the per-step trace correspondence of this check, not a mechanized refinement; CacheLive.v is a coarser abstraction "
    "whose link to the code is scenario-level",
]


def burst_script(rng, par=None, jcs=None, extra=None, trials=20):
    ne, ee = rng.choice([(1600, 800), (1600, 1600), (4800, 1600), (1008, 1000)])
    par = par or rng.choice([1, 1, 2, 4])
    jcs = jcs or rng.choice([1, 1, 2])
    n = jcs + par + (extra if extra is not None else rng.range(1, 4))
    keys = cc.pick_keys(rng, n)
    ld = []
    for _ in range(n):
        err = rng.choice([0, 0, 0, 7])
        ld.append([(rng.choice([ne + 1, 3 * ne + 1, 5 * ne + 1, 5 * ne + 1]), 0 if err and rng.chance(1, 2) else 1, err)])
    sc = cc.Script(ne, ee, par, jcs, keys, ld, trials=trials)
    used = set()
    t0 = rng.choice([0, 0, 4 * ne - 96, 3 * ne, 4 * ne + 16])
    for i in range(n):
        sc.add(cc.free_instant(used, t0 + 16 * i), "L", i)
    # calls that need the shard locks while the queue is full and a tick is due
    horizon = t0 + 12 * ne
    for _ in range(rng.range(0, 6)):
        t = cc.free_instant(used, t0 + 16 * rng.below((horizon - t0) // 16 + 1) + 8)
        kind = rng.choice(["G", "g", "L", "S", "W"])
        k = rng.below(n)
        if kind == "W":
            sc.add(t, "W", k)  # action k is the Load of key k
        elif kind == "S":
            sc.add(t, "S", k, 5000000 + len(sc.acts), 0)
        else:
            sc.add(t, kind, k)
    return sc


def refresh_full_queue_script(rng, trials=20):
    """An expired-but-servable key is refreshed while the job queue is full: the refresh job must
    still be submitted (blocking), otherwise its already published Future never resolves."""
    ne = rng.choice([1600, 4800, 1008])
    par, jcs = 1, rng.choice([1, 1, 2])
    nfill = jcs                      # jobs that fill the queue while the only worker is busy
    keys = cc.pick_keys(rng, 2 + nfill)
    kdur = 17
    ld = [[(kdur, 1, 0), (33, 1, rng.choice([0, 0, 7]))],            # key 0: first load, then the refresh
          [(3 * ne + 1, 1, 0)]] + [[(1, 1, 0)] for _ in range(nfill)]  # key 1: hog; others: queue fillers
    sc = cc.Script(ne, ne, par, jcs, keys, ld, trials=trials)
    used = set()
    a0 = sc.add(cc.free_instant(used, 0), "L", 0)
    u = kdur
    t1 = u + ne + 16 * rng.range(1, (ne - 64) // 16)            # inside [u+E, u+2E)
    t1 -= t1 % 16
    sc.add(cc.free_instant(used, t1 - 16 * (nfill + 1)), "L", 1)       # the hog occupies the worker
    for j in range(nfill):
        sc.add(cc.free_instant(used, t1 - 16 * (nfill - j)), "L", 2 + j)   # queue now full
    sc.add(cc.free_instant(used, t1), "L", 0)                    # expired: refresh while the queue is full
    late = t1 + 6 * ne
    for kind in rng.choice([["L", "G"], ["G", "L"], ["L"], ["g", "L"]]):
        late = cc.free_instant(used, late + 16)
        sc.add(late, kind, 0)
    return sc


def add_gc(rng, sc, n=None):
    """Garbage collections (runtime.GC(), 1 ns of virtual time so that the finalizer goroutine runs, runtime.GC()) in the
    middle of the script, while the script still holds and uses the cache: between the Loads of the burst, while
    loaders run, while Loads wait for room in the queue, before later calls. Every call must still return and every
    Future must still resolve (the cache's finalizer may only act on a cache nobody can reach any more)."""
    used = sc.used_instants()
    ts = sorted(a[0] for a in sc.acts)
    lo, hi = ts[0], ts[-1]
    maxdur = max(d for l in sc.ld for (d, _, _) in l)
    cands = [lo + 4, lo + 20, (lo + hi) // 2 - ((lo + hi) // 2) % 16 + 4, hi + 4, hi + maxdur // 2 - (maxdur // 2) % 16 + 4, lo + sc.ne // 2 - (sc.ne // 2) % 16 + 4]
    rng.shuffle(cands)
    for t in cands[:n or rng.range(1, 3)]:
        # a third of these instants: instead of a collection, a call the cache REJECTS (a key of an unhashable type: the call
        # panics on the caller's goroutine, which recovers) -- every other call of the script must still return
        if rng.chance(1, 3):
            sc.add(cc.free_instant(used, max(0, t)), "X", rng.below(3))
        else:
            sc.add(cc.free_instant(used, max(0, t)), "C", 0)
    return sc


def drop_scripts(rng, n, trials):
    """The caller drops its last reference to the cache right after a burst of Loads and keeps only the Futures (some
    Loads may still be waiting for room in the job queue, jobs are queued, loaders are running); then the collector runs
    (the finalizer stops the ticker and closes the cache). Loaders all return, so every Load call must still return
    and every Future handed out must still resolve. Monitors only: the Cache.v / CacheLiveSteps.v machines have no
    'cache dropped' event."""
    out = []
    for i in range(n):
        sc = burst_script(rng, par=rng.choice([1, 1, 2]), jcs=rng.choice([1, 1, 2, 4]), extra=rng.range(1, 4), trials=trials)
        n = len(sc.keys)
        waits = [a for a in sc.acts[n:] if a[1] in ("W", "w")]
        sc.acts = sc.acts[:n]            # the burst: Load of key i is action i
        last = max(a[0] for a in sc.acts)
        # nothing of the script touches the cache after the drop: only waits on the Futures of the burst follow
        for j, a in enumerate(waits):
            sc.add(cc.free_instant(sc.used_instants(), last + 48 + 16 * j), a[1], a[2])
        td = cc.free_instant(sc.used_instants(), last + rng.choice([4, 4, 20, sc.ne // 2 - (sc.ne // 2) % 16 + 4]))
        sc.add(td, "D", 0)
        # calls that were already on their way when the handle was dropped: Loads (through the inner object) after the
        # collection, of old and new keys; they too must return, and their Futures resolve
        if i % 2 == 0:
            fresh = [k for k in cc.KEY_POOL if k not in sc.keys]
            rng.shuffle(fresh)
            for j in range(rng.range(1, 3)):
                if fresh and rng.chance(2, 3):     # a key never loaded before: a job must be submitted and run
                    sc.keys.append(fresh.pop())
                    sc.ld.append([(rng.choice([1, 17, sc.ne + 1]), 1, 0)])
                    k = len(sc.keys) - 1
                else:
                    k = rng.below(n)
                # early (workers still busy with the burst) or late (every worker has seen the close and gone)
                maxdur = max(d for l in sc.ld for (d, _, _) in l)
                off = 16 * rng.range(1, 4 * sc.ne // 16) if j == 0 and rng.chance(1, 2) else (n + 1) * maxdur + 16 * rng.range(1, 40)
                sc.add(cc.free_instant(sc.used_instants(), td + off), "L", k)
        out.append(sc)
    return out


def gc_scripts(rng, n, trials):
    out = []
    for i in range(n):
        kind = i % 3
        if kind == 0:
            sc = burst_script(rng, trials=trials)
        elif kind == 1:
            sc = refresh_full_queue_script(rng, trials=trials)
        else:
            # plain use with room in the queue: Loads, a collection, then more Loads / Gets of old and new keys
            sc = cc.base_script(rng, nkeys=rng.range(2, 4), jcs=rng.choice([1, 2, cc.BIG_JCS]), nacts=rng.range(4, 9), horizon_mult=6, set_pct=8)
            sc.trials = trials
            for _ in range(rng.range(0, 3)):
                sc.add(cc.free_instant(sc.used_instants(), 16 * rng.below(6 * sc.ne // 16 + 1) + 8), rng.choice(["G", "g"]), rng.below(len(sc.keys)))
        out.append(add_gc(rng, sc))
    return out


def d2_script(trials=20):
    """the refutation scenario of DESIGN.md D2: parallel=1, jobChanSize=1, 6 Loads, 5E loaders"""
    ne = 1600
    keys = [("int", str(i)) for i in range(6)]
    sc = cc.Script(ne, ne, 1, 1, keys, [[(5 * ne + 1, 1, 0)] for _ in range(6)], trials=trials)
    for i in range(6):
        sc.add(16 * i, "L", i)
    return sc


def nontrivial(sc, log):
    # some Load had to wait for room in the job queue
    return any(log.ret[a][0] == "L" and log.ret[a][1] > log.call[a] for a in log.ret if sc.acts[a][1] == "L")


def monitor_c06(sc, log):
    m = cc.monitor_liveness(sc, log)
    if m:
        return m
    # every call returned; every Future resolved; Loads that did not have to queue return at once
    return None


def scenario_model_line(sc, log, order):
    """CacheLive scenario of a script: one job client per Load of the burst (distinct keys)."""
    shards = sorted(set(log.shards.values()))
    remap = {s: i for i, s in enumerate(shards)}
    clients = []
    for a, act in enumerate(sc.acts):
        if act[1] not in ("L", "G", "g", "S", "W", "w"):
            continue   # collections, drops, rejected calls: not clients of the cache
        sh = remap[log.shards[act[2] if act[1] not in ("W", "w") else sc.acts[act[2]][2]]]
        if act[1] == "L":
            clients.append("%dj" % sh)
        elif act[1] in ("G", "g", "S"):
            clients.append("%dn" % sh)
    return "c06x ord=%s par=%d cap=%d nsh=%d ticks=%d clients=%s" % (order, sc.par, sc.jcs, len(shards), 2, ",".join(clients))


def run(chk):
    chk.trusted = common.BASE_TRUSTED + TRUSTED
    chk.assumptions = ["every loader returns (scripted durations; in CacheLiveSteps.v the step that ends a loader is always enabled)",
                       "weak fairness of the Go scheduler (an enabled goroutine eventually runs)",
                       "CacheLiveSteps.v transcribes cache_impl.go / cache.go / future.go faithfully w.r.t. blocking (shard mutexes, bounded job channel, "
                       "worker select, ticker channel of capacity 1, wg.Wait): checked per step on every run, not proved"]
    chk.cov["rule"] = ("case = burst of jobChanSize+parallel+k Loads over distinct typed keys (parallel 1/2/4, jobChanSize 1/2, loaders of 1-5 E) placed so that a "
                       "sweep tick is due while the job queue is full, plus Get/Set/Load/wait calls needing the shard locks; 20 trials each under faketime because "
                       "the idle worker's select choice is the runtime's; a virtual-time watchdog far beyond all loader durations detects a hang. Every trial's log "
                       "is replayed by the extracted Cache.v (identity of Futures, jobs, pairs, resolution instants) and checked by the liveness monitor; the Load "
                       "return instants must match a bounded FIFO channel. Small scenarios are explored exhaustively in the extracted CacheLive.v (no deadlock "
                       "reachable for the current send order; canary: the pre-fix order must reach one). non-trivial = some Load waited for room in the queue. "
                       "Stream liveness-steps (vlib/c06s.py): the real calls, the job goroutines' loop and the sweep executed one shared access at a time under a deterministic "
                       "scheduler, all interleavings / state-edge cover / random schedules of small configurations, compared per step with the extracted CacheLiveSteps.v; "
                       "monitor: the run never reaches a state where every logical thread is blocked while a call is pending")
    chk.run_proof_gate(PROOFS)
    corpus_lines = pure.corpus_cases("C06")
    # step-level correspondence with CacheLiveSteps.v (skipped, recorded, when the tree has no cachex hooks)
    c06s.run(chk, [l for l in corpus_lines if l.startswith("c06s ")])
    binary = cc.build_ft(chk)
    if binary:
        try:
            quick = chk.tier == "quick"
            corpus = [cc.parse_line(l) for l in corpus_lines if l.startswith(("ftc", "ftm"))]
            streams = [("corpus", corpus)]
            nb = 40 if quick else 400
            streams.append(("bursts", [burst_script(chk.rng, trials=20 if quick else 50) for _ in range(nb)]))
            streams.append(("bursts-parallel1-queue1", [burst_script(chk.rng, par=1, jcs=1, trials=20 if quick else 50) for _ in range(20 if quick else 200)]))
            streams.append(("refresh-while-queue-full", [refresh_full_queue_script(chk.rng, trials=10 if quick else 30) for _ in range(12 if quick else 120)]))
            small_scripts = []
            for _ in range(4 if quick else 30):
                sc = burst_script(chk.rng, par=chk.rng.choice([1, 1, 2]), jcs=1, extra=1, trials=20)
                sc.acts = sc.acts[:min(len(sc.acts), 5)]
                small_scripts.append(sc)
            streams.append(("small-bursts", small_scripts))
            streams.append(("gc-while-in-use", gc_scripts(chk.rng, 30 if quick else 300, trials=4 if quick else 10)))
            # the caller keeps only the Futures (monitors only: no model event for a dropped cache)
            drops = [cc.parse_line(l[5:]) for l in corpus_lines if l.startswith("drop ftc")]
            drops += drop_scripts(chk.rng, 24 if quick else 300, trials=4 if quick else 10)
            # liveness only: after the drop a Load that finds the cache closed runs its loader itself, so the
            # parallelism / queue-size monitors of the other streams do not apply
            cc.run_drop_stream(chk, binary, "drop-cache-outstanding-futures", drops, cc.monitor_liveness,
                               "the script drops its last reference to the cache after a burst of Loads and keeps the Futures: ")
            # platform dependence: a sample of the burst scripts in a single-P process (GOMAXPROCS=1), monitors only: whatever
            # the library derives from the number of processors, every call must still return and every Future resolve
            onep = [sc for sc in streams[1][1][:12]] + [sc for sc in streams[2][1][:6]]
            for sc in onep:
                chk.count_case("single-P-process", sc.line(), True)
            try:
                for sc, whole in zip(onep, cc.run_ft(binary, [sc.line() for sc in onep], env=dict(os.environ, GOMAXPROCS="1"))):
                    if whole.startswith("PANIC"):
                        chk.monitor_fail("panic", sc.line() + "  [GOMAXPROCS=1]", whole[:500], whole[:300])
                        continue
                    for log in cc.split_trials(whole):
                        mf = cc.monitor_liveness(sc, log)
                        if mf:
                            chk.monitor_fail(mf[0], sc.line() + "  [GOMAXPROCS=1]", log.text[:3000], mf[1] + " (process with GOMAXPROCS=1)")
            except common.ImplCrash as e:
                chk.monitor_fail("hang", "sample of %d burst scripts with GOMAXPROCS=1" % len(onep), str(e)[-400:],
                                 "the burst scripts did not finish in a single-P process: " + str(e)[-200:])
            allres = []
            for name, scripts in streams:
                res = cc.check_batch(chk, binary, name, scripts, monitor_c06, feed_sweeps=lambda si, ti: ti % 2 == 1,
                                     exact_load_return=False, nontrivial=nontrivial)
                allres += res
                for sc, logs in res:
                    for log in logs:
                        note = return_time_note(sc, log)
                        if note:
                            chk.diverge(name, sc.line(), "bounded FIFO channel prediction", log.text[:3000], note)
            # scenario-level link to CacheLive.v
            mlines, expect = [], []
            small = [(sc, logs) for sc, logs in allres if logs and len([a for a in sc.acts if a[1] == "L"]) <= 5 and len(sc.acts) <= 6]
            for sc, logs in small[-(4 if quick else 30):]:
                mlines.append(scenario_model_line(sc, logs[0], "after"))
                expect.append(("after", sc, logs))
            d2 = d2_script()
            d2log = cc.Log(" ".join("sh,%d,%d" % (i, i) for i in range(6)))
            mlines.append(scenario_model_line(d2, d2log, "under").replace("clients=0j,1j,2j,3j,4j,5j", "clients=0j,1j,2j,3j"))
            expect.append(("canary", d2, []))
            mouts = common.run_model(mlines)
            for ml, mo, (kind, sc, logs) in zip(mlines, mouts, expect):
                chk.count_case("cachelive-exploration", ml, True)
                if kind == "after":
                    if not mo.startswith("deadlock=0"):
                        chk.diverge("cachelive-exploration", ml, mo, "", "extracted CacheLive.v reaches a deadlock for the current send order (contradicts cache_no_deadlock)")
                    elif any(l.hang for l in logs):
                        chk.diverge("cachelive-exploration", ml, mo, logs[0].text[:1000], "implementation hangs on a scenario for which the model has no reachable deadlock")
                else:
                    if not mo.startswith("deadlock=1"):
                        chk.diverge("cachelive-canary", ml, mo, "", "canary: the pre-fix send order must reach a deadlock in CacheLive.v; the exploration cannot tell the orders apart")
            chk.cov["cachelive_explorations"] = [dict(case=l, result=o) for l, o in zip(mlines, mouts)]
        except common.ImplCrash as e:
            chk.infra_errors.append("ftcache crashed or timed out: " + str(e)[-1200:])
    chk.finish(search=search)


def return_time_note(sc, log):
    if log.hang or log.bad or log.panic:
        return None
    starts = sorted(t for (_, _, t) in log.starts)
    # Loads that created a job = per key, in call order, as many as that key has loader invocations
    per_key = {}
    for (k, j, t) in log.starts:
        per_key[k] = per_key.get(k, 0) + 1
    has_set = set(act[2] for act in sc.acts if act[1] == "S")
    loads = sorted((log.call[a], a) for a, act in enumerate(sc.acts) if act[1] == "L" and a in log.call)
    # job creation is decided by the model replay; here only the simple burst shape is predicted:
    # keys whose first Load creates the only job of the key
    j = 0
    for (tc, a) in loads:
        k = sc.acts[a][2]
        first = all(tc <= t2 for (t2, a2) in loads if sc.acts[a2][2] == k)
        if per_key.get(k, 0) == 1 and first and k not in has_set:
            need = j - sc.jcs + 1
            want = tc if need <= 0 else max(tc, starts[need - 1] if need - 1 < len(starts) else None or tc)
            got = log.ret[a][1]
            if got != want:
                return "Load action %d (job #%d, called at %d) returned at %d; a FIFO job channel of capacity %d predicts %d" % (a, j, tc, got, sc.jcs, want)
            j += 1
        elif per_key.get(k, 0) > 1 or k in has_set:
            return None  # refreshes / Sets interleave job creation: left to the Cache.v replay
        else:
            if log.ret[a][1] != tc:
                return "Load action %d created no job but returned at %d (called at %d)" % (a, log.ret[a][1], tc)
    return None


def search(chk):
    try:
        c06s.search(chk)
    except Exception as ex:  # best effort
        chk.infra_errors.append("liveness-steps search crashed: %r" % (ex,))
    binary = cc.build_ft(chk)
    if not binary:
        return
    chk.rng = chk.rng.fork()
    scripts = [d2_script(40)] + [burst_script(chk.rng, par=1, jcs=1, trials=40) for _ in range(20)] + [burst_script(chk.rng, trials=40) for _ in range(20)]
    scripts += gc_scripts(chk.rng, 30, trials=4)
    cc.expected_configs(chk, scripts)
    cc.monitor_items(chk, binary, scripts, monitor_c06, chunk=10)


def replay(chk, path):
    rep = json.load(open(path))
    binary = cc.build_ft(chk)
    cases = [x["case"] for x in rep.get("failing_inputs", []) + rep.get("divergences", []) if isinstance(x.get("case"), str) and x["case"].startswith(("ftc", "ftm"))]
    scripts = [cc.parse_line(c) for c in cases]
    cc.check_batch(chk, binary, "replay", scripts, monitor_c06, exact_load_return=False)
    steps = [x["case"] for x in rep.get("failing_inputs", []) + rep.get("divergences", []) if isinstance(x.get("case"), str) and x["case"].startswith("c06s ")]
    if steps:
        c06s.replay_cases(chk, steps)
        cases = cases + steps
    bad = len(chk.divergences) + len(chk.monitor_failures)
    for d in chk.divergences:
        print("divergence: %s\n  %s" % (d["case"][:400], d["note"]))
    for m in chk.monitor_failures:
        print("failing-input[%s]: %s\n  %s" % (m["key"], m["case"][:400], m["what"]))
    print("replayed %d case(s), %d still failing" % (len(cases), bad))
    raise SystemExit(1 if bad else 0)
