# C05 -- cachex never serves a result older than 2x expiry and refreshes stale ones once.
# Model: coq/models/Cache.v ; theorems: coq/props/C05.v ; vehicle: faketime trace validation.
import json

from . import common, pure
from . import cache_common as cc

TRUSTED = [
    "faketime runtime mode (virtual clock advances only when every goroutine is blocked) and harness/cmd/ftcache (timed script runner, log)",
    "modelled, not verified: each Load/Get2/Set takes effect atomically at its shard-lock instant; the job channel as a FIFO list; "
    "Future pointers as arena positions (futures are never reused); time.Time zero value = 'still loading'",
]


def nontrivial(sc, log):
    return bool(cc.boundary_hits(sc, log))


def gen(chk, binary, tier):
    rng = chk.rng
    quick = tier == "quick"
    n1, n2, n3 = (600, 600, 300) if quick else (4000, 4000, 2000)
    streams = []
    # (a) Get-only probes at every E / 2E boundary of every completion (probes never change the timeline)
    a = [cc.base_script(rng) for _ in range(n1)]
    cc.refine_scripts(binary, a, [["G", "G", "g"]], rng)
    streams.append(("get-probes-at-boundaries", a))
    # (b) Load probes too (they trigger refreshes), then Get/wait probes around the new completions
    b = [cc.base_script(rng) for _ in range(n2)]
    cc.refine_scripts(binary, b, [["L", "L", "G", "W"], ["L", "G", "g", "w", "W"], ["G", "g", "W"]], rng)
    streams.append(("load-probes-at-boundaries", b))
    # (c) loaders that outlive the staleness window of the result they refresh, one key, long horizon
    c = []
    for _ in range(n3):
        sc = cc.base_script(rng, nkeys=rng.choice([1, 1, 2]), nacts=rng.range(2, 5), horizon_mult=4, set_pct=5)
        for l in sc.ld:
            for i in range(1, len(l)):
                if rng.chance(1, 2):
                    l[i] = (rng.choice([sc.ne + 1, 2 * sc.ne + 1, 3 * sc.ne + 17, 5 * sc.ne + 1]), l[i][1], l[i][2])
        c.append(sc)
    cc.refine_scripts(binary, c, [["L", "L", "G"], ["L", "G", "g", "W"], ["G", "g"]], rng)
    streams.append(("slow-refresh", c))
    # (d) the SAME (value, error) passed to Set again while the first one is still fresh / stale: the second Set is a new
    #     result with its own completion instant, so every window restarts from it
    d = []
    for _ in range(60 if quick else 600):
        sc = cc.base_script(rng, nkeys=1, nacts=1, horizon_mult=1, set_pct=0)
        sc.acts = []
        v, e = 7000000 + rng.below(3), rng.choice([0, 0, 0, 3])
        E = sc.ee if e else sc.ne
        t0 = 16 * rng.range(0, 8)
        sc.add(t0, "S", 0, v, e)
        gap = rng.choice([E // 4, E // 2, E - 16, E + 16, E + E // 2])
        sc.add(t0 + gap - gap % 16 + 16, "S", 0, v, e)
        t1 = t0 + gap - gap % 16 + 16
        if rng.chance(1, 3):
            sc.add(t0 + 2 * gap - (2 * gap) % 16 + 32, "S", 0, v, e)
        elif t1 - t0 < E:
            # a Load in the window that is stale relative to the first Set but fresh relative to the second
            sc.add(t0 + E + rng.choice([1, 3, 5]), rng.choice(["L", "L", "G"]), 0)
        d.append(sc)
    cc.refine_scripts(binary, d, [["G", "G", "L"], ["L", "G", "g"]], rng)
    streams.append(("repeated-identical-set", d))
    # (e) expiries of 2^62 ns and more: 2*E does not fit an int64 (D12: `past < 2*expire` classified every result older
    #     than E as rotted). Only E in (2^62, 2^62+2^61) lets NewCache start (its ticker period 4E wraps to 4(E-2^62) > 0);
    #     E-2^62 is chosen large so that the wrapped sweep period is longer than the script. Probes around u+E only
    #     (u+2E is beyond the clock's range).
    e_ = []
    for _ in range(40 if quick else 400):
        r = rng.choice([2 ** 60, 2 ** 59, 3 * 2 ** 59])
        ne = 2 ** 62 + r
        ee = rng.choice([ne, ne, 2 ** 62 + 2 ** 58, 1600, 16000])
        nkeys = rng.choice([1, 2])
        sc = cc.Script(ne, ee, rng.choice([1, 2]), cc.BIG_JCS, cc.pick_keys(rng, nkeys), cc.rand_ld(rng, 1600, nkeys))
        used = set()
        for _i in range(rng.range(1, 4)):
            t = cc.free_instant(used, 16 * rng.below(64))
            k = rng.below(nkeys)
            if rng.chance(1, 3):
                sc.add(t, "S", k, 5000000 + len(sc.acts), rng.choice([0, 0, 3]))
            else:
                sc.add(t, "L", k)
        sc.meta["end"] = 2 ** 62 + 2 ** 61 + 2 ** 59
        sc.meta["wd"] = sc.meta["end"] + 1000000
        e_.append(sc)
    cc.refine_scripts(binary, e_, [["G", "G", "L", "g"], ["L", "G", "W"]], rng, adder=cc.add_first_boundary_probes)
    streams.append(("expiry-beyond-2^62", e_))
    # (f) several caches in ONE process with different option lists (defaults omitted), concurrently, often the same keys:
    #     every window of every cache is the window of ITS OWN expiries
    f_ = cc.multi_scripts(rng, 120 if quick else 1200, nacts=(3, 8), horizon_mult=8)
    cc.refine_scripts(binary, f_, [["L", "G", "g"], ["G", "g", "W"]], rng)
    streams.append(("several-caches-one-process", f_))
    return streams


def status_int64_stream(chk, binary):
    """Direct differential of getFutureStatus's int64 arithmetic (cmd/ftcache c05st / c05new under faketime: the
    back-dated age is exact) against models/CacheStatus64.v (cst_code CstFixed = Cache.v's c_status_fut by
    cache_status_is_int64_exact), with the property's own case table as the independent monitor."""
    rng = chk.rng
    M = 2 ** 63 - 1
    exps = [1, 2, 1000, 10 ** 9, 2 ** 31, 2 ** 40, 2 ** 61 - 1, 2 ** 61, 2 ** 62 - 1, 2 ** 62, 2 ** 62 + 1,
            2 ** 62 + 2 ** 60, 2 ** 62 + 2 ** 61 - 1, 2 ** 62 + 2 ** 61, M - 1, M]
    exps += [rng.range(1, M) for _ in range(12)] + [2 ** rng.range(1, 62) + rng.range(-3, 3) for _ in range(12)]
    lines = []
    for E in exps:
        if E <= 0:
            continue
        pasts = set([0, 1, E - 1, E, E + 1, 2 * E - 1, 2 * E, 2 * E + 1, M, M - 1, E + (M - E) // 2, rng.range(0, M)])
        for past in sorted(p for p in pasts if 0 <= p <= M):
            err = rng.below(2)
            ne, ee = (E, min(E, rng.choice([1, E, max(1, E // 3)]))) if not err else (rng.choice([E, M, min(M, E + 12345)]), E)
            lines.append("c05st %d %d %d %d" % (ne, ee, err, past))
    news = ["c05new %d" % e for e in [1, 250000, 2 ** 61 - 1, 2 ** 61, 2 ** 61 + 1, 2 ** 62 - 1, 2 ** 62, 2 ** 62 + 250000,
                                     2 ** 62 + 2 ** 60, 2 ** 62 + 2 ** 61 - 1, 2 ** 62 + 2 ** 61, M]]
    lines += news
    mo = common.run_model(lines)
    io = []
    for i in range(0, len(lines), 200):
        io += common.run_impl(binary, lines[i:i + 200], env=cc.FT_ENV, timeout=300)
    canary = common.run_model([l.replace("c05st ", "c05sto ", 1) for l in lines if l.startswith("c05st ")])
    ncan = 0
    for l, m, r in zip(lines, mo, io):
        t = l.split()
        big = t[0] == "c05new" or int(t[2 if t[3] == "1" else 1]) >= 2 ** 62
        chk.count_case("status-int64", l, big or True)
        chk.cov["disagreements_checked"] += 1
        if t[0] == "c05st":
            E = int(t[2]) if t[3] == "1" else int(t[1])
            past = int(t[4])
            want = "st=good" if past < E else ("st=expired" if past < 2 * E else "st=rotted")
            if r != want:
                chk.monitor_fail("status-case-table", l, r, "a result aged %d ns with expiry E=%d ns (%s) must be %s, the code treats it as %s" % (
                    past, E, "now-u < E" if past < E else ("E <= now-u < 2E" if past < 2 * E else "now-u >= 2E"), want[3:], r[3:]))
        if m != r:
            chk.diverge("status-int64", l, m, r, "int64 status arithmetic differs from models/CacheStatus64.v")
        else:
            chk.cov["traces_validated_against_impl"] += 1
    for l, r, c in zip([l for l in lines if l.startswith("c05st ")], io, canary):
        if c != r:
            ncan += 1
    chk.cov["canary_status_orig_disagreements"] = ncan
    if ncan == 0:
        chk.infra_errors.append("status-int64 canary: the pinned comparison past < 2*expire is indistinguishable from the code on this stream")
    chk.sample(dict(stream="status-int64", case=lines[0], model=mo[0], impl=io[0]), limit=12)


def run(chk):
    chk.trusted = common.BASE_TRUSTED + TRUSTED
    chk.assumptions = ["0 < errorExpire <= normalExpire (asserted by cachex.WithExpire)",
                       "time steps are non-negative (monotonic clock)",
                       "each API call is atomic at its lock instant (modelled; exercised by the replay)"]
    chk.cov["rule"] = ("case = timed script (1-4 typed keys, parallel 1/2/4, scripted loader durations/outcomes incl. errors and loaders outliving 2E, "
                       "Load/Get2/Get1/Set/Future.Get calls, several (normalExpire,errorExpire) pairs) executed on the real cachex under faketime; "
                       "its log is converted into the event history of Cache.v (CLoad/CGet2/CSet at call instants, CStart/CFinish at loader start/end, "
                       "CAdvance between instants, CSweep at the tick instants in half of the runs) which the extracted model replays; compared: identity "
                       "class of every returned Future, job created <=> loader invocation, pair and virtual resolution instant of every Get. "
                       "Probes are placed by re-running the script and adding calls at u+E-1,u+E,u+E+1,u+2E-1,u+2E,u+2E+1 of observed completions u. "
                       "non-trivial = at least one call exactly at such a boundary; distinct = distinct script line")
    chk.run_proof_gate(cc.PROOFS + ["models/CacheStatus64.v", "proofs/CacheStatus64Proofs.v", "models/CacheGet1.v", "proofs/CacheGet1Proofs.v"])
    try:
        # step-level stream of C04 (cooperative scheduler on the cachex hooks): the part with clock ticks inside the
        # calls and the regression schedules, with the C05 monitor "Get2 (nil, nil) while the key is servable"
        from . import c04s
        c04s.run(chk, [l for l in pure.corpus_cases("C04") if l.startswith("c04s ")], light=True)
    except Exception as ex:
        chk.infra_errors.append("call-steps stream failed: %r" % (ex,))
    binary = cc.build_ft(chk)
    if binary:
        try:
            status_int64_stream(chk, binary)
            corpus = [cc.parse_line(l) for l in pure.corpus_cases("C05")]
            cc.check_batch(chk, binary, "corpus", corpus, cc.monitor_c05, nontrivial=nontrivial)
            hits = {}
            sample_lines = []
            for name, scripts in gen(chk, binary, chk.tier):
                res = cc.check_batch(chk, binary, name, scripts, cc.monitor_c05,
                                     feed_sweeps=lambda si, ti: si % 2 == 0, nontrivial=nontrivial)
                for sc, logs in res:
                    for log in logs:
                        for k, v in cc.boundary_hits(sc, log).items():
                            hits[k] = hits.get(k, 0) + v
                    if logs and len(sample_lines) < 100 and not logs[0].hang:
                        variants, _, _ = cc.build_histories(sc, logs[0], tuple(range(4 * sc.ne, sc.end + 1, 4 * sc.ne)))
                        if variants and len(variants[0][0]) < 400:
                            sample_lines.append(cc.model_line(sc, variants[0][0]))
            chk.cov["boundary_hits"] = dict(sorted(hits.items()))
            try:
                mo = common.run_model(sample_lines)
                chk.cov["vm_compute_crosschecked"] = cc.coq_crosscheck(chk, sample_lines, mo)
            except Exception as ex:
                chk.infra_errors.append("vm_compute cross-check failed: %r" % (ex,))
        except common.ImplCrash as e:
            chk.infra_errors.append("ftcache crashed or timed out: " + str(e)[-1200:])
    chk.finish(search=search)


def search(chk):
    binary = cc.build_ft(chk)
    if not binary:
        return
    chk.rng = chk.rng.fork()
    for name, scripts in gen(chk, binary, "quick"):
        cc.expected_configs(chk, scripts)
        cc.monitor_items(chk, binary, scripts, cc.monitor_c05)


def replay(chk, path):
    rep = json.load(open(path))
    binary = cc.build_ft(chk)
    cases = [x["case"] for x in rep.get("failing_inputs", []) + rep.get("divergences", []) if isinstance(x.get("case"), str) and x["case"].startswith(("ftc", "ftm"))]
    scripts = [cc.parse_line(c) for c in cases]
    cc.check_batch(chk, binary, "replay", scripts, cc.monitor_c05)
    bad = len(chk.divergences) + len(chk.monitor_failures)
    for d in chk.divergences:
        print("divergence: %s\n  %s" % (d["case"][:400], d["note"]))
    for m in chk.monitor_failures:
        print("failing-input[%s]: %s\n  %s" % (m["key"], m["case"][:400], m["what"]))
    print("replayed %d case(s), %d still failing" % (len(cases), bad))
    raise SystemExit(1 if bad else 0)
