# C20 -- randx.WeightedSampling. Model: coq/models/Sample.v over coq/lib/Heap.v ;
# theorems: coq/props/C20.v.
#
# Correspondence: WeightedSampling draws rand.Float64() from the GLOBAL math/rand generator.
# The harness calls rand.Seed(seed) before the call, which makes the stream reproducible,
# and replays it (rand.Seed(seed) again) to recompute the reference keys
# ln(w_i) - ln(-ln(u_i)) in float64.  Two passes:
#   pass 1  "c20keys seed n w..."            -> reference keys (function not called)
#           python: signed dense ranks of the keys (order kept, ties kept, rank 0 <=> key 0.0)
#   pass 2  "c20 seed k n W w... R ranks..." -> given identically to the Go harness (calls the
#           real function; re-checks the ranks against its own replay) and to the extracted
#           model (input = k, n, ranks).  The returned index slices are compared EXACTLY.
# Cases whose distinct reference keys are within 1e-9 relative are ambiguous: the exact
# comparison and the top-k monitor are skipped for them (counted), the other monitors run.
import math
from fractions import Fraction

from . import common, pure, heapdiff

PROOFS = ["proofs/SampleProofs.v", "models/Sample.v", "models/SampleSeq.v", "proofs/SampleSeqProofs.v", "proofs/HeapProofs.v", "lib/Heap.v",
          "models/SampleProb.v", "proofs/SampleProbProofs.v", "proofs/SampleProbPair.v", "proofs/SampleProbLink.v"]

# The theorems of the second part of props/C20.v (distribution clause, ideal real-valued model)
# are about the classical real numbers of Coq's standard library (Reals + Coquelicot).  Print
# Assumptions names exactly these four standard-library axioms for them; they are allow-listed BY
# NAME and PER THEOREM (every other theorem of C20 must stay "Closed under the global context");
# the proof gate records the grant in the evidence (extra_allowed_axioms).
REAL_ANALYSIS_BASE = [
    "ClassicalDedekindReals.sig_forall_dec",   # limited principle of omniscience (construction of R)
    "ClassicalDedekindReals.sig_not_dec",      # decidability of negated propositions in Type (construction of R)
    "FunctionalExtensionality.functional_extensionality_dep",
    "Classical_Prop.classic",                  # excluded middle (Coquelicot / Reals)
]
REAL_THEOREMS = [
    "c20_key_lose_interval", "c20_key_lose_interval_bounds",
    "c20_k1_probability_is_RInt", "c20_k1_probability", "c20_k1_prob_range",
    "c20_k1_total_probability", "c20_k1_scale_invariant", "c20_k1_order_invariant",
    "c20_k1_n2_indicator", "c20_k1_n2_indicator_swapped",
    "c20_k1_indicator_integral", "c20_k1_indicator_is_indicator",
    "c20_ares_key_order", "c20_gumbel_key_order",
    "c20_k1_returns_winner", "c20_k1_returned_is_winner", "c20_k1_exactly_one_winner",
    "c20_k2_probability", "c20_k2_indicator_integral", "c20_k2_indicator_is_indicator",
    "c20_k2_marginal", "c20_k2_returns_top_pair",
]
REL = 1e-9


# ---------------------------------------------------------------- case construction
def fmt_w(x):
    if isinstance(x, str):
        return x
    return repr(float(x))


def parse_pre(line):
    # "c20pre seed k n w..." -> (seed, k, n, [w strings])
    t = line.split()
    return int(t[1]), int(t[2]), int(t[3]), t[4:]


def signed_ranks(keys):
    vals = sorted(set([0.0] + [k + 0.0 for k in keys]))
    zero = vals.index(0.0)
    pos = {v: i for i, v in enumerate(vals)}
    return [pos[k + 0.0] - zero for k in keys]


def ambiguous(keys):
    if any(math.isnan(k) for k in keys):
        return True
    fin = sorted(set(k for k in keys if not math.isinf(k)))
    for a, b in zip(fin, fin[1:]):
        if abs(b - a) <= REL * max(abs(a), abs(b)):
            return True
    return False


def build_cases(binary, pres):
    """pass 1: reference keys from the harness; returns list of (case line, keys or None)."""
    lines = []
    idx = []
    for k, p in enumerate(pres):
        seed, sk, n, ws = parse_pre(p)
        if n > 0 and len(ws) == n:
            lines.append("c20keys %d %d %s" % (seed, n, " ".join(ws)))
            idx.append(k)
    outs = common.run_impl(binary, lines) if lines else []
    keys_of = {}
    for k, o in zip(idx, outs):
        if not o.startswith("keys="):
            raise RuntimeError("reference-key replay failed: " + o[:200])
        keys_of[k] = [float(x) for x in o[5:].split(",")] if o[5:] else []
    cases = []
    for k, p in enumerate(pres):
        seed, sk, n, ws = parse_pre(p)
        keys = keys_of.get(k)
        ranks = signed_ranks(keys) if keys is not None and not any(math.isnan(x) for x in keys) else [0] * len(ws)
        cases.append(("c20 %d %d %d W %s R %s" % (seed, sk, n, " ".join(ws), " ".join(map(str, ranks))), keys))
    return cases


def case_params(case):
    t = case.split()
    seed, k, n = int(t[1]), int(t[2]), int(t[3])
    r = t.index("R")
    ws = t[5:r]
    ranks = [int(x) for x in t[r + 1:]]
    return seed, k, n, ws, ranks


def in_domain(ws):
    for w in ws:
        v = float(w)
        if not (v > 0 and not math.isinf(v)):
            return False
    return True


def parse_impl(line):
    # "r=[..] keys=.. calls=n"
    if not line.startswith("r="):
        return None
    parts = dict(p.split("=", 1) for p in line.split())
    s = parts["r"].strip("[]")
    r = [int(x) for x in s.split(",")] if s else []
    keys = [float(x) for x in parts.get("keys", "").split(",")] if parts.get("keys") else []
    return r, keys, int(parts.get("calls", "-1"))


def parse_model(line):
    if not line.startswith("r="):
        return None
    s = line[2:].strip("[]")
    return [int(x) for x in s.split(",")] if s else []


# ---------------------------------------------------------------- compare / monitors
def compare(case, model, impl):
    seed, k, n, ws, ranks = case_params(case)
    if impl.startswith("RANK-MISMATCH") or impl.startswith("NONDETERMINISTIC"):
        return "harness: " + impl
    if model.startswith("MODEL-EXN") or model in ("NOFUEL", "BADCASE"):
        return "model failed: " + model
    mp = model == "PANIC"
    ip = impl.startswith("PANIC")
    if ip and "HARNESS" in impl:
        return "harness: " + impl[:200]
    if mp != ip:
        return "panic behaviour differs (model %s, implementation %s)" % ("panics" if mp else "returns", "panics" if ip else "returns")
    if mp:
        return None
    pi = parse_impl(impl)
    pm = parse_model(model)
    if pi is None or pm is None:
        return "unparsable result"
    if ambiguous(pi[1]):
        return None  # counted in run()
    if pm != pi[0]:
        return "returned index slice differs"
    return None


def monitor(case, impl):
    """The property text on the implementation's observation (in-domain weights,
    1 <= k <= n), independent of the model."""
    seed, k, n, ws, ranks = case_params(case)
    if not (1 <= k <= n) or not in_domain(ws):
        return None
    if impl.startswith("PANIC"):
        if "HARNESS" in impl:
            return None
        return ("panic", "WeightedSampling(%d,%d) panicked: %s" % (k, n, impl[:160]))
    pi = parse_impl(impl)
    if pi is None:
        return None
    r, keys, _ = pi
    if len(r) != k:
        return ("length", "returned %d indices, want sampleNum=%d" % (len(r), k))
    bad = [x for x in r if x < 0 or x >= n]
    if bad:
        return ("range", "index %d outside [0,%d)" % (bad[0], n))
    if len(set(r)) != len(r):
        dup = sorted(x for x in set(r) if r.count(x) > 1)
        return ("distinct", "index %d returned %d times: %s" % (dup[0], r.count(dup[0]), r))
    if k == n and sorted(r) != list(range(n)):
        return ("permutation", "sampleNum = totalNum = %d but result is not a permutation: %s" % (n, r))
    # weighted selection, restated on the reference keys: the result is a top-k set
    if keys and len(keys) == n and not any(math.isnan(x) for x in keys):
        rs = set(r)
        lo_i = min(r, key=lambda i: keys[i])
        out = [j for j in range(n) if j not in rs]
        if out:
            hi_j = max(out, key=lambda j: keys[j])
            a, b = keys[lo_i], keys[hi_j]
            if a < b and not (abs(b - a) <= REL * max(abs(a), abs(b))):
                return ("topk", "returned index %d has reference key %r < key %r of index %d which was not returned" % (lo_i, a, b, hi_j))
    return None


def nontrivial(case, model):
    seed, k, n, ws, ranks = case_params(case)
    return model.startswith("r=") and n >= 3 and 1 <= k


# ---------------------------------------------------------------- generators
def gen_weights(rng, n, kind):
    def mant():
        return 1.0 + rng.below(9000) / 1000.0
    ws = []
    for i in range(n):
        if kind == "int":
            w = float(rng.range(1, 9))
        elif kind == "int-large":
            w = float(rng.range(1, 1000000))
        elif kind == "small":
            w = mant() * 10.0 ** (-rng.range(3, 6))
        elif kind == "prob":  # normalised, probability-like
            w = None
        elif kind == "tiny":
            w = mant() * 1e-300
        elif kind == "subnormal":
            # all binades of the subnormal range, the largest one ([2^-1023, 2^-1022)) and the smallest normals included
            w = rng.choice([5e-324, 1e-323, 2.2250738585072014e-308, mant() * 1e-310, mant() * 1e-320, 1.2e-308 + mant() * 1e-309,
                            2.2250738585072009e-308, 2.3e-308, mant() * 1e-315])
        elif kind == "huge":
            w = mant() * 1e300
        elif kind == "max":
            w = rng.choice([1.7976931348623157e308, 1e308, mant() * 1e307])
        elif kind == "skewed":
            w = rng.choice([1e-300, 1e-30, 1e-3, 1.0, 1e3, 1e30, 1e300]) * mant()
        elif kind == "one-heavy":
            w = 1e6 if i == 0 else 1.0
        elif kind == "equal":
            w = 1.0
        elif kind == "equal-small":
            w = 1e-3
        else:  # mixed exponents
            w = mant() * 10.0 ** rng.range(-300, 300)
        ws.append(w)
    if kind == "prob":
        raw = [rng.range(1, 1000) for _ in range(n)]
        s = float(sum(raw))
        ws = [x / s for x in raw]
    if kind == "one-heavy" and n > 1:
        j = rng.below(n)
        ws[0], ws[j] = ws[j], ws[0]
    return [fmt_w(w) for w in ws]


KINDS = ["int", "int-large", "small", "prob", "tiny", "subnormal", "huge", "max", "skewed",
         "one-heavy", "equal", "equal-small", "mixed"]


def gen(rng, tier):
    streams = []
    # every (k, n) with 1 <= k <= n <= N, several weight kinds
    N = 8 if tier == "quick" else 16
    ex = []
    for n in range(1, N + 1):
        for k in range(1, n + 1):
            for kind in ("int", "equal-small", "skewed"):
                ex.append("c20pre %d %d %d %s" % (rng.range(0, (1 << 62)), k, n, " ".join(gen_weights(rng, n, kind))))
    streams.append(("all-k-n-small", ex))
    rnd = []
    cnt = 4000 if tier == "quick" else 60000
    for _ in range(cnt):
        n = rng.choice([1, 2, 3, 7, 16, 33, 64, rng.range(1, 64)])
        k = rng.choice([1, n, max(1, n - 1), rng.range(1, n)])
        kind = rng.choice(KINDS)
        rnd.append("c20pre %d %d %d %s" % (rng.range(0, (1 << 62)), k, n, " ".join(gen_weights(rng, n, kind))))
    streams.append(("random-k-n-weights", rnd))
    # invalid arguments: the call must panic exactly when the model says so
    inv = []
    for k in range(-2, 6):
        for n in range(-2, 5):
            if not (1 <= k <= n):
                ws = gen_weights(rng, max(n, 0), "int")
                inv.append("c20pre %d %d %d %s" % (rng.range(0, 1 << 62), k, n, " ".join(ws)))
    for _ in range(20):
        n = rng.range(1, 64)
        k = rng.choice([n + 1, n + rng.range(1, 100), 0, -1, -(1 << 40), (1 << 40)])
        inv.append("c20pre %d %d %d %s" % (rng.range(0, 1 << 62), k, n, " ".join(gen_weights(rng, n, "int"))))
    inv.append("c20pre 1 %d %d" % (-(1 << 62), -(1 << 62)))
    inv.append("c20pre 1 0 0")
    streams.append(("invalid-arguments", inv))
    # ties: weights 0 and +Inf are OUTSIDE the property's domain; they make keys tie at
    # -Inf / +Inf and exercise the tie handling of code and model (compare only, no monitors)
    ties = []
    cnt = 800 if tier == "quick" else 10000
    for _ in range(cnt):
        n = rng.choice([2, 3, 5, 8, 20, rng.range(1, 64)])
        k = rng.choice([1, n, rng.range(1, n)])
        pool = rng.choice([["0"], ["+Inf"], ["0", "+Inf"], ["0", "+Inf", "1"], ["0", "1"], ["+Inf", "1"]])
        ties.append("c20pre %d %d %d %s" % (rng.range(0, 1 << 62), k, n, " ".join(rng.choice(pool) for _ in range(n))))
    streams.append(("ties-via-degenerate-weights(out-of-domain)", ties))
    return streams


# ---------------------------------------------------------------- call sequences (c20Q)
# "State left behind by an earlier call (including one that panicked) must not influence a
# later call": sequences of calls made by ONE goroutine of ONE process, each under its own
# recover(); calls with valid arguments, calls whose getWeight callback panics at index pj,
# calls with invalid arguments.  Model: models/SampleSeq.v (smp_run_calls); theorems
# c20_calls_history_independent / c20_calls_valid_meet_spec / c20_sample_cb_panics.
def seq_pre(seed, k, n, pj, ws):
    return (seed, k, n, pj, list(ws))


def build_seq_cases(binary, seqs):
    """seqs: list of lists of (seed, k, n, pj, ws).  pass 1 (reference keys) per call, then one
    c20Q line per sequence."""
    pres = []
    for sq in seqs:
        for (seed, k, n, pj, ws) in sq:
            pres.append("c20pre %d %d %d %s" % (seed, k, n, " ".join(ws)))
    built = build_cases(binary, pres)
    out = []
    pos = 0
    for sq in seqs:
        parts = []
        for (seed, k, n, pj, ws) in sq:
            c, _ = built[pos]
            pos += 1
            t = c.split()          # c20 seed k n W ws R ranks
            parts.append(" ".join(t[1:4] + [str(pj)] + t[4:]))
        out.append("c20Q " + " | ".join(parts))
    return out


def seq_calls(case):
    """-> list of (single-call case line 'c20 seed k n W .. R ..', pj)"""
    body = case.split(" ", 1)[1] if " " in case else ""
    res = []
    for part in body.split(" | "):
        t = part.split()
        if len(t) < 5:
            continue
        res.append(("c20 " + " ".join(t[0:3] + t[4:]), int(t[3])))
    return res


def call_valid(single, pj):
    seed, k, n, ws, ranks = case_params(single)
    return 1 <= k <= n and (pj < 0 or pj >= n)


def parse_seq_model(part):
    part = part.strip()
    if part.startswith("PANIC"):
        return ("panic", None, int(part.split("calls=")[1].split()[0]))
    if part.startswith("r="):
        d = dict(x.split("=", 1) for x in part.split())
        s = d["r"].strip("[]")
        return ("ok", [int(x) for x in s.split(",")] if s else [], int(d["calls"]))
    return None


def parse_seq_impl(part):
    part = part.strip()
    if part.startswith("PANIC"):
        toks = part.split()
        d = dict(x.split("=", 1) for x in toks[1:3] if "=" in x)
        return ("panic", None, int(d.get("calls", "-1")))
    pi = parse_impl(part)
    if pi is None:
        return None
    return ("ok", pi[0], pi[2])


def compare_seq(case, model, impl):
    calls = seq_calls(case)
    ms, is_ = model.split(" | "), impl.split(" | ")
    if model.startswith("MODEL-EXN") or len(ms) != len(calls):
        return "model failed: " + model[:120]
    if len(is_) != len(calls):
        return "implementation gave %d results for %d calls: %s" % (len(is_), len(calls), impl[:160])
    for idx, ((single, pj), m, i) in enumerate(zip(calls, ms, is_)):
        if i.startswith("RANK-MISMATCH") or "HARNESS" in i:
            return "harness (call %d): %s" % (idx, i[:160])
        pm, pi = parse_seq_model(m), parse_seq_impl(i)
        if pm is None or pi is None:
            return "call %d: unparsable result (model %s, impl %s)" % (idx, m[:60], i[:60])
        if pm[0] != pi[0]:
            return "call %d of the sequence: panic behaviour differs (model %s, implementation %s)" % (
                idx, "panics" if pm[0] == "panic" else "returns", "panics" if pi[0] == "panic" else "returns")
        if pm[2] != pi[2]:
            return "call %d of the sequence: number of getWeight invocations differs (model %d, implementation %d)" % (idx, pm[2], pi[2])
        if pm[0] == "ok":
            full = parse_impl(i.strip())
            if full and ambiguous(full[1]):
                continue
            if pm[1] != pi[1]:
                return "call %d of the sequence: returned index slice differs (model %s, implementation %s)" % (idx, pm[1], pi[1])
    return None


def monitor_seq(case, impl):
    """the property text on EVERY valid call of the sequence (valid arguments, in-domain weights,
    callback does not panic), whatever came before it"""
    calls = seq_calls(case)
    is_ = impl.split(" | ")
    if len(is_) != len(calls):
        return None
    for idx, ((single, pj), i) in enumerate(zip(calls, is_)):
        if not call_valid(single, pj):
            continue
        if i.strip().startswith("CLOBBERED"):
            return ("aliasing", "call %d of the sequence: %s" % (idx, i.strip()[:200]))
        mf = monitor(single, i.strip())
        if mf is not None:
            kinds = []
            for (s2, p2) in calls[:idx]:
                sd, k2, n2, _, _ = case_params(s2)
                kinds.append("valid" if call_valid(s2, p2) else ("callback-panic@%d" % p2 if 1 <= k2 <= n2 else "invalid-args"))
            return (mf[0], "call %d of the sequence (after: %s): %s" % (idx, ",".join(kinds) or "nothing", mf[1]))
    return None


def nontrivial_seq(case, model):
    calls = seq_calls(case)
    return len(calls) >= 2 and any(call_valid(s, p) for s, p in calls[1:])


def gen_seq(rng, tier):
    """sequences of (seed, k, n, pj, ws)"""
    quick = tier == "quick"
    streams = []

    def call(k, n, pj, kind="int"):
        return seq_pre(rng.range(0, 1 << 62), k, n, pj, gen_weights(rng, max(n, 0), kind) if n <= 4096 else [])

    # 1. bounded-exhaustive: one call that panics in its callback at index pj (all k1 <= n1 <= N,
    #    all pj < n1), followed by one valid call (all k2 <= n2 <= N)
    N = 4 if quick else 6
    ex = []
    for n1 in range(1, N + 1):
        for k1 in range(1, n1 + 1):
            for pj in range(0, n1):
                for n2 in range(1, N + 1):
                    for k2 in range(1, n2 + 1):
                        ex.append([call(k1, n1, pj), call(k2, n2, -1, rng.choice(["int", "equal-small", "skewed"]))])
    streams.append(("seq-callback-panic-then-valid-exhaustive", ex))
    # 2. a valid call followed by a valid call of a different shape (larger / smaller k and n)
    vv = []
    M = 5 if quick else 8
    for n1 in range(1, M + 1):
        for k1 in range(1, n1 + 1):
            for n2 in range(1, M + 1):
                for k2 in range(1, n2 + 1):
                    vv.append([call(k1, n1, -1), call(k2, n2, -1, rng.choice(["int", "prob", "tiny"]))])
    streams.append(("seq-valid-then-valid-exhaustive", vv))
    # 3. an invalid-argument call (every small invalid (k, n)) followed by a valid call
    iv = []
    for k1 in range(-2, 6):
        for n1 in range(-2, 5):
            if not (1 <= k1 <= n1):
                for (k2, n2) in ((1, 1), (1, 3), (2, 3), (3, 3), (2, 7)):
                    iv.append([call(k1, n1, -1), call(k2, n2, -1)])
    streams.append(("seq-invalid-args-then-valid", iv))
    # 4. long random sequences mixing all kinds of calls and sizes
    rnd = []
    cnt = 400 if quick else 6000
    for _ in range(cnt):
        sq = []
        for _ in range(rng.range(3, 12)):
            n = rng.choice([1, 2, 3, 5, 7, 16, 33, rng.range(1, 64)])
            k = rng.choice([1, n, max(1, n - 1), rng.range(1, n)])
            what = rng.below(10)
            if what < 5:
                sq.append(call(k, n, -1, rng.choice(KINDS)))
            elif what < 8:
                sq.append(call(k, n, rng.choice([0, n - 1, rng.below(n), min(n - 1, k), max(0, k - 1)]), rng.choice(KINDS)))
            elif what < 9:
                sq.append(call(rng.choice([n + 1, 0, -1, n + rng.range(1, 50)]), n, rng.choice([-1, 0]), "int"))
            else:
                sq.append(call(k, n, n + rng.range(0, 3), "int"))     # panic index never asked for
        sq.append(call(rng.range(1, 5), rng.range(5, 40), -1, rng.choice(KINDS)))
        rnd.append(sq)
    streams.append(("seq-random-mixed", rnd))
    return streams


# ---------------------------------------------------------------- overlapping calls (c20N, c20G)
# c20N: the outer call's getWeight makes an INNER call when asked for index j (two-pass protocol
# with the nested draw order replayed); model: the two stand-alone answers (a call is a pure function
# of its arguments and key order; nothing a callback does can reach the call in progress).
# c20G: goroutines calling concurrently on private weights; the shared global generator makes the
# draws of a single call irreproducible, so: implementation + monitors only (length, range,
# distinct, permutation) -- no model comparison, no top-k.
def build_nested_cases(binary, pres):
    """pres: list of (seed, k, n, j, k2, n2, ws, ws2)"""
    lines = ["c20keysN %d %d %d %d W %s W2 %s" % (seed, n, j, n2, " ".join(ws), " ".join(ws2))
             for (seed, k, n, j, k2, n2, ws, ws2) in pres]
    outs = common.run_impl(binary, lines) if lines else []
    cases = []
    for (seed, k, n, j, k2, n2, ws, ws2), o in zip(pres, outs):
        if not o.startswith("keys="):
            raise RuntimeError("nested reference-key replay failed: " + o[:200])
        d = dict(x.split("=", 1) for x in o.split())
        keys = [float(x) for x in d["keys"].split(",")]
        ikeys = [float(x) for x in d["ikeys"].split(",")]
        cases.append("c20N %d %d %d %d %d %d W %s R %s W2 %s R2 %s" % (
            seed, k, n, j, k2, n2, " ".join(ws), " ".join(map(str, signed_ranks(keys))),
            " ".join(ws2), " ".join(map(str, signed_ranks(ikeys)))))
    return cases


def nested_parts(case):
    """-> (outer single-call case, inner single-call case, j)"""
    t = case.split()
    seed, k, n, j, k2, n2 = [int(x) for x in t[1:7]]
    pr, pw2, pr2 = t.index("R"), t.index("W2"), t.index("R2")
    outer = "c20 %d %d %d W %s R %s" % (seed, k, n, " ".join(t[8:pr]), " ".join(t[pr + 1:pw2]))
    inner = "c20 %d %d %d W %s R %s" % (seed, k2, n2, " ".join(t[pw2 + 1:pr2]), " ".join(t[pr2 + 1:]))
    return outer, inner, j


def nested_impl_parts(impl):
    if not impl.startswith("r="):
        return None
    d = dict(x.split("=", 1) for x in impl.split())
    return ("r=%s keys=%s calls=%s" % (d["r"], d["keys"], d["calls"]),
            "r=%s keys=%s calls=%s" % (d["ir"], d["ikeys"], d["icalls"]))


def compare_nested(case, model, impl):
    outer, inner, j = nested_parts(case)
    if impl.startswith("RANK-MISMATCH") or impl.startswith("NONDETERMINISTIC") or "HARNESS" in impl:
        return "harness: " + impl[:200]
    if not model.startswith("r="):
        return "model failed: " + model[:100]
    md = dict(x.split("=", 1) for x in model.split())
    ip = nested_impl_parts(impl)
    if ip is None:
        return "outer call with a nested call inside getWeight(%d): implementation gave no result (%s)" % (j, impl[:160])
    for name, single, m, i in (("outer", outer, md["r"], ip[0]), ("inner", inner, md["ir"], ip[1])):
        note = compare(single, "PANIC" if m == "PANIC" else "r=" + m, i)
        if note:
            return "%s call (inner call made from inside the outer call's getWeight(%d)): %s" % (name, j, note)
    return None


def monitor_nested(case, impl):
    outer, inner, j = nested_parts(case)
    ip = nested_impl_parts(impl)
    if ip is None:
        if impl.startswith("PANIC") and "HARNESS" not in impl:
            return ("panic", "outer call with a nested call inside getWeight(%d) panicked: %s" % (j, impl[:160]))
        return None
    for name, single, i in (("outer", outer, ip[0]), ("inner", inner, ip[1])):
        mf = monitor(single, i)
        if mf:
            return (mf[0], "%s call (inner call made from inside the outer call's getWeight(%d)): %s" % (name, j, mf[1]))
    return None


def gen_nested(rng, tier):
    quick = tier == "quick"
    pres = []
    # bounded-exhaustive: all outer (k, n) <= N, every j < n, a few inner shapes
    N = 4 if quick else 6
    for n in range(1, N + 1):
        for k in range(1, n + 1):
            for j in range(n):
                for (k2, n2) in ((1, 1), (1, 3), (2, 3), (3, 3), (k, n), (2, 6)):
                    if 1 <= k2 <= n2:
                        pres.append((rng.range(0, 1 << 62), k, n, j, k2, n2,
                                     gen_weights(rng, n, rng.choice(["int", "skewed"])), gen_weights(rng, n2, rng.choice(["int", "equal-small"]))))
    for _ in range(300 if quick else 5000):
        n = rng.choice([2, 3, 7, 16, 33, rng.range(1, 64)])
        k = rng.choice([1, n, max(1, n - 1), rng.range(1, n)])
        n2 = rng.choice([1, 2, 5, 16, rng.range(1, 64)])
        k2 = rng.choice([1, n2, rng.range(1, n2)])
        pres.append((rng.range(0, 1 << 62), k, n, rng.choice([0, n - 1, rng.below(n), min(n - 1, k)]), k2, n2,
                     gen_weights(rng, n, rng.choice(KINDS)), gen_weights(rng, n2, rng.choice(KINDS))))
    return pres


def monitor_conc(case, impl):
    parts = case.split(" | ")
    outs = impl.split(" | ")
    subs = parts[1:]
    if len(outs) != len(subs):
        return ("panic", "no result for the concurrent case: " + impl[:200])
    for g, (sub, o) in enumerate(zip(subs, outs)):
        t = sub.split()
        k, n, ws = int(t[0]), int(t[1]), t[3:]
        single = "c20 0 %d %d W %s R %s" % (k, n, " ".join(ws), " ".join(["0"] * n))
        for rno, r in enumerate(o.split(";")):
            mf = monitor(single, r if r.startswith("PANIC") else r + " keys= calls=%d" % n)
            if mf:
                return (mf[0], "goroutine %d of %d (call %d, private weights, concurrent with the others): %s" % (g, len(subs), rno, mf[1]))
    return None


def run_concurrent(chk, binary, rng, tier):
    cases = []
    for _ in range(80 if tier == "quick" else 1000):
        subs = []
        for _ in range(rng.choice([2, 3, 4, 8])):
            n = rng.choice([1, 2, 3, 7, 16, rng.range(1, 40)])
            k = rng.choice([1, n, max(1, n - 1), rng.range(1, n)])
            subs.append("%d %d W %s" % (k, n, " ".join(gen_weights(rng, n, rng.choice(KINDS)))))
        cases.append("c20G %d %d | %s" % (rng.choice([1, 1, 2, 0]), rng.choice([1, 3, 6]), " | ".join(subs)))
    impl = common.run_impl(binary, cases)
    for c, i in zip(cases, impl):
        chk.count_case("concurrent-private-weights(impl+monitor)", c, True)
        mf = monitor_conc(c, i)
        if mf:
            chk.monitor_fail(mf[0], c, i[:400], mf[1])
    chk.cov["concurrent_calls"] = dict(cases=len(cases), kind="implementation + monitors only (shared generator: draws not reproducible)")


STAT_VECTORS = [
    ("integers", ["1", "2", "3", "4"]),
    ("seven-equal-1e-3 (D9 input)", ["0.001"] * 7),
    ("small-1e-3..1e-5", ["0.001", "0.002", "0.0005", "0.0001", "0.00005", "0.00135"]),
    ("tiny-1e-300", ["1e-300", "2e-300", "3e-300", "4e-300", "1.5e-300"]),
    ("huge-1e300", ["1e300", "5e299", "2.5e299", "1e299"]),
    ("skewed-1000:1", ["1000", "1", "1", "1", "1", "1"]),
    ("dominant-1e300-vs-1", ["1", "1e300", "1"]),
    ("probabilities", ["0.05", "0.15", "0.3", "0.5"]),
    ("subnormal-5e-324", ["5e-324", "1.5e-323"]),
    ("subnormal-1e-310", ["1e-310", "3e-310", "1e-310"]),
    ("top-subnormal-binade", ["1.2e-308", "3.6e-308"]),
    ("around-min-normal", ["1.2e-308", "2.2e-308", "1.2e-308"]),
    ("near-max-1e308", ["4e307", "1.2e308"]),
    ("max-equal-1.7e308", ["1.7e308", "1.7e308"]),
]


def stat_cases(rng, tier):
    trials = 200000 if tier == "quick" else 3000000
    return [("c20stat %d %d %s" % (rng.range(0, 1 << 62), trials, " ".join(ws)), name) for name, ws in STAT_VECTORS]


def stat_monitor(case, impl):
    """k = 1 frequency test (a TEST, not a proof): |count_i - N p_i| <= 6 sigma_i."""
    t = case.split()
    trials = int(t[2])
    ws = [Fraction(float(x)) for x in t[3:]]
    tot = sum(ws)
    if not impl.startswith("counts="):
        return ("frequency", "frequency test gave no counts: " + impl[:160])
    s = impl[7:].strip("[]")
    counts = [int(x) for x in s.split(",")]
    for i, (c, w) in enumerate(zip(counts, ws)):
        p = float(w / tot)
        mean = trials * p
        sigma = math.sqrt(trials * p * (1 - p))
        if abs(c - mean) > 6 * sigma + 1e-6:
            return ("frequency", "sampleNum=1, weights %s: index %d returned %d of %d times, expected %.1f +- %.1f (6 sigma = %.1f)"
                    % (t[3:], i, c, trials, mean, sigma, 6 * sigma))
    return None


# ---------------------------------------------------------------- vm_compute cross-check
def coq_crosscheck(chk, cases, model_out):
    items = []
    for c, m in zip(cases, model_out):
        seed, k, n, ws, ranks = case_params(c)
        if abs(k) > 1000 or abs(n) > 1000:
            continue
        pm = parse_model(m)
        exp = "None" if pm is None else "Some [" + ";".join("(%d)" % x for x in pm) + "]"
        if pm is None and m != "PANIC":
            continue
        items.append("(smp_sample_list SmpEmpty (%d) (%d) [%s], %s)" % (k, n, ";".join("(%d)" % x for x in ranks), exp))
    if not items:
        return 0
    body = """From Got Require Import Base Heap Sample.
Local Open Scope Z_scope.
Definition zl_eqb (a b : list Z) : bool := if list_eq_dec Z.eq_dec a b then true else false.
Definition ok (c : hp_res (list Z) * option (list Z)) : bool :=
  match c with
  | (HpOk r, Some e) => zl_eqb r e
  | (HpPanic, None) => true
  | _ => false end.
Definition cases := [%s].
Definition bad := Eval vm_compute in length (filter (fun c => negb (ok c)) cases).
Print bad.
""" % ";\n".join(items)
    out = common.run_coq_eval(body)
    if "bad = 0%nat" not in out.replace("\n", " "):
        chk.diverge("vm_compute-vs-extraction", "sample of %d cases" % len(items), out[-300:], "", "extracted OCaml model disagrees with vm_compute")
    return len(items)


# ---------------------------------------------------------------- run
def run_sampling_streams(chk, binary, pre_streams):
    """builds the two-pass cases and runs compare + monitors; returns (cases, keys)"""
    streams = []
    allcases = []
    amb = 0
    for name, pres in pre_streams:
        built = build_cases(binary, pres)
        streams.append((name, [c for c, _ in built]))
        allcases += built
    pure.run_streams(chk, binary, streams, compare, monitor, nontrivial)
    for c, keys in allcases:
        if keys and ambiguous(keys):
            amb += 1
    chk.cov["ambiguous_skipped"] = chk.cov.get("ambiguous_skipped", 0) + amb
    return [c for c, _ in allcases]


def canary(chk, binary, cases):
    """The pre-fix variant of the model (SmpPrefilled) must DISAGREE with the implementation on
    the corpus witnesses; otherwise the observation is too weak to tell right from wrong."""
    if not cases:
        chk.infra_errors.append("no canary witnesses in corpus/C20")
        return
    impl = common.run_impl(binary, cases)
    model = common.run_model(["c20o" + c[3:] for c in cases])
    agree = [c for c, m, i in zip(cases, model, impl)
             if parse_impl(i) is not None and parse_model(m) == parse_impl(i)[0]]
    chk.cov["canary_cases"] = len(cases)
    chk.cov["canary_diverging"] = len(cases) - len(agree)
    if agree:
        chk.diverge("canary", agree[0], "pre-fix model variant", "", "the pre-fix (prefilled-heap) model variant agrees with the implementation on a refutation witness: "
                    "either the defect of commit 5cca028 is back or the comparison cannot tell the variants apart")


def run(chk):
    chk.trusted = common.BASE_TRUSTED + [
        "modelled: container/heap re-modelled from the Go 1.23 source (lib/Heap.v, checked every run against container/heap)",
        "modelled: math.Log / math/rand / float64 keys abstracted to their ORDER (model input = ranks of the reference keys recomputed by the harness from the replayed rand.Seed stream)",
        "statistical: P(i) = w_i/sum(w) for sampleNum = 1 is, for the float64 IMPLEMENTATION, a fixed-seed 6-sigma frequency TEST, not a proof",
        "modelled: the distribution clause is a THEOREM only about the ideal real-valued model (models/SampleProb.v: independent draws uniform on the "
        "open unit interval, exact keys ln u / w in R, no ties): c20_k1_probability = w_i/sum(w) and companions, c20_k2_probability = w_i/W * w_j/(W-w_i) for the first two picks. Modelling assumption, not proved: the "
        "probability of an event about independent uniform draws IS the iterated Riemann integral of its indicator over the unit cube "
        "(u_i outermost, then u_j for sampleNum = 2; no measure theory underneath; the exchange of the integration order is proved for two items only). Not modelled: float64 "
        "rounding of the keys / math.Log, math/rand (2^53-point grid, can return 0), ties",
        "axioms: the theorems of the ideal model (" + ", ".join(REAL_THEOREMS) + ") depend on these standard-library axioms of the classical reals, "
        "as printed by Print Assumptions: " + ", ".join(REAL_ANALYSIS_BASE) + "; all other C20 theorems are closed under the global context",
    ]
    chk.assumptions = ["1 <= sampleNum <= totalNum (the property's hypothesis); otherwise the call panics (c20_sample_panics_iff)",
                       "weights strictly positive and finite => every key is a float64 that is not NaN (totally ordered)",
                       "rand.Seed(s) makes the global math/rand stream reproducible (checked by the harness on every case)",
                       "distribution theorems (c20_k1_*): draws independent and uniform on the open unit interval, real arithmetic exact; "
                       "probability := iterated Riemann integral of the indicator of the event (modelling assumption, see trusted base)"]
    chk.cov["rule"] = ("cases = (seed, sampleNum, totalNum, weight vector); weight kinds: integers, 1e-3..1e-6, normalised probabilities, 1e-300, "
                       "subnormal, 1e300, max float, skewed over 600 orders of magnitude, equal; all (k,n) <= 8 (16 thorough) + random up to 64; "
                       "invalid (k,n); out-of-domain tie stream; non-trivial = returns normally with totalNum >= 3; distinct = distinct case line. "
                       "Extra streams: Heap.v vs container/heap; k=1 frequency test")
    chk.run_proof_gate(PROOFS, extra_allowed={t: REAL_ANALYSIS_BASE for t in REAL_THEOREMS})
    binary = pure.build_pure(chk)
    if binary:
        try:
            corpus = [c for c in pure.corpus_cases("C20") if c.startswith("c20pre")]
            pre_streams = [("corpus", corpus)] + gen(chk.rng, chk.tier)
            cases = run_sampling_streams(chk, binary, pre_streams)
            # call sequences in one goroutine (earlier calls, also panicking ones, must leave nothing behind)
            seq_streams = [(name, build_seq_cases(binary, sqs)) for name, sqs in gen_seq(chk.rng.fork(), chk.tier)]
            corpus_seq = [c for c in pure.corpus_cases("C20") if c.startswith("c20Q")]
            nseq = pure.run_streams(chk, binary, [("corpus-seq", corpus_seq)] + seq_streams, compare_seq, monitor_seq, nontrivial_seq)
            # overlapping calls: an inner call made from inside getWeight; goroutines on private weights
            ncs = build_nested_cases(binary, gen_nested(chk.rng.fork(), chk.tier))
            corpus_n = [c for c in pure.corpus_cases("C20") if c.startswith("c20N")]
            pure.run_streams(chk, binary, [("corpus-nested", corpus_n), ("nested-call-inside-getWeight", ncs)], compare_nested, monitor_nested,
                             lambda case, model: model.startswith("r="))
            run_concurrent(chk, binary, chk.rng.fork(), chk.tier)
            chk.cov["call_sequences"] = dict(sequences=nseq, calls=sum(len(seq_calls(c)) for _, cs in seq_streams for c in cs))
            # canary on the corpus witnesses
            canary(chk, binary, cases[:len(corpus)])
            # Heap.v against the real heap implementations
            # (std.PriorityQueue is not used by randx; its differential stream belongs to C10)
            hstreams = heapdiff.run(chk, binary, which=("heapraw", "heapinit"))
            # frequency test (k = 1)
            sc = stat_cases(chk.rng.fork(), chk.tier)
            so = common.run_impl(binary, [c for c, _ in sc])
            for (c, name), o in zip(sc, so):
                chk.count_case("frequency-test-k1", c, True)
                mf = stat_monitor(c, o)
                if mf:
                    chk.monitor_fail(mf[0], c, o, mf[1])
            chk.cov["frequency_test"] = dict(vectors=[n for _, n in sc], trials_each=int(sc[0][0].split()[2]), tolerance="6 sigma", kind="statistical test, not a proof")
            # vm_compute cross-check on a sample
            sample = cases[len(corpus):len(corpus) + 60] + [c for c in cases if " R " in c][-90:]
            mo = common.run_model(sample)
            n1 = coq_crosscheck(chk, sample, mo)
            hs = [c for _, cs in hstreams for c in cs[:25]]
            n2 = heapdiff.coq_crosscheck(chk, hs, common.run_model(hs))
            chk.cov["vm_compute_crosschecked"] = n1 + n2
        except common.ImplCrash as ex:
            chk.infra_errors.append("implementation harness crashed: " + str(ex)[-800:])
        except Exception as ex:
            chk.infra_errors.append("check failed to run: %r" % (ex,))
    chk.finish(search=search)


def search(chk):
    """Correspondence or proof broken: look for an input where the implementation itself
    violates the property (monitors only, larger generator + frequency test)."""
    binary = pure.build_pure(chk)
    if not binary:
        return
    rng = chk.rng.fork()
    pres = [c for c in pure.corpus_cases("C20") if c.startswith("c20pre")]
    for _, cs in gen(rng, "thorough")[:2]:
        pres += cs[:8000]
    try:
        built = build_cases(binary, pres)
        cases = [c for c, _ in built]
        impl = common.run_impl(binary, cases)
        for c, i in zip(cases, impl):
            mf = monitor(c, i)
            if mf:
                chk.monitor_fail(mf[0], c, i, mf[1])
        for _, sqs in gen_seq(rng.fork(), "quick"):
            qc = build_seq_cases(binary, sqs)
            for c, i in zip(qc, common.run_impl(binary, qc)):
                mf = monitor_seq(c, i)
                if mf:
                    chk.monitor_fail(mf[0], c, i, mf[1])
        ncs = build_nested_cases(binary, gen_nested(rng.fork(), "quick"))
        for c, i in zip(ncs, common.run_impl(binary, ncs)):
            mf = monitor_nested(c, i)
            if mf:
                chk.monitor_fail(mf[0], c, i, mf[1])
        run_concurrent(chk, binary, rng.fork(), "quick")
        sc = stat_cases(rng, "quick")
        so = common.run_impl(binary, [c for c, _ in sc])
        for (c, name), o in zip(sc, so):
            mf = stat_monitor(c, o)
            if mf:
                chk.monitor_fail(mf[0], c, o, mf[1])
    except common.ImplCrash as ex:
        chk.infra_errors.append("implementation harness crashed during search: " + str(ex)[-800:])


def replay(chk, path):
    import json
    rep = json.load(open(path))
    binary = pure.build_pure(chk)
    cases = [x["case"] for x in rep.get("failing_inputs", []) + rep.get("divergences", []) if isinstance(x.get("case"), str)]
    bad = 0
    for c in cases:
        tag = c.split()[0]
        impl = common.run_impl(binary, [c])[0]
        if tag == "c20stat":
            mf = stat_monitor(c, impl)
            print("case=%s\n  impl=%s\n  monitor=%s" % (c, impl, mf))
            bad += 1 if mf else 0
        elif tag == "c20":
            model = common.run_model([c])[0]
            mf, cm = monitor(c, impl), compare(c, model, impl)
            print("case=%s\n  model=%s\n  impl=%s\n  monitor=%s compare=%s" % (c, model, impl, mf, cm))
            bad += 1 if (mf or cm) else 0
        elif tag == "c20N":
            model = common.run_model([c])[0]
            mf, cm = monitor_nested(c, impl), compare_nested(c, model, impl)
            print("case=%s\n  model=%s\n  impl=%s\n  monitor=%s compare=%s" % (c, model, impl, mf, cm))
            bad += 1 if (mf or cm) else 0
        elif tag == "c20G":
            mf = monitor_conc(c, impl)
            print("case=%s\n  impl=%s\n  monitor=%s" % (c, impl, mf))
            bad += 1 if mf else 0
        elif tag == "c20Q":
            model = common.run_model([c])[0]
            mf, cm = monitor_seq(c, impl), compare_seq(c, model, impl)
            print("case=%s\n  model=%s\n  impl=%s\n  monitor=%s compare=%s" % (c, model, impl, mf, cm))
            bad += 1 if (mf or cm) else 0
        elif tag in ("heap", "heapraw", "heapinit"):
            model = common.run_model([c])[0]
            cm = heapdiff.compare(c, model, impl)
            print("case=%s\n  model=%s\n  impl=%s\n  compare=%s" % (c, model, impl, cm))
            bad += 1 if cm else 0
    print("replayed %d case(s), %d still failing" % (len(cases), bad))
    raise SystemExit(1 if bad else 0)
