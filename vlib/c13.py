# C13 -- iox.Buffer / iox.OctetsStream are seekable FIFO byte streams for any op sequence.
# Models: coq/models/{Fifo,StreamOps,Buffer}.v ; theorems: coq/props/C13.v
#
# A case line is an op sequence ("c13S w4 r1 s0:10 t", "c13B w40 n3 g70 ..."); the Go
# harness runs it on the real type, the extracted model runs it on the Gallina
# transcription; both print, after every op, the returned values and the observers.
# Token syntax: ocaml/drv_c13.ml.
from . import common, pure

PROOFS = ["proofs/FifoProofs.v", "proofs/StreamOpsProofs.v", "proofs/BufferProofs.v",
          "models/Fifo.v", "models/StreamOps.v", "models/Buffer.v", "lib/GoSlice.v"]

I64MIN, I64MAX = -(1 << 63), (1 << 63) - 1


def pat(i):
    return (i + (i >> 8) * 3 + 1) & 0xff


# ------------------------------------------------------------------ parsing
def expand_q(toks):
    """q<n>/<tok> = Buffer.ReadOnce of n bytes whose reader first performs <tok> on the same buffer:
    the inner op, then the Write of the delivered bytes (two trace lines)"""
    out = []
    for t in toks:
        if t[:1] == "q" and "/" in t:
            n, inner = t[1:].split("/", 1)
            out += [inner, "o" + n]
        else:
            out.append(t)
    return out


def parse_case(case):
    """-> (kind 'S'|'B', [op]) ; op = (k, arg...) with payload bytes materialised."""
    t = case.split()
    kind = "S" if t[0] in ("c13S", "c13So") else "B"
    ops, written = [], 0
    for tok in expand_q(t[1:]):
        k, a = tok[0], tok[1:]
        if k in "wo":     # o = Buffer.ReadOnce from a reader delivering the payload: must behave as Write
            n = int(a)
            ops.append(("w", bytes(pat(written + i) for i in range(n))))
            written += n
        elif k == "x":
            d = bytes.fromhex(a)
            ops.append(("w", d))
            written += len(d)
        elif k in "rng":
            ops.append((k, int(a)))
        elif k == "s":
            w, o = a.split(":")
            ops.append(("s", int(w), int(o)))
        elif k in "tz":
            ops.append((k,))
        else:
            raise ValueError("bad token " + tok)
    return kind, ops


def parse_line(kind, line):
    """one op's observation -> dict or None if unparsable.
    'PANIC' -> {'panic': True}"""
    line = line.strip()
    if line == "PANIC":
        return dict(panic=True)
    parts = line.split(" ")
    d = dict(panic=False, ret=parts[0])
    for p in parts[1:]:
        if "=" not in p:
            return None
        k, v = p.split("=", 1)
        d[k] = v
    return d


def split_trace(out):
    return [x for x in out.split(" ; ")] if out.strip() else []


# ------------------------------------------------------------------ compare
def compare(case, model, impl):
    if model.startswith("MODEL-EXN") or model == "BADCASE":
        return "model produced no result (%s)" % model[:80]
    if model == impl:
        return None
    ml, il = split_trace(model), split_trace(impl)
    for k, (a, b) in enumerate(zip(ml, il)):
        if a != b:
            return "op #%d (%s): model '%s' vs implementation '%s'" % (k, expand_q(case.split()[1:])[k], a[:160], b[:160])
    return "trace lengths differ: model %d ops, implementation %d ops" % (len(ml), len(il))


# ------------------------------------------------------------------ monitor
def monitor(case, impl):
    """Direct FIFO reference, independent of the Coq model: W = every byte written since
    the last Reset, cur = absolute read offset into W, base = absolute offset of the first
    retained byte (moves only when the implementation compacts). Checks the property text
    on the implementation's observations op by op."""
    kind, ops = parse_case(case)
    if impl.startswith("PANIC "):
        return ("panic", "harness-level panic: " + impl[:200])
    lines = split_trace(impl)
    W = b""
    cur = 0
    base = 0
    for k, op in enumerate(ops):
        tok = expand_q(case.split()[1:])[k]
        where = "op #%d (%s)" % (k, tok)
        if k >= len(lines):
            return ("trace", "%s: no observation printed" % where)
        o = parse_line(kind, lines[k])
        if o is None:
            return ("trace", "%s: unparsable observation '%s'" % (where, lines[k][:100]))
        negative = op[0] in "ng" and op[1] < 0
        if o["panic"]:
            if negative:
                return None  # outside the property's quantifier (non-negative sizes); compared with the model only
            return ("panic", "%s panicked" % where)
        if o.get("b") == "PANIC":
            return ("panic", "%s: returned %s, then Bytes() panicked (position %s, len %s)" % (where, o["ret"], o.get("p"), o.get("l")))
        if negative:
            return None
        try:
            got = bytes.fromhex(o["b"])
            L = int(o["l"])
            P = None if o["p"] == "E" else int(o["p"])
        except (KeyError, ValueError):
            return ("trace", "%s: unparsable observation '%s'" % (where, lines[k][:100]))
        retained_before = len(W) - base
        unread_before = W[cur:]
        pos_before = cur - base
        ret = o["ret"]
        seek_failed = False
        # ---- what the op must return / do to the reference
        if op[0] == "w":
            want = "W" if kind == "S" else "W%d" % len(op[1])
            if ret != want:
                return ("write-ret", "%s returned %s, want %s" % (where, ret, want))
            W += op[1]
        elif op[0] in "rn":
            n = op[1]
            data = unread_before[:n]
            if kind == "S":
                want = "R%d:%s%s" % (len(data), data.hex(), ":E" if n == 0 else "")
            elif op[0] == "r":
                want = "R%d:%s%s" % (len(data), data.hex(), ":EOF" if (n > 0 and not unread_before) else "")
            else:
                want = "N" + data.hex()
            if ret != want:
                return ("read", "%s returned %s but the next %d unread bytes are %s (want %s)" % (where, ret[:80], n, data.hex()[:60], want[:80]))
            cur += len(data)
        elif op[0] == "s":
            w, off = op[1], op[2]
            tgt = {0: off, 1: pos_before + off, 2: retained_before + off}.get(w)
            if tgt is not None and 0 <= tgt <= retained_before:
                if ret != "S%d" % tgt:
                    return ("seek", "%s returned %s, want S%d (retained %d bytes, cursor %d)" % (where, ret, tgt, retained_before, pos_before))
                cur = base + tgt
            else:
                seek_failed = True
                if ret != "SE":
                    return ("seek", "%s returned %s, want an error (target %s outside retained data [0,%d])" % (where, ret, tgt, retained_before))
        elif op[0] == "t":
            base = cur
        elif op[0] == "z":
            W, cur, base = b"", 0, 0
        elif op[0] == "g":
            pass
        # ---- observers after the op
        unread = W[cur:]
        if got != unread:
            return ("unread", "%s: Bytes() = %s (%d bytes) but written-and-not-consumed = %s (%d bytes)" % (where, got.hex()[:60], len(got), unread.hex()[:60], len(unread)))
        if P is None:
            return ("cursor", "%s: Seek(0, SeekCurrent) fails afterwards: cursor outside the data" % where)
        if op[0] in "wg" and kind == "B":
            # the buffer's own growth may compact: cursor keeps its place or the consumed prefix is dropped
            if P == 0:
                base = cur
            elif P != pos_before:
                return ("cursor", "%s moved the cursor from %d to %d" % (where, pos_before, P))
        if P != cur - base:
            return ("cursor", "%s: cursor at %d, want %d" % (where, P, cur - base))
        retained = len(W) - base
        wantL = retained if kind == "S" else len(unread)
        if L != wantL:
            return ("len", "%s: Len() = %d, want %d" % (where, L, wantL))
        if not (0 <= P <= retained):
            return ("cursor", "%s: cursor %d outside the retained data [0,%d]" % (where, P, retained))
        if seek_failed and (P != pos_before or got != unread_before):
            return ("seek", "%s failed but changed the stream" % where)
    if len(lines) != len(ops):
        return ("trace", "%d observations for %d ops" % (len(lines), len(ops)))
    return None


import collections
STATS = collections.Counter()


def _stats(case, model):
    """which branches of the model the generated cases reach (written to the evidence)"""
    kind = "S" if case.startswith("c13S") else "B"
    toks = expand_q(case.split()[1:])
    prev = dict(l=0, c=0, p=0)
    for tok, line in zip(toks, split_trace(model)):
        o = parse_line(kind, line)
        if o is None or o["panic"] or o.get("b") == "PANIC":
            STATS[kind + ":panic"] += 1
            break
        try:
            cur = dict(l=int(o["l"]), c=int(o.get("c", 0)), p=int(o["p"]))
        except ValueError:
            break
        k = tok[0]
        if k == "s":
            STATS["%s:seek-%s-whence%s" % (kind, "fail" if o["ret"] == "SE" else "ok", tok[1:].split(":")[0] if tok[1:].split(":")[0] in "012" else "-invalid")] += 1
        elif k in "rn":
            STATS["%s:read-%s" % (kind, "empty" if o["ret"] in ("N", "R0:", "R0::EOF", "R0::E") else "data")] += 1
        elif k == "t":
            STATS["%s:tidy-%s" % (kind, "moves" if prev["p"] > 0 else "noop")] += 1
        elif k in "wgo" and kind == "B":
            if k == "o":
                STATS["B:write-via-ReadOnce"] += 1
            if cur["c"] != prev["c"]:
                br = "make64" if (prev["c"] == 0 and cur["c"] == 64) else "reallocate"
            elif prev["p"] > 0 and cur["p"] == 0:
                br = "reset-if-empty" if prev["l"] == 0 else "slide-down"
            else:
                br = "reslice"
            STATS["B:grow-%s%s" % (br, "-cursor-mid" if prev["p"] > 0 and prev["l"] > 0 else "")] += 1
        else:
            STATS["%s:%s" % (kind, k)] += 1
        prev = cur


def nontrivial(case, model):
    """a read that returns data after a seek or a compaction, in a sequence of >= 3 ops"""
    _stats(case, model)
    t = expand_q(case.split()[1:])
    if len(t) < 3:
        return False
    seen = False
    for tok, line in zip(t, split_trace(model)):
        if tok[0] in "st" or (tok[0] in "wgo" and " p=0" in line):
            seen = True
        if seen and tok[0] in "rn" and (line.startswith("R") and not line.startswith("R0:") or line.startswith("N") and not line.startswith("N ")):
            return True
    return False


# ------------------------------------------------------------------ generators
S_ALPHA = ["w0", "w1", "w3", "r0", "r1", "r3", "s0:0", "s0:2", "s1:-1", "s1:1", "s2:0", "s2:-2", "s0:5", "s3:0", "t", "z"]


def product(alpha, n):
    if n == 0:
        yield []
        return
    for p in product(alpha, n - 1):
        for a in alpha:
            yield p + [a]


def seek_tok(rng, retained, pos):
    w = rng.choice([0, 0, 1, 1, 2, 2, 0, 1, 2, 3, -1, 7, I64MAX, I64MIN])
    o = rng.choice([0, 1, -1, 2, -2, retained, retained + 1, -retained, -retained - 1, pos, -pos, -pos - 1,
                    retained - pos, retained - pos + 1, rng.range(-retained - 3, retained + 3),
                    I64MAX, I64MIN, I64MAX - rng.range(0, 70), I64MIN + rng.range(0, 70), 1 << 32, -(1 << 32), 1 << 62])
    return "s%d:%d" % (w, o)


def gen_stream_random(rng, count):
    out = []
    for _ in range(count):
        n = rng.range(5, 60)
        toks = []
        retained = pos = 0  # rough tracking, only to bias sizes/offsets
        for _ in range(n):
            r = rng.below(100)
            if r < 30:
                k = rng.choice([0, 1, 2, 3, 7, 16, 63, 64, 65, rng.range(0, 200)])
                toks.append("w%d" % k)
                retained += k
            elif r < 55:
                un = retained - pos
                k = rng.choice([0, 1, 2, 3, un, un + 1, max(0, un - 1), rng.range(0, 80)])
                toks.append("r%d" % k)
                pos = min(retained, pos + k)
            elif r < 80:
                toks.append(seek_tok(rng, retained, pos))
            elif r < 93:
                toks.append("t")
                retained -= pos
                pos = 0
            else:
                toks.append("z")
                retained = pos = 0
        out.append("c13S " + " ".join(toks))
    return out


def via_readonce(rng, toks):
    """about a third of the writes of a random Buffer case go through Buffer.ReadOnce (token o<n>): the
    second entry point into Write must behave exactly as Write"""
    out = []
    for t in toks:
        if t[0] == "n" and rng.below(6) == 0:
            # "give me the rest": Next(math.MaxInt) and its neighbours (off + n must not be computed before clamping)
            out.append("n%d" % ((1 << 63) - 1 - rng.below(70)))
            continue
        if t[0] == "w" and rng.below(3) == 0:
            if rng.below(4) == 0:
                # re-entrant reader: it performs one op on the same Buffer before delivering its bytes
                inner = rng.choice(["w3", "w40", "n1", "n50", "r3", "t", "z", "g70", "s0:0", "s1:-1", "o2"])
                out.append("q%s/%s" % (t[1:], inner))
            else:
                out.append("o" + t[1:])
        else:
            out.append(t)
    return out


B_ALPHA = ["w0", "w1", "w3", "w40", "o1", "o40", "n9223372036854775807", "r0", "r1", "r3", "n1", "n3", "n50", "s0:0", "s0:2", "s1:-1", "s1:1", "s2:0", "s2:-2",
           "s0:5", "s3:0", "t", "z", "g0", "g1", "g70"]


class BufSim:
    """capacity logic of iox.Buffer, used ONLY to steer the random generator towards the
    branch thresholds of grow (no role in any verdict)."""

    def __init__(self):
        self.l = self.off = self.cap = 0
        self.nil = True

    def grow(self, n):
        m = self.l - self.off
        if m == 0 and self.off != 0:
            self.l = self.off = 0
        if n <= self.cap - self.l:
            self.l += n
            return
        if self.nil and n <= 64:
            self.nil, self.cap, self.l = False, 64, n
            return
        if n <= self.cap // 2 - m:
            pass
        else:
            self.cap = 2 * self.cap + n
            self.nil = False
        self.off, self.l = 0, m + n

    def sizes(self, rng):
        m = self.l - self.off
        c = self.cap
        cand = [0, 1, 2, 3, 31, 32, 33, 63, 64, 65, c - self.l, c - self.l + 1, max(0, c - self.l - 1),
                c // 2 - m, c // 2 - m + 1, max(0, c // 2 - m - 1), c // 2, c, c + 1, 2 * c + 1, rng.range(0, 130), rng.range(0, 2 * c + 2)]
        lim = 64 if c > 1500 else 700
        return [x for x in cand if 0 <= x <= lim]


def gen_buffer_random(rng, count):
    out = []
    for _ in range(count):
        n = rng.range(5, 60)
        sim = BufSim()
        toks = []
        for _ in range(n):
            r = rng.below(100)
            un = sim.l - sim.off
            if r < 28:
                k = rng.choice(sim.sizes(rng))
                toks.append("w%d" % k)
                if not (k <= sim.cap - sim.l):
                    sim.grow(k)
                else:
                    sim.l += k
            elif r < 50:
                k = rng.choice([0, 1, 2, 3, un, un + 1, max(0, un - 1), un // 2, rng.range(0, 80)])
                toks.append(rng.choice(["r%d", "r%d", "n%d"]) % k)
                sim.off += min(k, un)
            elif r < 72:
                toks.append(seek_tok(rng, sim.l, sim.off))
                # rough: a successful absolute/relative seek is not tracked exactly; keep sim.off when unsure
                w, o = toks[-1][1:].split(":")
                w, o = int(w), int(o)
                tgt = {0: o, 1: sim.off + o, 2: sim.l + o}.get(w)
                if tgt is not None and 0 <= tgt <= sim.l:
                    sim.off = tgt
            elif r < 82:
                toks.append("t")
                if sim.off > 0:
                    sim.l -= sim.off
                    sim.off = 0
            elif r < 88:
                toks.append("z")
                sim.l = sim.off = 0
            else:
                k = rng.choice(sim.sizes(rng))
                toks.append("g%d" % k)
                l0 = sim.l
                sim.grow(k)
                sim.l = sim.l - k
        out.append("c13B " + " ".join(via_readonce(rng, toks)))
    return out


def gen_buffer_scenarios(rng, count):
    """steer into grow's slide-down / reallocate decision (n <= cap/2 - Len, just above, just
    below) with a consumed prefix and a cursor in the middle, then read everything back"""
    out = []
    for _ in range(count):
        sim = BufSim()
        toks = []

        def w(k):
            toks.append("w%d" % k)
            if k <= sim.cap - sim.l:
                sim.l += k
            else:
                sim.grow(k)

        # establish a capacity
        for _ in range(rng.range(1, 3)):
            w(rng.choice([1, 40, 64, 65, 100, rng.range(1, 300)]))
        # fill close to the capacity
        w(max(0, sim.cap - sim.l - rng.choice([0, 0, 1, 2, 5, rng.range(0, 20)])))
        # consume most of it
        un = sim.l - sim.off
        keep = rng.choice([0, 1, 2, 3, rng.range(0, max(1, sim.cap // 2))])
        k = max(0, un - keep)
        toks.append(rng.choice(["r%d", "n%d"]) % k)
        sim.off += min(k, un)
        if rng.chance(1, 3) and sim.off > 0:   # step back into consumed data
            back = rng.range(1, min(sim.off, 5))
            toks.append("s1:-%d" % back)
            sim.off -= back
        m = sim.l - sim.off
        thr = sim.cap // 2 - m
        n = rng.choice([thr, thr + 1, thr - 1, sim.cap - sim.l + 1, max(1, thr // 2), thr + rng.range(0, 40)])
        n = max(0, min(n, 900))
        if rng.chance(1, 4):
            toks.append("g%d" % n)
            sim.grow(n)
            sim.l -= n
        else:
            w(n)
        # look around and drain
        toks.append(rng.choice(["s0:0", "s2:0", "s1:1", "s1:-1", "t", "s0:%d" % (sim.l - sim.off)]))
        toks.append("s0:0")
        toks.append("r%d" % rng.choice([sim.l + 1, sim.l, max(0, sim.l - 1)]))
        toks.append("r1")
        out.append("c13B " + " ".join(via_readonce(rng, toks)))
    return out


def gen_malformed(rng, count):
    """negative Next/Grow sizes (outside the property's quantifier): model and code must
    still agree (both panic at the same op)"""
    out = []
    for _ in range(count):
        toks = [rng.choice(B_ALPHA) for _ in range(rng.range(0, 5))]
        toks.append(rng.choice(["n-1", "g-1", "n-70", "g-9223372036854775808", "n-9223372036854775808"]))
        toks += [rng.choice(B_ALPHA) for _ in range(rng.range(0, 2))]
        out.append("c13B " + " ".join(via_readonce(rng, toks)))
    return out


def gen(rng, tier):
    streams = []
    quick = tier == "quick"
    # ---- Buffer, bounded-exhaustive
    ex = []
    for n in range(1, 4):
        ex += ["c13B " + " ".join(p) for p in product(B_ALPHA, n)]
    if quick:
        for _ in range(4000):
            ex.append("c13B " + " ".join(rng.choice(B_ALPHA) for _ in range(4)))
    else:
        ex += ["c13B " + " ".join(p) for p in product(B_ALPHA, 4)]
    streams.append(("buffer-exhaustive-short", sorted(set(ex))))
    streams.append(("buffer-random-long", gen_buffer_random(rng, 600 if quick else 6000)))
    streams.append(("buffer-grow-thresholds", gen_buffer_scenarios(rng, 1500 if quick else 15000)))
    streams.append(("buffer-negative-sizes", gen_malformed(rng, 100 if quick else 1000)))
    # ---- OctetsStream, bounded-exhaustive
    ex = []
    for n in range(1, 4):
        ex += ["c13S " + " ".join(p) for p in product(S_ALPHA, n)]
    if quick:
        for _ in range(3000):
            ex.append("c13S " + " ".join(rng.choice(S_ALPHA) for _ in range(4)))
    else:
        ex += ["c13S " + " ".join(p) for p in product(S_ALPHA, 4)]
    streams.append(("stream-exhaustive-short", sorted(set(ex))))
    streams.append(("stream-random-long", gen_stream_random(rng, 500 if quick else 5000)))
    # ---- objects that once carried a big message (> 64 KB), were partly read, and are reused after Reset / Tidy
    big = []
    for tag in ("c13S", "c13B"):
        for n in (65537, 70000):
            for mid in (["r4097", "z"], ["r%d" % n, "z"], ["r4097", "t", "z"], ["r4097", "z", "t"], ["s0:%d" % (n // 2), "z"]):
                tail = ["w3", "r2", "t", "w5", "r9"] if rng.chance(1, 2) else ["w1", "r1", "w%d" % rng.range(2, 40), "s0:0", "r50"]
                big.append("%s w%d %s %s" % (tag, n, " ".join(mid), " ".join(tail)))
    streams.append(("big-buffer-reused", big if not quick else big[:: 2]))
    return streams


# ------------------------------------------------------------------ vm_compute cross-check
def flat_of_output(kind, out):
    """text trace -> the flat integer list of stm_flat / buf_flat"""
    fl = []
    for line in split_trace(out):
        o = parse_line(kind, line)
        if o["panic"]:
            fl.append(-1)
            continue
        ret = o["ret"]
        if ret == "W":
            fl += [1]
        elif ret.startswith("W"):
            fl += [1, int(ret[1:])]
        elif ret.startswith("N"):
            d = bytes.fromhex(ret[1:])
            fl += [5, len(d)] + list(d)
        elif kind == "B" and ret == "SE":
            fl += [3, 0]
        elif kind == "B" and ret.startswith("S"):
            fl += [3, 1, int(ret[1:])]
        elif ret.startswith("R"):
            f = ret[1:].split(":")
            d = bytes.fromhex(f[1])
            fl += [2, 1 if len(f) > 2 else 0, len(d)] + list(d)
        elif ret == "SE":
            fl += [3, 0]
        elif ret.startswith("S"):
            fl += [3, 1, int(ret[1:])]
        elif ret == "U":
            fl += [4]
        else:
            raise ValueError(ret)
        if o["b"] == "PANIC":
            fl.append(-2)
        else:
            d = bytes.fromhex(o["b"])
            fl += [len(d)] + list(d)
        if kind == "S":
            fl += [int(o["l"]), int(o["p"])]
        else:
            fl += [int(o["l"]), int(o["c"])] + ([0] if o["p"] == "E" else [1, int(o["p"])])
    return fl


def coq_ops(kind, case):
    _, ops = parse_case(case)
    def zl(b):
        return "[" + ";".join("%d" % x for x in b) + "]"
    r = []
    for op in ops:
        if kind == "B":
            r.append({"w": lambda: "BWrite %s" % zl(op[1]), "r": lambda: "BRead %d%%nat" % op[1],
                      "n": lambda: "BNext (%d)" % op[1], "g": lambda: "BGrow (%d)" % op[1],
                      "s": lambda: "BSeek (%d) (%d)" % (op[2], op[1]), "t": lambda: "BTidy", "z": lambda: "BReset"}[op[0]]())
        elif op[0] == "w":
            r.append("SWrite %s" % zl(op[1]))
        elif op[0] == "r":
            r.append("SRead %d%%nat" % op[1])
        elif op[0] == "s":
            r.append("SSeek (%d) (%d)" % (op[2], op[1]))
        elif op[0] == "t":
            r.append("STidy")
        elif op[0] == "z":
            r.append("SReset")
    return "[" + "; ".join(r) + "]"


def coq_crosscheck(chk, cases, model_out):
    items = []
    for c, m in zip(cases, model_out):
        kind = "S" if c.startswith("c13S ") else "B"
        fl = flat_of_output(kind, m)
        fn = "stm_flat StmFixed" if kind == "S" else "buf_flat"
        items.append("(%s %s, [%s])" % (fn, coq_ops(kind, c), ";".join("(%d)" % x for x in fl)))
    if not items:
        return 0
    body = """From Got Require Import Base GoSlice StreamOps Buffer.
Local Open Scope Z_scope.
Definition zl_eqb (a b : list Z) : bool := if list_eq_dec Z.eq_dec a b then true else false.
Definition cases : list (list Z * list Z) := [%s].
Definition bad := Eval vm_compute in length (filter (fun c => negb (zl_eqb (fst c) (snd c))) cases).
Print bad.
""" % ";\n".join(items)
    out = common.run_coq_eval(body)
    if "bad = 0%nat" not in out.replace("\n", " "):
        chk.diverge("vm_compute-vs-extraction", "sample of %d cases" % len(items), out[-300:], "", "extracted OCaml model disagrees with vm_compute")
    return len(items)


# ------------------------------------------------------------------ canary
def canary(chk, binary):
    """The ORIGINAL Seek variant of the model must disagree with the implementation on the
    refutation witness; otherwise the observation is too weak to tell right from wrong."""
    wit = [c.replace("c13S ", "c13So ", 1) for c in pure.corpus_cases("C13") if c.startswith("c13S ") and "s0:10" in c]
    if not wit:
        chk.infra_errors.append("canary: no refutation witness in corpus/C13")
        return
    mo = common.run_model(wit)
    io = common.run_impl(binary, wit)
    n = sum(1 for a, b in zip(mo, io) if a != b)
    chk.cov["canary_orig_variant_diverges"] = "%d/%d" % (n, len(wit))
    if n == 0:
        chk.diverge("canary", wit[0], mo[0], io[0], "model of the ORIGINAL Seek (no upper bound) is indistinguishable from the implementation: either the fix was reverted or the observation is too weak")


# ------------------------------------------------------------------ entry points
def megabyte_stream(chk, binary):
    """Buffers of a megabyte and more (any growth policy that depends on the current capacity shows only there). Monitor only:
    the harness keeps a plain []byte reference (c13big.go); the list model needs tens of seconds per such case."""
    rng = chk.rng.fork()
    M = 1 << 20
    cases = []
    for kind in ("B", "S"):
        for c in (M, M + 1, 2 * M) if chk.tier != "quick" else (M, M + 1):
            for second in (c // 4 - 1, c // 4 + 1, c // 2, c + 100, 2 * c):
                cases.append("c13G %s w%d w%d r5 t w%d r%d" % (kind, c, second, rng.range(1, 4096), rng.range(1, 3 * M)))
        cases.append("c13G %s w%d w100 w%d r7 w%d r%d t w%d" % (kind, M, M, M // 3, 2 * M + 55, 300000 + rng.range(0, 999)))
        cases.append("c13G %s w%d r%d t w%d w%d r9" % (kind, M, M - 3, 2 * M, 600000))
        for _ in range(3 if chk.tier == "quick" else 30):
            ops, tot = [], 0
            for _ in range(rng.range(3, 8)):
                k = rng.choice(["w", "w", "w", "r", "t"])
                if k == "w":
                    n = rng.choice([rng.range(1, 100), rng.range(200000, 400000), rng.range(M - 5, M + 5), rng.range(M, 3 * M)])
                    tot += n
                    ops.append("w%d" % n)
                elif k == "r":
                    ops.append("r%d" % rng.range(1, max(2, tot)))
                else:
                    ops.append("t")
            cases.append("c13G %s %s" % (kind, " ".join(ops)))
    try:
        outs = common.run_impl(binary, cases, timeout=300)
    except common.ImplCrash as e:
        chk.monitor_fail("crash", cases[0], str(e)[-400:], "the megabyte-buffer scenarios did not finish: " + str(e)[-200:])
        return
    for c, o in zip(cases, outs):
        chk.count_case("megabyte-buffers", c, True)
        if not o.startswith("ok "):
            chk.monitor_fail("panic" if o.startswith("PANIC") else "content", c, o[:300],
                             "op sequence on a fresh %s (w<n> Write of n bytes, r<n> Read, t Tidy; token index in the result): %s" % (
                                 "iox.Buffer" if c.split()[1] == "B" else "iox.OctetsStream", o[:200]))
    chk.sample(dict(stream="megabyte-buffers", case=cases[0], impl=outs[0]), limit=9)


def run(chk):
    chk.trusted = common.BASE_TRUSTED + [
        "modelled: Go int/int64 as 64-bit two's complement (wrap written into Seek's additions); copy() as memmove; "
        "append growth policy of OctetsStream not modelled (capacity unobservable); allocation assumed to succeed"]
    chk.assumptions = ["Seek offsets are int64; total bytes written < 2^63 (OctetsStream) ",
                       "non-negative sizes for Next/Grow (the property's own quantifier)"]
    chk.cov["rule"] = ("case = op sequence (Write/Read/Next/Seek/Tidy/Reset/Grow tokens) on a fresh zero value; observables after "
                       "every op; non-trivial = >= 3 ops and a read returning data after a seek or a compaction; distinct = distinct case line")
    chk.run_proof_gate(PROOFS)
    binary = pure.build_pure(chk)
    if binary:
        streams = [("corpus", pure.corpus_cases("C13"))] + gen(chk.rng, chk.tier)
        pure.run_streams(chk, binary, streams, compare, monitor, nontrivial)
        chk.cov["model_branches_hit"] = dict(sorted(STATS.items()))
        megabyte_stream(chk, binary)
        try:
            canary(chk, binary)
            sample = []
            for name, cs in streams:
                sample += cs[::max(1, len(cs) // 60)][:60]
            mo = common.run_model(sample)
            # coqc parses long literal lists slowly: keep every short trace, few long ones
            budget, keep = 60000, []
            for c, m in zip(sample, mo):
                if len(m) <= 1500 or (len(m) <= 12000 and budget >= len(m)):
                    keep.append((c, m))
                    budget -= len(m) if len(m) > 1500 else 0
            chk.cov["vm_compute_crosschecked"] = coq_crosscheck(chk, [c for c, _ in keep], [m for _, m in keep])
        except Exception as ex:
            chk.infra_errors.append("canary / vm_compute cross-check failed: %r" % (ex,))
    chk.finish(search=search)


def search(chk):
    binary = pure.build_pure(chk)
    if not binary:
        return
    streams = gen(chk.rng.fork(), "thorough")
    cases = pure.corpus_cases("C13") + [c for _, cs in streams for c in cs]
    impl = common.run_impl(binary, cases)
    for c, i in zip(cases, impl):
        mf = monitor(c, i)
        if mf:
            chk.monitor_fail(mf[0], c, i, mf[1])


def replay(chk, path):
    import json
    rep = json.load(open(path))
    binary = pure.build_pure(chk)
    cases = [x["case"] for x in rep.get("failing_inputs", []) + rep.get("divergences", []) if isinstance(x.get("case"), str) and x["case"].startswith("c13")]
    impl = common.run_impl(binary, cases)
    model = common.run_model(cases)
    bad = 0
    for c, m, i in zip(cases, model, impl):
        mf = monitor(c, i)
        cm = compare(c, m, i)
        print("case=%s\n  model=%s\n  impl=%s\n  monitor=%s compare=%s" % (c, m[:400], i[:400], mf, cm))
        if mf or cm:
            bad += 1
    print("replayed %d case(s), %d still failing" % (len(cases), bad))
    raise SystemExit(1 if bad else 0)
