# C07 stream "dispatch-steps" (also read by C08 and C18): the real ants pool executed one yield site at
# a time under the cooperative scheduler ON THE VIRTUAL CLOCK (harness/cmd/coopft/c07s.go, build tags
# "verif faketime antshooks", yield points of tools/hooks/ants-verif-hooks.patch) against the small-step
# machine coq/models/AntsSteps.v (ocaml/drv_antsteps.ml).  The pool's dispatcher and inner-callback loops
# are logical threads of the scheduler; the schedule decides whether an attempt finishes in time (inner
# worker stepped first) or times out (dispatcher stepped into its select first: the clock jumps to the
# attempt's deadline).  The branch a select takes when both branches are ready is the runtime's choice:
# it is read from the implementation's trace and handed to the model.
# Skipped (recorded, no violation) when the tree under test has no ants hooks.
import os
import re

from . import common

PROOFS = ["proofs/AntsStepsProofs.v", "models/AntsSteps.v", "proofs/RaceAntsProofs.v", "models/RaceAnts.v",
          "proofs/RaceAntsInv.v", "proofs/RaceAntsCases.v",
          # D21: decision / outcome / counting invariants of the step model (all runs)
          "proofs/AntsStepsDecide.v", "proofs/AntsStepsOutcome.v", "proofs/AntsStepsCount.v", "proofs/AntsStepsCountN.v",
          "proofs/AntsStepsProv.v", "proofs/AntsStepsProv2.v", "proofs/AntsStepsKeep.v",
          "proofs/AntsStepsRefine.v", "proofs/AntsStepsRefine2.v"]
FT_ENV = dict(os.environ, GOMAXPROCS="2")

# timeouts (ns) of the Send ops of a case, by global Send index: pairwise distinct, no small sum of
# them equals another sum (an exact tie of two deadlines is detected by the model and not compared)
TS = [1000000, 2300000, 3700000, 5300000, 7100000, 11900000, 16100000, 21300000]

SITE_SEND_LEN, SITE_SEND_ENQ, SITE_DISP_RECV, SITE_INNER_ENQ, SITE_INNER_RECV = 1, 2, 3, 4, 5
SITE_GET_WAIT = 16


def corpus_lines():
    from . import pure
    return [l for l in pure.corpus_cases("C07") if l.startswith("c07s ")]


def hooks_present():
    return os.path.exists(os.path.join(common.REPO, "ants", "verif_on.go"))


def build(chk):
    try:
        return common.build_go("./cmd/coopft", tags="verif faketime antshooks", out_name="coopft-c07s")
    except common.BuildError as e:
        chk.infra_errors.append("coopft harness (antshooks) does not build against the tree under test: " + str(e)[-1500:])
        return None


def send(k, R=1, discard=0, onerr=0, behs=("7_0",)):
    return "S%d:%d:%d:%d:%s" % (TS[k % len(TS)], R, discard, onerr, "+".join(behs))


def case_line(n, progs, sched):
    return "c07s n=%d progs=%s sched=%s" % (n, ";".join(progs), sched)


def enum_many(items, mode, mx):
    """items: [(n, progs)] -> [(states, [sched strings])]"""
    lines = ["c07senum mode=%s max=%d n=%d progs=%s" % (mode, mx, n, ";".join(p)) for n, p in items]
    outs = common.run_model(lines) if lines else []
    res = []
    for o in outs:
        m = re.match(r"states=(\d+) scheds=(.*)$", o)
        if not m:
            raise RuntimeError("c07senum failed: " + o[:200])
        res.append((int(m.group(1)), [s for s in m.group(2).split(";") if s]))
    return res


def spread(xs, n):
    if len(xs) <= n:
        return xs
    step = len(xs) / float(n)
    return [xs[int(i * step)] for i in range(n)]


def random_schedule(rng, nthreads, length):
    sched = []
    prio = list(range(nthreads))
    rng.shuffle(prio)
    while len(sched) < length:
        burst = rng.choice([1, 1, 2, 3, 5, 8])
        t = prio[0] if rng.chance(2, 3) else rng.choice(prio)
        sched += [str(t)] * burst
        if rng.chance(1, 3):
            rng.shuffle(prio)
    return ",".join(sched[:length])


def random_beh(rng):
    b = ""
    if rng.chance(1, 3):
        b += "y"
    if rng.chance(1, 4):
        b += "w"
    if rng.chance(1, 3):
        return b + "%d_%d" % (rng.choice([0, 4]), rng.range(1, 5))
    return b + "%d_0" % rng.range(1, 9)


# small scenarios whose interleavings are enumerated: (pool size, programs)
def small_scenarios():
    s = []
    s.append((1, [send(0) + ".G0"]))                                                   # one prompt task
    s.append((1, [send(0, R=2, onerr=1, behs=("y0_3", "7_0")) + ".G0"]))               # error, then success; handler yields
    s.append((1, [send(0, R=2, onerr=1, behs=("w5_0", "0_4")) + ".G0"]))               # honours ctx (late value), then error
    s.append((1, [send(0, R=2, onerr=1, behs=("y5_0", "y6_0")) + ".G0"]))              # both orders of return vs deadline, twice
    s.append((1, [send(0, discard=1, onerr=1) + ".G0", send(1, discard=1, onerr=1) + ".G0"]))   # busy reject
    s.append((1, [send(0) + "." + send(1, discard=1, onerr=1, behs=("8_0",)) + ".G1.G0"]))
    s.append((2, [send(0, behs=("y7_0",)) + ".G0", send(1, behs=("y8_0",)) + ".G0"]))   # two workers
    s.append((2, [send(0, R=2, behs=("y0_2", "3_0")), send(1, onerr=1, behs=("w0_9",)) + ".G0"]))
    s.append((1, [send(0, R=2, onerr=1, behs=("y1_0", "2_0")) + ".G0", "X"]))            # close in the middle
    return s


def gen(chk, tier):
    rng = chk.rng
    quick = tier == "quick"
    streams = []
    # (a) interleavings (capped per scenario, spread over the whole enumeration)
    items = small_scenarios()
    cap = 140 if quick else 5000
    ex = []
    for (n, progs), (_, scheds) in zip(items, enum_many(items, "all", 6000 if quick else 300000)):
        ex += [case_line(n, progs, s) for s in spread(scheds, cap)]
    streams.append(("dispatch-steps/interleavings-small", ex))
    # (b) one schedule per (reachable state, thread) edge incl. blocked steps
    items = [(1, [send(0, R=2, onerr=1, behs=("y0_3", "w7_0")) + ".G0"]),
             (1, [send(0, discard=1, onerr=1, behs=("y1_0",)), send(1, discard=1, onerr=1) + ".G0"]),
             (2, [send(0, R=2, behs=("y0_2", "3_0")) + ".G0", send(1, behs=("5_0",))]),
             (1, [send(0, R=2, behs=("y5_0", "6_0")) + ".G0", "X"])]
    for _ in range(1 if quick else 30):
        items.append((rng.choice([1, 2]), [send(i, R=rng.range(1, 2), discard=rng.below(2), onerr=rng.below(2),
                                                behs=[random_beh(rng) for _ in range(2)]) + rng.choice(["", ".G0"]) for i in range(2)]))
    ed = []
    nst = 0
    for (n, progs), (k, scheds) in zip(items, enum_many(items, "edges", 500 if quick else 30000)):
        nst += k
        ed += [case_line(n, progs, s) for s in scheds]
    streams.append(("dispatch-steps/state-edge-cover", ed))
    chk.cov["dispatch_steps_states"] = nst
    # (c) random bursty schedules: pools 1-3, 2-4 clients x 1-3 calls, full queues, retries, close
    rd = []
    for _ in range(500 if quick else 30000):
        n = rng.choice([1, 1, 2, 2, 3])
        nclients = rng.range(2, 4)
        progs = []
        k = 0
        closer = rng.chance(1, 6)
        for c in range(nclients):
            ops = []
            ns = 0
            for _ in range(rng.range(1, 3)):
                if ns > 0 and rng.chance(1, 3):
                    ops.append("G%d" % rng.below(ns))
                else:
                    R = rng.choice([1, 1, 2, 2, 3])
                    ops.append(send(k, R=R, discard=rng.below(2), onerr=rng.below(2), behs=[random_beh(rng) for _ in range(R)]))
                    k += 1
                    ns += 1
            if ns > 0 and rng.chance(1, 2):
                ops.append("G%d" % rng.below(ns))
            progs.append(".".join(ops))
        if closer:
            progs.append("X")
        rd.append(case_line(n, progs, random_schedule(rng, len(progs) + 2 * n, rng.range(10, 140))))
    streams.append(("dispatch-steps/random", rd))
    return streams


# ------------------------------------------------------------------------------------------- traces
class Trace:
    """the three phases of a trace as one list of (tid, ev, b, lenT, lenI, now, running, discards, tasks)"""

    def __init__(self, case, out):
        self.ok = out.startswith("steps=")
        self.steps = []
        self.end = ""
        self.nsched = 0
        if not self.ok:
            return
        m = dict(t.split("=", 1) for t in case.split()[1:] if "=" in t)
        sched = [x for x in m.get("sched", "").split(",") if x]
        parts = dict(p.split("=", 1) for p in out.split(" ") if "=" in p)
        obs = [x for x in parts.get("steps", "").split(";") if x]
        seq = list(zip(sched, obs))
        self.nsched = len(seq)
        for ph in ("fin", "cfin"):
            if ph == "cfin":
                self.close_at = len(seq)
            seq += [tuple(x.split(":", 1)) for x in parts.get(ph, "").split(";") if x]
        self.end = parts.get("end", "")
        for tid, o in seq:
            f = o.split("/")
            if len(f) < 6:
                self.ok = False
                return
            lt, li = f[2].split(",")
            run, disc = f[4].split(",")
            self.steps.append((int(tid), f[0], f[1] == "1", int(lt), int(li), int(f[3]), int(run), int(disc), f[5].split(",") if f[5] else []))

    def hints(self):
        return "".join("1" if s[2] else "0" for s in self.steps)


def parse_case(case):
    m = dict(t.split("=", 1) for t in case.split()[1:] if "=" in t)
    n = int(m["n"])
    progs = [[o for o in p.split(".") if o] for p in m.get("progs", "").split(";")]
    sends = []          # global Send index -> (tid, spec dict)
    for tid, p in enumerate(progs):
        for o in p:
            if o[0] == "S":
                t, r, d, e, behs = o[1:].split(":")
                pairs = []
                for b in behs.split("+"):
                    v, er = b.lstrip("yw").split("_")
                    pairs.append((int(v), int(er)))
                sends.append(dict(tid=tid, T=int(t), R=int(r), discard=d == "1", onerr=e == "1", pairs=pairs))
    return n, progs, sends


def monitor(case, impl):
    """C07 / C08 restated on the implementation's trace alone (independent of the model)"""
    if impl.startswith("HANG") or " HANG" in impl:
        return ("hang", "a managed goroutine blocked for ever inside the library (e.g. a send on the per-attempt channel that blocks)")
    if impl.startswith("PANIC") or "panic:" in impl:
        return ("panic", "a call or a pool goroutine panicked: " + impl[:200])
    tr = Trace(case, impl)
    if not tr.ok:
        return ("crash", "no trace from the implementation: " + impl[:200])
    n, progs, sends = parse_case(case)
    has_close = any(o == "X" for p in progs for o in p)
    nclients = len(progs)
    pcs = [0] * nclients                   # index of the current op of each client
    got = {}                               # global Send index -> Get2 pair returned
    prev_tasks = None
    prev_lt = 0
    send_base = []
    k = 0
    for p in progs:
        send_base.append(k)
        k += sum(1 for o in p if o[0] == "S")
    for idx, (tid, ev, b, lt, li, now, run, disc, tasks) in enumerate(tr.steps):
        if idx == getattr(tr, "close_at", 1 << 60) and not has_close and prev_tasks is not None:
            # every thread has come to rest with the pool open: each callback that was enqueued has run
            for g in got:
                if prev_tasks[g] not in ("-", "D") and int(prev_tasks[g].split(":")[2]) < 1:
                    return ("handler-never-invoked", "Get2 of Send #%d returned and all threads came to rest with the pool open, "
                            "but its handler was never invoked" % g)
        where = "step %d (thread %d, %s)" % (idx, tid, ev)
        if run > n:
            return ("too-many-handlers", "%s: %d handler invocations in progress on a pool of size %d" % (where, run, n))
        if lt > n or li > n:
            return ("channel-overfull", "%s: channel lengths %d,%d on a pool of size %d" % (where, lt, li, n))
        for g, st in enumerate(tasks):
            if g >= len(sends) or st in ("-", "D"):
                continue
            v, e, started, onerrs = st.split(":")
            v, e, started = int(v), int(e), int(started)
            oe = [x for x in onerrs.split("+") if x]
            R = sends[g]["R"]
            if started > R:
                return ("too-many-attempts", "%s: the handler of Send #%d was invoked %d times, retry = %d" % (where, g, started, R))
            if len(oe) > 1 or (oe and not sends[g]["onerr"]):
                return ("onerror-twice", "%s: error callback of Send #%d called %d times" % (where, g, len(oe)))
            if prev_tasks is not None and g < len(prev_tasks) and prev_tasks[g] not in ("-", "D"):
                pv, pe, ps, po = prev_tasks[g].split(":")
                if int(ps) >= 1 and started == int(ps) + 1 and int(pe) == 0:
                    return ("attempt-overlap", "%s: invocation %d of Send #%d starts although the stored error is nil "
                            "(no failed attempt precedes it)" % (where, started, g))
                if g in got and (pv, pe) != (str(v), str(e)):
                    return ("result-changed-after-get2", "%s: result/err of Send #%d changed from %s:%s to %d:%d after Get2 had returned"
                            % (where, g, pv, pe, v, e))
                if g in got and po != onerrs:
                    return ("onerror-after-get2", "%s: the error callback of Send #%d ran after Get2 had returned" % (where, g))
        if tid < nclients and ev.startswith("r:"):
            p = progs[tid]
            op = p[pcs[tid]] if pcs[tid] < len(p) else "?"
            if op[0] == "S" and ev == "r:d":
                g = send_base[tid] + sum(1 for o in p[:pcs[tid]] if o[0] == "S")
                if not sends[g]["discard"]:
                    return ("discard-not-requested", "%s: Send #%d was rejected although discardOnBusy is false" % (where, g))
                if prev_lt != n:
                    return ("busy-reject-without-full-queue", "%s: Send #%d was rejected as busy with %d of %d tasks queued" % (where, g, prev_lt, n))
            if op[0] == "G" and ev not in ("r:bad",):
                kth = int(op[1:])
                g = send_base[tid] + kth
                st = tasks[g] if g < len(tasks) else "-"
                pair = ev[2:]
                if st == "D":
                    if pair != "0:-2":
                        return ("discard-pair", "%s: Get2 of a discarded task returned %s" % (where, pair))
                elif st != "-":
                    v, e, started, onerrs = st.split(":")
                    oe = [x for x in onerrs.split("+") if x]
                    if pair != v + ":" + e:
                        return ("get2-pair", "%s: Get2 returned %s, the task's fields hold %s:%s" % (where, pair, v, e))
                    allowed = set(["0:-1"] + ["%d:%d" % pr for pr in sends[g]["pairs"][:int(started)]])
                    if pair not in allowed:
                        return ("result-not-an-attempt-outcome", "%s: Get2 of Send #%d returned %s, which is neither the timeout pair nor the "
                                "pair of one of its %s handler invocations" % (where, g, pair, started))
                    want = [e] if (e != "0" and sends[g]["onerr"]) else []
                    if oe != want:
                        return ("onerror-iff-error", "%s: Get2 of Send #%d returned err %s, error callback calls so far: %s" % (where, g, e, oe))
                    got[g] = pair
            pcs[tid] += 1
        prev_tasks = tasks
        prev_lt = lt
    return None


def compare(case, model, impl):
    mt = model.split(" | ")[0]
    if mt == impl:
        return None
    if not mt.startswith("steps="):
        return "model produced no trace (%s)" % model[:200]
    if not impl.startswith("steps="):
        return "implementation produced no trace (%s)" % impl[:200]
    ta, tb = Trace(case, mt), Trace(case, impl)
    for k, (x, y) in enumerate(zip(ta.steps, tb.steps)):
        if x != y:
            ph = "step" if k < ta.nsched else "completion step"
            return "%s %d (thread %d) differs: model %s, implementation %s" % (ph, k, y[0], x[1:], y[1:])
    if len(ta.steps) != len(tb.steps):
        return "number of steps differs: model %d, implementation %d" % (len(ta.steps), len(tb.steps))
    return "end state differs: model %s, implementation %s" % (ta.end, tb.end)


def nontrivial(case, impl):
    return "y11/" in impl or ":-1:" in impl or "r:d" in impl or "blocked" in impl


def run_cases(chk, binary, cases):
    """-> [(case, model_out, impl_out)]; the model is given the select choices of the implementation"""
    res = []
    for i in range(0, len(cases), 1500):
        chunk = cases[i:i + 1500]
        impl = common.run_impl(binary, chunk, timeout=1800, env=FT_ENV)
        mlines = []
        for c, o in zip(chunk, impl):
            tr = Trace(c, o)
            mlines.append(c + " ch=" + (tr.hints() if tr.ok else ""))
        model = common.run_model(mlines)
        res += list(zip(chunk, model, impl))
    return res


def run(chk, corpus=None):
    standalone = corpus is None
    info = dict(status="run")
    chk.cov["dispatch_steps"] = info
    if standalone:
        chk.run_proof_gate(PROOFS) if os.path.exists(os.path.join(common.COQ, "props", chk.id + ".v")) else None
        corpus = []
    if not hooks_present():
        info["status"] = ("SKIPPED (not run, no violation): the tree under test has no ants verif hooks "
                          "(ants/verif_on.go absent; apply tools/hooks/ants-verif-hooks.patch)")
        if standalone:
            chk.finish()
        return
    binary = build(chk)
    if not binary:
        if standalone:
            chk.finish()
        return
    streams = [("dispatch-steps/corpus", corpus)] + gen(chk, chk.tier)
    names, cases = [], []
    for name, cs in streams:
        names += [name] * len(cs)
        cases += cs
    try:
        res = run_cases(chk, binary, cases)
    except common.ImplCrash as e:
        chk.infra_errors.append("dispatch-steps harness crashed or timed out: " + str(e)[-1200:])
        if standalone:
            chk.finish()
        return
    seen = set()
    ties = 0
    maxrun = 0
    for name, (c, m, i) in zip(names, res):
        chk.count_case(name, c, nontrivial(c, i))
        chk.cov["disagreements_checked"] += 1
        if i == "NOHOOKS":
            info["status"] = "SKIPPED (not run, no violation): harness built without the ants hooks"
            break
        mf = monitor(c, i)
        if mf is not None:
            chk.monitor_fail("steps-" + mf[0], c, i[:3000], mf[1])
        mm = re.search(r"maxrun=(\d+)", m)
        if mm:
            maxrun = max(maxrun, int(mm.group(1)))
        if " tie=1" in m:
            ties += 1          # two deadlines at the same virtual instant: the order of their timers is the runtime's
        else:
            note = compare(c, m, i)
            if note is not None:
                chk.diverge(name, c, m.split(" | ")[0][:3000], i[:3000], note)
            else:
                chk.cov["traces_validated_against_impl"] += 1
        if name not in seen:
            seen.add(name)
            chk.sample(dict(stream=name, case=c[:300], model=m[:300], impl=i[:300]), limit=16)
    info["cases"] = len(cases)
    info["deadline_ties_not_compared"] = ties
    info["max_running_handlers_model"] = maxrun
    if standalone:
        chk.finish()


def search_cases(chk):
    return [c for _, cs in gen(chk, "quick") for c in cs]
