# C02 -- loom.Queue is lock-free: an operation running alone always finishes.
# Model: coq/models/Queue.v ; theorems: coq/props/C02.v
import json

from . import common
from . import queue_common as qc
from .c01 import TRUSTED


def compare(case, model, impl):
    if model == impl:
        return None
    pm, pi = qc.parse_out(model), qc.parse_out(impl)
    if pm is None or pi is None:
        return "no trace (model=%s impl=%s)" % (model[:100], impl[:100])
    if pm["steps"] != pi["steps"]:
        return "prefix trace differs"
    if pm["solo"] != pi["solo"]:
        return "solo step count differs: model %s, implementation %s" % (pm["solo"], pi["solo"])
    return "completion/drain differs"


def nontrivial(case, model):
    pm = qc.parse_out(model)
    return pm is not None and pm["solo"] not in (None, "idle", "none") and int(pm["solo"]) >= 6


def gen(chk, tier):
    rng = chk.rng
    quick = tier == "quick"
    cases = []
    nst = 0
    # three and four concurrent pushers/poppers (a Push can meet a lagging tail more than once)
    fixed = [([], [["P1"], ["P2"], ["P3"]]), ([7], [["P1"], ["P2"], ["O"]]), ([], [["P1"], ["P2"], ["P3"], ["P4"]]),
             ([7], [["P1"], ["O"], ["O"]]), ([], [["P1", "P5"], ["P2"], ["P3"]])]
    progs_list = fixed + qc.programs_small() + qc.programs_medium(rng, 8 if quick else 60, [(2, 2), (3, 1), (3, 2), (2, 3)] + ([] if quick else [(4, 2), (3, 3)]))
    for pre, progs in progs_list:
        n, scheds = qc.enum_schedules(pre, progs, "edges", (4000 if (pre, progs) in fixed else 800) if quick else 40000)
        nst += n
        for s in scheds:
            for t in range(len(progs)):
                cases.append(qc.case_line("c02", pre, progs, s, " solo=%d" % t))
    chk.cov["states"] = nst
    # nil VALUES (token P0 = Push(nil), prefill 0): the queue tolerates them; a Pop that takes one returns nil
    nl = []
    for pre, progs in [([0], [["O"], ["P1"]]), ([], [["P0", "O"], ["O"]]), ([0, 7], [["O", "O"], ["P0"]]), ([], [["P0"], ["P0"], ["O"]]),
                       ([5, 0], [["O"], ["O"], ["P2"]])]:
        n, scheds = qc.enum_schedules(pre, progs, "edges", 600 if quick else 20000)
        for s in scheds:
            for t in range(len(progs)):
                nl.append(qc.case_line("c02", pre, progs, s, " solo=%d" % t))
    rd = []
    for pre, progs in qc.programs_medium(rng, 200 if quick else 5000, [(3, 4), (4, 3), (4, 5)]):
        total = sum(len(p) for p in progs)
        s = qc.random_schedule(rng, len(progs), rng.range(3, 7 * total))
        rd.append(qc.case_line("c02", pre, progs, s, " solo=%d" % rng.below(len(progs))))
    return [("solo-from-every-reachable-state", cases), ("solo-after-random-prefix", rd), ("nil-values", nl)]


def run(chk):
    chk.trusted = common.BASE_TRUSTED + TRUSTED
    chk.assumptions = ["sync/atomic operations are sequentially consistent (Go memory model)",
                       "a goroutine suspended by the scheduler holds no resource other than its position in Push/Pop (no locks in the code)"]
    chk.cov["rule"] = ("case = (prefill, programs, schedule prefix, solo thread): after the prefix every other thread stays frozen where it is and the "
                       "solo thread runs alone; compared: prefix trace, number of steps until its operation returns (model: q_solo), completion, drain. "
                       "Prefixes: one per (reachable model state, enabled thread) edge of 2-3 thread programs (so every reachable state is a start state) "
                       "x every thread as the solo thread, plus random prefixes of 3-4 thread programs. non-trivial = solo run needs >= 6 steps "
                       "(stale locals or lagging tail); distinct = distinct case line")
    chk.run_proof_gate(qc.PROOFS)
    binary = qc.build_coop(chk)
    if binary:
        from . import pure
        streams = [("corpus", pure.corpus_cases("C02"))] + gen(chk, chk.tier)
        pure.run_streams(chk, binary, streams, compare, qc.monitor_c02, nontrivial)
        # runtime dependence: the same solo runs with a single P (GOMAXPROCS=1: nothing may depend on another
        # goroutine getting the processor); a sample of every stream, implementation side against the same model answers
        import os
        one = [c for _, cs in streams for c in cs[:: max(1, len(cs) // 400)]]
        try:
            impl1 = common.run_impl(binary, one, env=dict(os.environ, GOMAXPROCS="1"))
            model1 = common.run_model(one)
            for c, m, i in zip(one, model1, impl1):
                chk.count_case("solo-single-P", c, True)
                mf = qc.monitor_c02(c, i)
                if mf:
                    chk.monitor_fail(mf[0], c + "  [GOMAXPROCS=1]", i, mf[1] + " (with GOMAXPROCS=1)")
                else:
                    note = compare(c, m, i)
                    if note:
                        chk.diverge("solo-single-P", c + "  [GOMAXPROCS=1]", m, i, note)
        except common.ImplCrash as e:
            chk.monitor_fail("solo-hang", "sample of %d cases with GOMAXPROCS=1" % len(one), str(e)[-300:],
                             "the solo runs did not finish with GOMAXPROCS=1: " + str(e)[-200:])
        # histogram of solo lengths (from the implementation side)
    chk.finish(search=search)


def search(chk):
    binary = qc.build_coop(chk)
    if not binary:
        return
    chk.rng = chk.rng.fork()
    cases = [c for _, cs in gen(chk, "quick") for c in cs]
    impl = common.run_impl(binary, cases)
    for c, i in zip(cases, impl):
        mf = qc.monitor_c02(c, i)
        if mf:
            chk.monitor_fail(mf[0], c, i, mf[1])


def replay(chk, path):
    rep = json.load(open(path))
    binary = qc.build_coop(chk)
    cases = [x["case"] for x in rep.get("failing_inputs", []) + rep.get("divergences", []) if isinstance(x.get("case"), str) and x["case"].startswith("c02")]
    impl = common.run_impl(binary, cases)
    model = common.run_model(cases)
    bad = 0
    for c, m, i in zip(cases, model, impl):
        mf = qc.monitor_c02(c, i)
        cmpr = compare(c, m, i)
        print("case=%s\n  model=%s\n  impl=%s\n  monitor=%s compare=%s" % (c, m, i, mf, cmpr))
        if mf or cmpr:
            bad += 1
    print("replayed %d case(s), %d still failing" % (len(cases), bad))
    raise SystemExit(1 if bad else 0)
