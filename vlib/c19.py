# C19 -- aesx. Models: coq/models/Aes.v (FIPS-197), coq/models/AesModes.v (package aesx),
# coq/models/AesSpec.v (textbook CBC/PKCS#7 and CFB-128); theorems: coq/props/C19.v
import os

from . import common, pure

PROOFS = ["proofs/AesProofs.v", "proofs/AesModesProofs.v", "models/Aes.v", "models/AesModes.v", "models/AesSpec.v"]

COMMON_IV = bytes(range(16))


def hx(b):
    return b.hex() if len(b) else "-"


def unhx(s):
    return b"" if s == "-" else bytes.fromhex(s)


def fields(line):
    d = {}
    for tok in line.split():
        if "=" in tok:
            k, v = tok.split("=", 1)
            d[k] = v
    return d


def effective(opts):
    """(is_cfb, iv) the options are documented to select: last mode option wins, last
    non-empty IV wins, defaults CBC / 00 01 .. 0f."""
    cfb, iv = False, COMMON_IV
    if opts != "-":
        for o in opts.split(","):
            if o == "cbc":
                cfb = False
            elif o == "cfb":
                cfb = True
            elif o.startswith("iv="):
                v = bytes.fromhex(o[3:])
                if len(v):
                    iv = v
    return cfb, iv


def case_info(case):
    t = case.split()
    tag, opts, key = t[0], t[1], unhx(t[2])
    cfb, iv = effective(opts)
    valid = len(key) in (16, 24, 32) and len(iv) == 16
    if tag in ("c19E", "c19D"):
        arr = unhx(t[3])
        off, n, cap = int(t[4]), int(t[5]), int(t[6])
        return dict(tag=tag, cfb=cfb, iv=iv, key=key, valid=valid, arr=arr, off=off, len=n, cap=cap, data=arr[off:off + n])
    return dict(tag=tag, cfb=cfb, iv=iv, key=key, valid=valid, pts=[unhx(x) for x in t[3:]])


def strip_ref(line):
    return " ".join(tok for tok in line.split() if not tok.startswith("ref="))


def compare(case, model, impl):
    if model.startswith("MODEL-EXN") or model in ("BADCASE", "BADSLICE"):
        return "model produced no result (%s)" % model
    a, b = strip_ref(model), strip_ref(impl)
    if a == b:
        return None
    fm, fi = fields(a), fields(b)
    for k in ("new", "enc", "arr", "dec", "ctarr", "seq", "conc"):
        if fm.get(k) != fi.get(k):
            return "field %s differs (model %s, implementation %s)" % (k, str(fm.get(k))[:80], str(fi.get(k))[:80])
    return "outputs differ"


def monitor(case, impl):
    """The property text restated on the implementation's observation (no model involved)."""
    ci = case_info(case)
    f = fields(impl)
    # never modify the caller's slice nor its backing array: any input, valid or not
    if f.get("arr", "same") != "same":
        before, after = ci.get("arr", b""), unhx(f["arr"])
        diff = [i for i in range(min(len(before), len(after))) if before[i] != after[i]]
        return ("aliasing", "caller's backing array modified at byte(s) %s (slice is arr[%d:%d:%d], array of %d bytes): %s -> %s" % (
            diff[:20], ci["off"], ci["off"] + ci["len"], ci["off"] + ci["cap"], len(before), hx(before), hx(after)))
    if f.get("ctarr", "same") != "same":
        return ("aliasing", "Encrypt/Decrypt modified the ciphertext's backing array, the key or an IV slice")
    if not ci["valid"]:
        return None
    if impl.startswith("PANIC") or "panic" in (f.get("new"), f.get("enc"), f.get("dec")):
        if ci["tag"] == "c19D" and not ci["cfb"] and ci["len"] % 16 != 0:
            return None  # CBC Decrypt of a non-block-multiple: outside the property
        return ("panic", "panic on a valid key/IV/input: " + impl[:200])
    if ci["tag"] == "c19E":
        p = ci["data"]
        ct = unhx(f["enc"])
        want_len = len(p) if ci["cfb"] else 16 * (len(p) // 16 + 1)
        if len(ct) != want_len:
            return ("standard", "ciphertext of a %d-byte plaintext has %d bytes, want %d" % (len(p), len(ct), want_len))
        if f.get("ref") not in (None, "none") and f["enc"] != f["ref"]:
            return ("standard", "Encrypt differs from the standard %s construction (crypto/cipher): got %s want %s" % (
                "AES-CFB" if ci["cfb"] else "AES-CBC/PKCS#7", f["enc"][:96], f["ref"][:96]))
        if unhx(f["dec"]) != p:
            return ("roundtrip", "Decrypt(Encrypt(p)) = %s, p = %s" % (f["dec"][:96], hx(p)[:96]))
    elif ci["tag"] == "c19C":
        if f.get("seq") != f.get("ref"):
            return ("standard", "sequential answers differ from the standard construction")
        if f.get("dec") != "ok":
            return ("roundtrip", "Decrypt(Encrypt(p)) != p at plaintext %s" % f.get("dec"))
        if f.get("conc") != "ok":
            return ("concurrent", "16 goroutines sharing one cipher got answers different from the sequential ones: %s" % f.get("conc"))
    return None


def nontrivial(case, model):
    ci = case_info(case)
    if not ci["valid"]:
        return False
    if ci["tag"] == "c19C":
        return len(ci["pts"]) >= 2
    return ci["len"] > 0


# ---------------------------------------------------------------- generators
def rbytes(rng, n):
    return bytes(rng.below(256) for _ in range(n))


def rkey(rng):
    return rbytes(rng, rng.choice([16, 24, 32]))


def ropts(rng, simple=False):
    """random option list as text; mostly one mode + one iv"""
    if simple or rng.chance(2, 3):
        mode = rng.choice(["", "cbc", "cfb", "cfb"])
        iv = rng.choice(["", "iv=" + rbytes(rng, 16).hex()])
        l = [x for x in (mode, iv) if x]
        if rng.chance(1, 2):
            l.reverse()
    else:
        l = []
        for _ in range(rng.range(0, 5)):
            l.append(rng.choice(["cbc", "cfb", "iv=", "iv=" + rbytes(rng, 16).hex()]))
    return ",".join(l) if l else "-"


def layout(rng, data, kind):
    """place data in a backing array: returns (arr, off, len, cap)"""
    n = len(data)
    if kind == "exact":
        return data, 0, n, n
    off = rng.choice([0, 0, 1, 3, 16, 17])
    spare = rng.choice([1, 2, 15 - n % 16, 16 - n % 16, 17 - n % 16, 16, 32, rng.range(0, 40)])
    spare = max(0, spare)
    beyond = rng.choice([0, 0, 1, 16, rng.range(0, 20)])
    fill = rng.choice([0x00, 0xEE, None])
    def fb(k):
        return rbytes(rng, k) if fill is None else bytes([fill]) * k
    arr = fb(off) + data + fb(spare) + fb(beyond)
    return arr, off, n, n + spare


def enc_case(opts, key, lay):
    arr, off, n, cap = lay
    return "c19E %s %s %s %d %d %d" % (opts, hx(key), hx(arr), off, n, cap)


def dec_case(opts, key, lay):
    arr, off, n, cap = lay
    return "c19D %s %s %s %d %d %d" % (opts, hx(key), hx(arr), off, n, cap)


def gen(rng, tier):
    T = tier != "quick"
    streams = []
    maxlen = 200 if T else 80
    # every length 0..maxlen (every residue mod 16), each key size, both modes + default
    ls = []
    for n in range(0, maxlen + 1):
        for rep in range(3 if T else 1):
            for mode in ("-", "cbc", "cfb"):
                key = rbytes(rng, [16, 24, 32][(n + rep + len(mode)) % 3])
                o = mode
                if rng.chance(2, 3):
                    o = ("iv=" + rbytes(rng, 16).hex()) if mode == "-" else mode + ",iv=" + rbytes(rng, 16).hex()
                ls.append(enc_case(o, key, layout(rng, rbytes(rng, n), "exact")))
    streams.append(("all-lengths", ls))
    # prefixes of larger buffers with spare capacity
    sp = []
    for _ in range(8000 if T else 1200):
        n = rng.choice([0, 1, 5, 15, 16, 17, 31, 32, rng.range(0, maxlen)])
        sp.append(enc_case(ropts(rng, simple=True), rkey(rng), layout(rng, rbytes(rng, n), "spare")))
    streams.append(("spare-capacity", sp))
    # plaintexts ending in bytes that look like padding
    pl = []
    for _ in range(5000 if T else 600):
        n = rng.range(0, 48)
        k = rng.choice([0, 1, 2, 3, 8, 15, 16, 17, 32, 255])
        tail = bytes([k]) * rng.choice([1, k % 40, 16, rng.range(1, 20)])
        data = rbytes(rng, n) + tail
        pl.append(enc_case(ropts(rng, simple=True), rkey(rng), layout(rng, data, rng.choice(["exact", "spare"]))))
    streams.append(("padding-like-tails", pl))
    # option sequences (mode / IV selection)
    ol = []
    for _ in range(4000 if T else 500):
        data = rbytes(rng, rng.range(0, 40))
        ol.append(enc_case(ropts(rng), rkey(rng), layout(rng, data, "exact")))
    streams.append(("option-sequences", ol))
    # malformed: key sizes, IV sizes
    ml = []
    for ks in (0, 1, 8, 15, 17, 23, 25, 31, 33, 48, 64):
        for mode in ("-", "cfb"):
            ml.append(enc_case(mode, rbytes(rng, ks), layout(rng, rbytes(rng, rng.range(0, 33)), "spare")))
            ml.append(dec_case(mode, rbytes(rng, ks), layout(rng, rbytes(rng, 32), "exact")))
    for ivs in (1, 8, 15, 17, 24, 32):
        for mode in ("cbc", "cfb"):
            o = mode + ",iv=" + rbytes(rng, ivs).hex()
            ml.append(enc_case(o, rkey(rng), layout(rng, rbytes(rng, rng.range(0, 33)), "spare")))
            ml.append(dec_case(o, rkey(rng), layout(rng, rbytes(rng, 32), "spare")))
    streams.append(("malformed-key-iv", ml))
    # Decrypt of arbitrary bytes: lengths not a multiple of 16, bad padding bytes
    dl = []
    for _ in range(8000 if T else 1000):
        o = ropts(rng, simple=True)
        n = rng.choice([0, 1, 15, 16, 17, 32, 33, rng.range(0, 70), 16 * rng.range(0, 5)])
        data = rbytes(rng, n)
        dl.append(dec_case(o, rkey(rng), layout(rng, data, rng.choice(["exact", "spare"]))))
    streams.append(("decrypt-arbitrary", dl))
    # Decrypt of well-formed CBC blocks whose plaintext has a chosen last byte is produced
    # on the Go side only through Encrypt; bad padding therefore comes from random blocks
    # above (last byte uniformly random: 0, > 16, > length all occur).
    # concurrency: 16 goroutines share a cipher
    cl = []
    for _ in range(300 if T else 40):
        pts = [rbytes(rng, rng.choice([0, 1, 15, 16, 17, 40, rng.range(0, 64)])) for _ in range(rng.range(2, 6))]
        cl.append("c19C %s %s %s" % (ropts(rng, simple=True), hx(rkey(rng)), " ".join(hx(p) for p in pts)))
    streams.append(("shared-by-16-goroutines", cl))
    return streams


def crafted_decrypt(rng, tier):
    """CBC Decrypt inputs whose last plaintext byte is chosen: Encrypt (by the extracted
    model) a block-aligned plaintext ending in byte b and drop the padding block. Covers
    every branch of pkcs5Trimming deterministically: b = 0, 1 <= b <= size (trimmed without
    validation), b > size (returned untrimmed)."""
    encs = []
    for _ in range(1500 if tier != "quick" else 150):
        nb = rng.choice([1, 1, 2, 3])
        b = rng.choice([0, 1, 2, 15, 16, 17, 16 * nb - 1, 16 * nb, 16 * nb + 1, 32, 255, rng.below(256)]) % 256
        data = rbytes(rng, 16 * nb - 1) + bytes([b])
        o = rng.choice(["-", "cbc", "iv=" + rbytes(rng, 16).hex()])
        encs.append((o, rkey(rng), data))
    mo = common.run_model([enc_case(o, k, (d, 0, len(d), len(d))) for o, k, d in encs])
    out = []
    for (o, k, d), m in zip(encs, mo):
        f = fields(m)
        if "enc" not in f or f["enc"] == "panic":
            continue
        ct = unhx(f["enc"])[:-16]
        out.append(dec_case(o, k, layout(rng, ct, rng.choice(["exact", "spare"]))))
    return out


# ---------------------------------------------------------------- vm_compute cross-check
def coq_bytes(b):
    return "[" + ";".join(str(x) for x in b) + "]"


def coq_opts(opts):
    if opts == "-":
        return "[]"
    out = []
    for o in opts.split(","):
        if o == "cbc":
            out.append("AesmWithCBC")
        elif o == "cfb":
            out.append("AesmWithCFB")
        else:
            out.append("AesmWithIV %s" % coq_bytes(bytes.fromhex(o[3:])))
    return "[" + ";".join(out) + "]"


def coq_crosscheck(chk, cases, model_out):
    items = []
    for c, m in zip(cases, model_out):
        t = c.split()
        if t[0] != "c19E":
            continue
        f = fields(m)
        if f.get("new") == "panic":
            exp = "None"
        elif f.get("enc") == "panic":
            exp = "Some None"
        else:
            arr = unhx(t[3]) if f["arr"] == "same" else unhx(f["arr"])
            exp = "Some (Some (%s, %s, %s))" % (coq_bytes(unhx(f["enc"])), coq_bytes(arr),
                                                "None" if f["dec"] == "panic" else "Some " + coq_bytes(unhx(f["dec"])))
        items.append("(%s, %s, %s, %s%%nat, %s%%nat, %s%%nat, %s)" % (coq_bytes(unhx(t[2])), coq_opts(t[1]), coq_bytes(unhx(t[3])), t[4], t[5], t[6], exp))
    if not items:
        return 0
    body = """From Got Require Import Base Aes AesModes.
Local Open Scope N_scope.
Definition bl_eqb (a b : list N) : bool := if list_eq_dec N.eq_dec a b then true else false.
Definition obl_eqb (a b : option (list N)) : bool :=
  match a, b with Some x, Some y => bl_eqb x y | None, None => true | _, _ => false end.
Definition ok (c : list N * list aesm_option * list N * nat * nat * nat * option (option (list N * list N * option (list N)))) : bool :=
  match c with
  | (key, opts, arr, off, len, cap, expect) =>
    let s := {| asl_arr := arr; asl_off := off; asl_len := len; asl_cap := cap |} in
    match aesm_new_cipher key opts, expect with
    | Ok ci, Some e =>
      match aesm_api_encrypt AesmFixed ci s, e with
      | (Ok ct, arr'), Some (ect, earr, edec) =>
        bl_eqb ct ect && bl_eqb arr' earr &&
        obl_eqb (match fst (aesm_api_decrypt ci (aesm_whole ct)) with Ok p => Some p | _ => None end) edec
      | (Panic, arr'), None => bl_eqb arr' arr
      | _, _ => false
      end
    | Panic, None => true
    | _, _ => false
    end
  end.
Definition cases := [%s].
Definition bad := Eval vm_compute in length (filter (fun c => negb (ok c)) cases).
Print bad.
""" % ";\n".join(items)
    out = common.run_coq_eval(body)
    if "bad = 0%nat" not in out.replace("\n", " "):
        chk.diverge("vm_compute-vs-extraction", "sample of %d cases" % len(items), out[-300:], "", "extracted OCaml model disagrees with vm_compute")
    return len(items)


def canary(chk, binary):
    """The model of the code before ca0d742 (AesmOrig) must disagree with the implementation
    on the corpus witnesses; otherwise the observation cannot tell right from wrong."""
    wit = [c for c in pure.corpus_cases("C19") if c.startswith("c19E ")]
    wit = [c for c in wit if case_info(c)["valid"] and not case_info(c)["cfb"]
           and case_info(c)["len"] + 16 - case_info(c)["len"] % 16 <= case_info(c)["cap"]]
    if not wit:
        chk.infra_errors.append("canary: no aliasing witness in corpus/C19")
        return
    impl = common.run_impl(binary, wit)
    orig = common.run_model([c.replace("c19E ", "c19Eorig ", 1) for c in wit])
    n = 0
    for c, o, i in zip(wit, orig, impl):
        if compare(c, o, i) is None:
            chk.diverge("canary", c, o, i, "the pre-fix model (padding appended in place) is indistinguishable from the implementation")
        else:
            n += 1
    chk.cov["canary_orig_model_disagrees"] = n


def race_stress(chk, cases):
    """thorough tier: the 16-goroutine handler built with -race"""
    binary = pure.build_pure(chk, race=True)
    if not binary:
        return
    env = dict(os.environ, GORACE="halt_on_error=1 exitcode=66")
    try:
        impl = common.run_impl(binary, cases, env=env)
    except common.ImplCrash as e:
        chk.monitor_fail("race", cases[0], str(e)[-600:], "race detector report (or crash) while 16 goroutines share one cipher")
        return
    for c, i in zip(cases, impl):
        mf = monitor(c, i)
        if mf:
            chk.monitor_fail(mf[0], c, i, mf[1] + " (-race build)")
    chk.cov["race_build_cases"] = len(cases)


def run(chk):
    chk.trusted = common.BASE_TRUSTED + [
        "modelled: crypto/aes by the Gallina FIPS-197 cipher (Aes.v; equality with crypto/aes is checked on every case, not proved)",
        "modelled: crypto/cipher CBC CryptBlocks / CFB XORKeyStream (single call on a fresh stream) and their panics",
        "modelled: Go slices as (backing array, offset, len, cap); append growth policy not modelled (new array is private)",
        "modelled: statelessness of the cipher object as purity of the Gallina function; the 16-goroutine handler (and its -race build in the thorough tier) checks it on the implementation",
    ]
    chk.assumptions = ["all values are bytes (< 256)", "key of 16, 24 or 32 bytes, effective IV of 16 bytes for the positive statements; "
                       "other sizes: the model predicts the panic"]
    chk.cov["rule"] = ("cases = (options, key, backing array, off, len, cap) for Encrypt-then-Decrypt, arbitrary bytes for Decrypt, "
                       "plaintext lists for the 16-goroutine handler; non-trivial = valid key/IV and non-empty input "
                       "(>= 2 plaintexts for the concurrent handler); distinct = distinct case line")
    chk.run_proof_gate(PROOFS)
    binary = pure.build_pure(chk)
    if binary:
        streams = [("corpus", pure.corpus_cases("C19"))] + gen(chk.rng, chk.tier)
        try:
            streams.insert(-1, ("decrypt-crafted-last-byte", crafted_decrypt(chk.rng, chk.tier)))
        except Exception as ex:
            chk.infra_errors.append("crafted Decrypt cases could not be generated: %r" % (ex,))
        pure.run_streams(chk, binary, streams, compare, monitor, nontrivial)
        try:
            canary(chk, binary)
        except Exception as ex:
            chk.infra_errors.append("canary failed to run: %r" % (ex,))
        # vm_compute cross-check on a sample
        sample = streams[0][1][:10] + streams[1][1][:60:2] + streams[2][1][:40] + streams[4][1][:20] + streams[5][1][:20]
        try:
            mo = common.run_model(sample)
            chk.cov["vm_compute_crosschecked"] = coq_crosscheck(chk, sample, mo)
        except Exception as ex:
            chk.infra_errors.append("vm_compute cross-check failed: %r" % (ex,))
        if chk.tier != "quick":
            race_stress(chk, [c for c in streams[-1][1]])
    chk.finish(search=search)


def search(chk):
    """Correspondence or proof broken: look for an input where the implementation itself
    violates the property (monitors only, larger generator)."""
    binary = pure.build_pure(chk)
    if not binary:
        return
    streams = gen(chk.rng.fork(), "thorough")
    cases = pure.corpus_cases("C19") + [c for _, cs in streams for c in cs]
    impl = common.run_impl(binary, cases)
    for c, i in zip(cases, impl):
        mf = monitor(c, i)
        if mf:
            chk.monitor_fail(mf[0], c, i, mf[1])


def replay(chk, path):
    import json
    rep = json.load(open(path))
    binary = pure.build_pure(chk)
    cases = [x["case"] for x in rep.get("failing_inputs", []) + rep.get("divergences", []) if isinstance(x.get("case"), str) and x["case"].startswith("c19")]
    impl = common.run_impl(binary, cases)
    model = common.run_model(cases)
    bad = 0
    for c, m, i in zip(cases, model, impl):
        mf = monitor(c, i)
        print("case=%s\n  model=%s\n  impl=%s\n  monitor=%s compare=%s" % (c, m, i, mf, compare(c, m, i)))
        if mf or compare(c, m, i):
            bad += 1
    print("replayed %d case(s), %d still failing" % (len(cases), bad))
    raise SystemExit(1 if bad else 0)
