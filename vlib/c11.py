# C11 -- iox codec round trip + wire format. Model: coq/models/Octets.v ; theorems: coq/props/C11.v
#
# case:   c11 <api><type>:<value> ...      api s = OctetsStream method, w = OctetsWriter/OctetsReader method
#                                          type b bool, y byte, h int16, i int32, l int64, v 7-bit int32,
#                                               B byte slice (hex), S string (hex, any bytes)
# result: W=<bytes written, hex> L=<Len() after each write> R=<value@Position()/Len()+alloc ; ...>
#         (implementation adds WERR=<write error> REF=ok|<hex produced by encoding/binary>)
#
# interleaved case (one stream, reads between the writes, optional Tidy):
# case:   c11i <schedule> <api><type>:<value> ...   schedule over W (write the next value), R (read the oldest
#                                          value not yet read, with the matching call), T (OctetsStream.Tidy())
# result: S=<step;...> P=<Position()>/<Len()> U=<unread bytes, hex>     (implementation adds WERR= REF=)
#         step: w<pos>/<len> | R<pos before>~<value>@<pos>/<len>+alloc | t<pos>/<len>
from . import common, pure, octets
from .octets import tok, parse_tok, parse_fields, parse_rds, ref_encode

ID = "C11"


def is_inter(case):
    return case.startswith("c11i ") or case == "c11i"


def case_vals(case):
    return [parse_tok(t) for t in case.split()[(2 if is_inter(case) else 1):]]


def parse_steps(field):
    """'w0/3;R0~h:-2@2/3+0;t0/1' -> [('w',pos,len) | ('R',p0,val,pos,len,alloc) | ('t',pos,len)] ; None if malformed"""
    out = []
    if not field:
        return out
    for st in field.split(";"):
        try:
            if st[0] in "wt":
                a, b = st[1:].split("/")
                out.append((st[0], int(a), int(b)))
            elif st[0] == "R":
                p0, rd = st[1:].split("~", 1)
                val, pos, ln, alloc = octets.parse_rd(rd)
                out.append(("R", int(p0), val, pos, ln, alloc))
            else:
                return None
        except (ValueError, IndexError):
            return None
    return out


def parse_inter(line):
    if not line.startswith("S="):
        return None
    d = {}
    for p in line.split(" "):
        if "=" in p:
            k, v = p.split("=", 1)
            d[k] = v
    if "P" not in d or "U" not in d:
        return None
    d["steps"] = parse_steps(d["S"])
    return d if d["steps"] is not None else None


def compare_inter(case, model, impl):
    pm, pi = parse_inter(model), parse_inter(impl)
    if pm is None:
        return "model produced no result (%s)" % model[:100]
    if pi is None:
        return "implementation produced no result"
    sm = [x[:-1] if x[0] == "R" else x for x in pm["steps"]]
    si = [x[:-1] if x[0] == "R" else x for x in pi["steps"]]
    if len(sm) != len(si):
        return "step count differs"
    for k, (a, b) in enumerate(zip(sm, si)):
        if a != b:
            return "step #%d (%s): model %s vs implementation %s" % (k, case.split()[1][k], str(a)[:80], str(b)[:80])
    if pm["P"] != pi["P"]:
        return "final Position()/Len() differ"
    if pm["U"] != pi["U"]:
        return "final unread bytes differ"
    return None


def monitor_inter(case, impl):
    """The property text on the implementation's observation of an interleaved run, without the model: the k-th
    read returns the k-th value written and moves Position() by exactly the size of that value's documented
    encoding; a write grows the unread size Len()-Position() by the encoding's size, a read shrinks it by the same,
    Tidy keeps it; so after every step the unread bytes are the encodings of the values written and not yet read
    (their count here, their content inside the harness against encoding/binary, and at the end here against
    python struct/LEB128). Absolute positions are not judged here (they are compared with the model)."""
    pi = parse_inter(impl)
    if pi is None:
        return ("panic", "no result / panic: " + impl[:200])
    t = case.split()
    sched = t[1] if len(t) > 1 else ""
    vals = case_vals(case)
    steps = pi["steps"]
    if len(steps) != len(sched):
        return ("read-count", "step count")
    if pi.get("WERR") != "nil":
        return ("write-error", "a write returned an error: " + str(pi.get("WERR")))
    nw = nr = 0
    unread = 0          # Len() - Position(): absolute positions are not part of the property (a Tidy re-bases them)
    pend = []
    for k, (c, st) in enumerate(zip(sched, steps)):
        if c == "W":
            _, typ, v = vals[nw]
            nw += 1
            enc = ref_encode(typ, v)
            pend.append(enc)
            if st[0] != "w":
                return ("step-kind", "step %d" % k)
            if st[2] - st[1] != unread + len(enc):
                return ("write-size", "step %d: write of %s changed the unread size Len()-Position() from %d to %d, want +%d" % (
                    k, tok("", typ, v)[:40], unread, st[2] - st[1], len(enc)))
            unread = st[2] - st[1]
        elif c == "R":
            _, typ, v = vals[nr]
            nr += 1
            enc = pend.pop(0)
            exp = tok("", typ, v)
            if st[0] != "R":
                return ("step-kind", "step %d" % k)
            _, p0, val, p1, l1, _ = st
            if val != exp:
                return ("round-trip", "step %d (read #%d): wrote %s read back %s" % (k, nr - 1, exp[:60], val[:60]))
            if p1 - p0 != len(enc):
                return ("consumed", "step %d (read #%d, %s): Position() %d -> %d, want +%d (exactly the bytes written)" % (k, nr - 1, exp[:40], p0, p1, len(enc)))
            if l1 - p1 != unread - len(enc):
                return ("unread-size", "step %d: read of %s left %d unread bytes, want %d" % (k, exp[:40], l1 - p1, unread - len(enc)))
            unread = l1 - p1
        else:
            if st[0] != "t":
                return ("step-kind", "step %d" % k)
            if st[2] - st[1] != unread:
                return ("tidy", "step %d: Tidy changed the unread size from %d to %d" % (k, unread, st[2] - st[1]))
        if unread != sum(len(e) for e in pend):
            return ("unread-size", "step %d: %d unread bytes, want %d (the values written and not yet read)" % (k, unread, sum(len(e) for e in pend)))
    pos, ln = (int(x) for x in pi["P"].split("/"))
    if ln - pos != unread:
        return ("final-position", "final Position()/Len() %s, want %d unread" % (pi["P"], unread))
    want = b"".join(pend)
    got = b"" if pi["U"] == "-" else bytes.fromhex(pi["U"])
    if got != want:
        return ("unread-bytes", "unread bytes at the end differ from the encodings of the values not yet read")
    if pi.get("REF") != "ok":
        return ("unread-bytes-ref", "unread bytes differ from encoding/binary after " + str(pi.get("REF")))
    if nw == len(vals) and nr == nw and pos != ln:
        return ("not-at-end", "everything read back but Position() %d != Len() %d" % (pos, ln))
    return None


def strip_alloc(field):
    return ";".join(x.rsplit("+", 1)[0] for x in field.split(";")) if field else ""


def compare(case, model, impl):
    if case.startswith("c11sweep"):
        return None
    if is_inter(case):
        return compare_inter(case, model, impl)
    pm, pi = parse_fields(model), parse_fields(impl)
    if pm is None:
        return "model produced no result (%s)" % model[:100]
    if pi is None:
        return "implementation produced no result"
    if pm["W"] != pi["W"]:
        return "bytes written differ"
    if pm["L"] != pi["L"]:
        return "Len() after the writes differs"
    if strip_alloc(pm["R"]) != strip_alloc(pi["R"]):
        return "values read / Position() / Len() differ"
    return None


def monitor(case, impl):
    """The property text on the implementation's observation, without the model: written bytes =
    independent encoders (python struct/LEB128 here, encoding/binary inside the harness); the
    matching reads return the values written and each consumes exactly what its write produced."""
    if case.startswith("c11sweep"):
        if not impl.startswith("SWEEP ok"):
            return ("sweep", "int32 sweep against encoding/binary failed: " + impl[:300])
        return None
    if is_inter(case):
        return monitor_inter(case, impl)
    pi = parse_fields(impl)
    if pi is None:
        return ("panic", "no result / panic: " + impl[:200])
    vals = case_vals(case)
    want = b""
    lens = []
    for _, typ, v in vals:
        want += ref_encode(typ, v)
        lens.append(len(want))
    got = b"" if pi["W"] == "-" else bytes.fromhex(pi["W"])
    if pi.get("WERR") != "nil":
        return ("write-error", "a write returned an error or moved the read position: " + str(pi.get("WERR")))
    if got != want:
        k = next((i for i, (a, b) in enumerate(zip(got, want)) if a != b), min(len(got), len(want)))
        return ("wire-format", "bytes written differ from the documented wire format at offset %d: got %s want %s" % (
            k, got[max(0, k - 4):k + 8].hex(), want[max(0, k - 4):k + 8].hex()))
    if pi.get("REF") != "ok":
        return ("wire-format-ref", "bytes written differ from encoding/binary (LittleEndian/AppendUvarint): " + str(pi.get("REF"))[:80])
    got_lens = [int(x) for x in pi["L"].split(",")] if pi["L"] else []
    if got_lens != lens:
        return ("write-size", "Len() after the writes %s, want %s" % (pi["L"], lens))
    rds = parse_rds(pi["R"])
    if len(rds) != len(vals):
        return ("read-count", "result count")
    for k, ((api, typ, v), (val, pos, ln, _)) in enumerate(zip(vals, rds)):
        exp = tok("", typ, v)
        if val != exp:
            return ("round-trip", "value %d: wrote %s read back %s" % (k, exp[:60], val[:60]))
        if pos != lens[k]:
            return ("consumed", "value %d (%s): Position() after the read is %d, want %d (exactly the bytes written)" % (k, exp[:40], pos, lens[k]))
        if ln != len(want):
            return ("len-changed", "Len() changed during reads")
    return None


def nontrivial(case, model):
    # reaches the rule: at least one multi-byte encoding or >= 2 values
    t = case.split()
    if is_inter(case):
        # reaches the rule: some read happens while a later write is still to come
        return len(t) >= 3 and "R" in t[1] and "W" in t[1][t[1].index("R"):]
    return len(t) >= 3 or (len(t) == 2 and t[1][1] not in "by")


# ---------------------------------------------------------------- generators
def edge_ints(bits):
    """boundary values of a signed type of that width"""
    out = set()
    lo, hi = -(1 << (bits - 1)), (1 << (bits - 1)) - 1
    for k in range(0, bits):
        for d in (-2, -1, 0, 1, 2):
            for s in (1, -1):
                v = s * (1 << k) + d
                if lo <= v <= hi:
                    out.add(v)
    for k in range(7, bits + 7, 7):       # 7-bit group boundaries (as unsigned patterns too)
        for d in (-1, 0, 1):
            v = (1 << k) + d
            for w in (v, v - (1 << bits), -v):
                if lo <= w <= hi:
                    out.add(w)
    out.update([lo, lo + 1, hi, hi - 1, 0, -1, 1])
    return sorted(out)


def rand_int(rng, bits):
    lo, hi = -(1 << (bits - 1)), (1 << (bits - 1)) - 1
    m = rng.below(4)
    if m == 0:
        return rng.range(lo, hi)
    if m == 1:
        k = rng.range(0, bits - 1)
        v = rng.choice([1, -1]) * (1 << k) + rng.range(-3, 3)
    elif m == 2:
        k = rng.range(0, bits - 1)
        v = rng.range(-(1 << k), 1 << k)
    else:
        v = rng.choice([lo, hi]) + rng.range(-300, 300)
    return max(lo, min(hi, v))


BITS = {"h": 16, "i": 32, "l": 64, "v": 32}


def rand_bytes(rng, n):
    mode = rng.below(4)
    if mode == 0:
        return bytes(rng.below(256) for _ in range(n))
    if mode == 1:  # non-UTF-8 heavy
        return bytes(rng.choice([0x80, 0xC0, 0xFF, 0xFE, 0xED, 0xA0, 0x00, 0x7F]) for _ in range(n))
    if mode == 2:
        return ("héllo 中国 " * (n // 8 + 1)).encode("utf-8")[:n]
    return bytes([rng.below(256)]) * n


def rand_val(rng, maxlen=40):
    typ = rng.choice("byhilvBS" + "vil")
    api = rng.choice("sw") if typ in "byhil" else "w"
    if typ == "b":
        return tok(api, typ, rng.chance(1, 2))
    if typ == "y":
        return tok(api, typ, rng.choice([0, 1, 127, 128, 255, rng.below(256)]))
    if typ in BITS:
        return tok(api, typ, rand_int(rng, BITS[typ]))
    n = rng.choice([0, 1, 2, rng.range(0, maxlen)])
    return tok(api, typ, rand_bytes(rng, n))


def gen(rng, tier):
    quick = tier == "quick"
    streams = []
    # all 2^16 int16 values, through both APIs
    ex = []
    per = 32
    allv = list(range(-32768, 32768))
    for i in range(0, len(allv), per):
        api = "s" if (i // per) % 2 == 0 else "w"
        ex.append("c11 " + " ".join(tok(api, "h", v) for v in allv[i:i + per]))
    streams.append(("int16-exhaustive", ex))
    # all byte / bool values
    streams.append(("byte-bool-exhaustive", ["c11 " + " ".join(tok("sw"[(v >> 4) & 1], "y", v) for v in range(k, k + 32)) for k in range(0, 256, 32)]
                    + ["c11 sb:0 sb:1 wb:1 wb:0"]))
    # boundary values of int32 / int64 / 7-bit, every edge
    edges = []
    for typ in "ilv":
        vs = edge_ints(BITS[typ])
        for i in range(0, len(vs), 16):
            edges.append("c11 " + " ".join(tok(rng.choice("sw") if typ != "v" else "w", typ, v) for v in vs[i:i + 16]))
    streams.append(("int-edges", edges))
    # boundary-biased random
    rb = []
    cnt = 12000 if quick else 120000
    for _ in range(cnt):
        typ = rng.choice("ilv")
        rb.append("c11 " + " ".join(tok(rng.choice("sw") if typ != "v" else "w", typ, rand_int(rng, BITS[typ])) for _ in range(16)))
    streams.append(("int-boundary-random", rb))
    # strings / byte slices: lengths across the prefix-size boundaries, non-UTF-8 content
    ss = []
    lens = [0, 1, 2, 3, 126, 127, 128, 129, 255, 256, 257, 16382, 16383, 16384, 16385]
    if not quick:
        lens += [2097151, 2097152, 2097153]
    for n in lens:
        for typ in "BS":
            if n > 100000:
                ss.append("c11 " + tok("w", typ, rand_bytes(rng, n)))
            else:
                ss.append("c11 " + tok("w", typ, rand_bytes(rng, n)) + " " + tok("w", "i", 0x01020304) + " " + tok("w", typ, rand_bytes(rng, rng.range(0, 5))))
    for _ in range(150 if quick else 1500):
        n = rng.choice([rng.range(0, 300), rng.range(100, 160), rng.range(16300, 16500) if rng.chance(1, 6) else rng.range(0, 40)])
        ss.append("c11 " + tok("w", rng.choice("BS"), rand_bytes(rng, n)) + " " + rand_val(rng))
    streams.append(("strings-bytes", ss))
    # random interleaved typed sequences
    sq = []
    for _ in range(2000 if quick else 30000):
        k = rng.choice([1, 2, 3, rng.range(1, 12), rng.range(1, 30)])
        sq.append("c11 " + " ".join(rand_val(rng) for _ in range(k)))
    sq.append("c11")
    streams.append(("typed-sequences", sq))
    # the same kind of sequences on a stream with a life before the case: it carried a 70000-byte message, part of
    # it was read, then it was Reset() for reuse (tag c11R; the model's stream after Reset is the empty stream)
    ru = ["c11R " + c[4:] for c in sq[:: max(1, len(sq) // (60 if quick else 600))] if len(c) > 4]
    streams.append(("stream-reused-after-reset", ru))
    # sample of the int32 line through the model: every 4099-th value (thorough: all of them, quick: a slice)
    step = 4099
    sv = list(range(-(1 << 31), 1 << 31, step))
    if quick:
        off = rng.below(40)
        sv = sv[off::40]
    sm = []
    for i in range(0, len(sv), 16):
        sm.append("c11 " + " ".join(t for v in sv[i:i + 16] for t in (tok("s", "i", v), tok("w", "v", v))))
    streams.append(("int32-every-4099th", sm))
    return streams


# ---------------------------------------------------------------- interleaved generators
# Go's allocation size classes (runtime/sizeclasses.go) up to 32 KiB: the capacity append() really gets
_SIZE_CLASSES = [8, 16, 24, 32, 48, 64, 80, 96, 112, 128, 144, 160, 176, 192, 208, 224, 240, 256, 288, 320, 352, 384, 416,
                 448, 480, 512, 576, 640, 704, 768, 896, 1024, 1152, 1280, 1408, 1536, 1792, 2048, 2304, 2688, 3072, 3200,
                 3456, 4096, 4864, 5376, 6144, 6528, 6784, 6912, 8192, 9472, 9728, 10240, 10880, 12288, 13568, 14336, 16384,
                 18432, 19072, 20480, 21760, 24576, 27264, 28672, 32768]


def go_grow(cap, ln, add):
    """predicted capacity of a []byte after append of add bytes (runtime.growslice); only used to aim value
    sizes at the spare capacity, never to judge a result"""
    need = ln + add
    if need <= cap:
        return cap
    if need > 2 * cap:
        new = need
    elif cap < 256:
        new = 2 * cap
    else:
        new = cap
        while new < need:
            new += (new + 768) // 4
    for c in _SIZE_CLASSES:
        if c >= new:
            return c
    return (new + 8191) // 8192 * 8192


def gen_inter_case(rng, tidy, nvals, complete=True, budget=9000):
    """one random FIFO-discipline schedule with its values; value sizes aimed at the spare capacity of the
    backing array so that bulk writes into a partly consumed stream do / do not / just do not fit"""
    sched, vals, pend = [], [], []
    ln = pos = cap = 0
    nw = 0
    while True:
        opts = []
        if nw < nvals:
            opts += ["W"] * 3
        if pend:
            opts += ["R"] * 3
        if tidy and sched and sched[-1] != "T":
            opts += ["T"]
        if not opts or (not complete and nw == nvals and rng.chance(1, 2)):
            break
        c = rng.choice(opts)
        if c == "W":
            m = rng.below(10)
            if m < 4 or budget < 200:
                t = rand_val(rng)
            else:
                typ = rng.choice("BS")
                spare = max(0, cap - ln)
                if m < 7:
                    n = rng.range(100, min(5000, budget))
                elif m < 9:
                    # prefix + data = spare + d: fits exactly / is one or two bytes short or over
                    want = spare + rng.range(-2, 2)
                    n = max(1, want - (1 if want <= 128 else 2))
                    n = min(n, budget)
                else:
                    n = rng.choice([spare, 2 * cap + rng.range(-1, 1), cap + pos + rng.range(-1, 1), pos, rng.range(1, 64)])
                    n = max(1, min(n, budget))
                budget -= n
                t = tok("w", typ, rand_bytes(rng, n))
            _, typ, v = parse_tok(t)
            enc = ref_encode(typ, v)
            if typ in "BS":
                k = len(enc) - len(v)
                cap = go_grow(cap, ln, k)
                cap = go_grow(cap, ln + k, len(v))
            else:
                cap = go_grow(cap, ln, len(enc))
            ln += len(enc)
            vals.append(t)
            pend.append(len(enc))
            nw += 1
        elif c == "R":
            pos += pend.pop(0)
        else:
            ln -= pos
            pos = 0
        sched.append(c)
    return "c11i %s %s" % ("".join(sched), " ".join(vals))


def fifo_schedules(n):
    """all complete write/read schedules of n values with #reads <= #writes at every prefix"""
    out = []

    def go(pre, w, r):
        if w == n and r == n:
            out.append(pre)
            return
        if w < n:
            go(pre + "W", w + 1, r)
        if r < w:
            go(pre + "R", w, r + 1)
    go("", 0, 0)
    return out


def gen_inter(rng, tier):
    quick = tier == "quick"
    streams = []
    # every complete schedule of 4 values, alone and with one Tidy at every place, for value sets whose sizes
    # straddle the first capacities of the backing array (8, 16, 32, ...)
    ex = []
    sets = [
        [tok("w", "S", b"hello world"), tok("w", "i", 12345678), tok("w", "B", bytes((7 * i + 1) & 255 for i in range(300))), tok("w", "l", -2)],
        [tok("s", "y", 7), tok("w", "B", bytes(range(1, 7))), tok("w", "S", bytes(range(40, 70))), tok("s", "h", -2)],
        [tok("w", "B", bytes(range(200))), tok("w", "v", -1), tok("w", "B", bytes(range(255, 0, -1)) * 3), tok("w", "S", b"")],
    ]
    for vs in sets:
        for sc in fifo_schedules(len(vs)):
            ex.append("c11i %s %s" % (sc, " ".join(vs)))
            for k in range(len(sc) + 1):
                ex.append("c11i %s %s" % (sc[:k] + "T" + sc[k:], " ".join(vs)))
    if not quick:
        vs5 = sets[0] + [tok("w", "B", bytes(range(256)) * 5)]
        for sc in fifo_schedules(5):
            ex.append("c11i %s %s" % (sc, " ".join(vs5)))
    streams.append(("interleaved-exhaustive-schedules", ex))
    # random schedules, writes and reads only (c11_rt_interleaved)
    n = 1500 if quick else 10000
    streams.append(("interleaved-random", [gen_inter_case(rng, False, rng.choice([2, 3, 4, rng.range(2, 12)]), complete=not rng.chance(1, 6)) for _ in range(n)]))
    # random schedules with Tidy (c11_rt_interleaved_tidy)
    streams.append(("interleaved-random-tidy", [gen_inter_case(rng, True, rng.choice([2, 3, 4, rng.range(2, 12)]), complete=not rng.chance(1, 6)) for _ in range(n)]))
    # small values only, long schedules (many growth steps 8 -> 16 -> 32 ... crossed one value at a time)
    lg = []
    for _ in range(300 if quick else 5000):
        lg.append(gen_inter_case(rng, rng.chance(1, 2), rng.range(10, 40), budget=0))
    streams.append(("interleaved-small-values-long", lg))
    return streams


def sweeps(tier):
    """implementation-only sweeps of the int32 line (both encodings) against encoding/binary"""
    if tier == "quick":
        return ["c11sweep -2147483648 2147483648 251", "c11sweep -70000 70000 1", "c11sweep 2147400000 2147483648 1",
                "c11sweep -2147483648 -2147400000 1", "c11sweep 268400000 268500000 1"]
    n = 1 << 28
    return ["c11sweep %d %d 1" % (lo, lo + n) for lo in range(-(1 << 31), 1 << 31, n)]


def run_sweeps(chk, binary):
    cases = sweeps(chk.tier)
    try:
        impl = common.run_impl(binary, cases, timeout=3600)
    except common.ImplCrash as e:
        chk.infra_errors.append("sweep crashed: " + str(e)[-800:])
        return
    total = 0
    for c, i in zip(cases, impl):
        mf = monitor(c, i)
        if mf:
            chk.monitor_fail(mf[0], c, i, mf[1])
        elif i.startswith("SWEEP ok n="):
            total += int(i.split("=")[1])
    chk.cov["int32_values_swept_against_encoding_binary"] = total
    chk.cov["evaluations"] += total


# ---------------------------------------------------------------- vm_compute cross-check
def coq_crosscheck(chk, cases, model_out):
    items = []
    for c, m in zip(cases, model_out):
        if is_inter(c):
            continue
        pm = parse_fields(m)
        if pm is None or len(c) > 600:
            continue
        vals = case_vals(c)
        term = "[" + ";".join("(%s, %s)" % ("OctViaStream" if a == "s" else "OctViaReader", octets.coq_val(t, list(v) if t in "BS" else v)) for a, t, v in vals) + "]"
        w = [] if pm["W"] == "-" else list(bytes.fromhex(pm["W"]))
        ls = [int(x) for x in pm["L"].split(",")] if pm["L"] else []
        flat = []
        for rd in parse_rds(pm["R"]):
            flat += octets.flat_rd(rd)
        items.append("(oct_c11_case %s, %s, %s, %s)" % (term, octets.coq_zlist(w), octets.coq_zlist(["(%d)" % x for x in ls]), octets.coq_zlist(["(%d)" % x for x in flat])))
    iitems = []
    for c, m in zip(cases, model_out):
        if not is_inter(c) or len(c) > 600:
            continue
        pm = parse_inter(m)
        if pm is None:
            continue
        vals = case_vals(c)
        term = "[" + ";".join("(%s, %s)" % ("OctViaStream" if a == "s" else "OctViaReader", octets.coq_val(t, list(v) if t in "BS" else v)) for a, t, v in vals) + "]"
        sch = "[" + ";".join({"W": "OctSW", "R": "OctSR", "T": "OctST"}[x] for x in c.split()[1]) + "]"
        flat = []
        for st in pm["steps"]:
            if st[0] == "w":
                flat += [200, st[1], st[2]]
            elif st[0] == "t":
                flat += [202, st[1], st[2]]
            else:
                flat += [201, st[1]] + octets.flat_rd(st[2:])
        fp, fl = pm["P"].split("/")
        flat += [int(fp), int(fl)] + ([] if pm["U"] == "-" else list(bytes.fromhex(pm["U"])))
        iitems.append("(oct_c11i_case %s %s, %s)" % (sch, term, octets.coq_zlist(["(%d)" % x for x in flat])))
    if not items and not iitems:
        return 0
    body = octets.COQ_FLAT + """
Definition fl_obs (o : oct_sobs) : list Z :=
  match o with
  | OctObW s => [200; oct_position s; oct_len s]
  | OctObR p r => 201 :: Z.of_nat p :: fl_rd r
  | OctObT s => [202; oct_position s; oct_len s] end.
Definition oki (c : option (list oct_sobs * oct_stream) * list Z) : bool :=
  match c with
  | (Some (obs, s), f) => zl_eqb (flat_map fl_obs obs ++ [oct_position s; oct_len s] ++ skipn (oct_pos s) (oct_buf s)) f
  | _ => false end.
Definition icases := [%s].
Definition ibad := Eval vm_compute in length (filter (fun c => negb (oki c)) icases).
Print ibad.
Definition ok (c : option (list Z * oct_stream * list (oct_rd oct_val)) * list Z * list Z * list Z) : bool :=
  match c with
  | (Some (ls, s, rs), w, l, f) => zl_eqb (oct_buf s) w && zl_eqb ls l && zl_eqb (flat_map fl_rd rs) f
  | _ => false end.
Definition cases := [%s].
Definition bad := Eval vm_compute in length (filter (fun c => negb (ok c)) cases).
Print bad.
""" % (";\n".join(iitems), ";\n".join(items))
    out = common.run_coq_eval(body)
    flat_out = out.replace("\n", " ")
    if "bad = 0%nat" not in flat_out.replace("ibad = 0%nat", "") or "ibad = 0%nat" not in flat_out:
        chk.diverge("vm_compute-vs-extraction", "sample of %d cases" % (len(items) + len(iitems)), out[-300:], "", "extracted OCaml model disagrees with vm_compute")
    return len(items) + len(iitems)


# ---------------------------------------------------------------- entry points
def run(chk):
    chk.trusted = octets.TRUSTED
    chk.assumptions = ["values are values of their Go type (bool, byte, int16, int32, int64; len(data) < 2^31 for strings/byte slices, "
                       "as WriteBytes converts the length to int32)"]
    chk.cov["rule"] = ("case = a sequence of typed values written through OctetsStream/OctetsWriter and read back with the matching calls; "
                       "streams: all 2^16 int16, all bytes/bools, every power-of-two / 7-bit-group edge of int32/int64/7-bit, boundary-biased "
                       "random ints, strings/byte slices with lengths across 127/128, 16383/16384 (thorough: 2^21) and non-UTF-8 content, random "
                       "mixed typed sequences, every 4099-th int32; INTERLEAVED use of one stream (c11i: schedule over W/R/T = next write / "
                       "matching read of the oldest unread value / Tidy, FIFO discipline): every complete schedule of 4 values alone and with one "
                       "Tidy at every place, random schedules without and with Tidy whose byte-slice/string sizes are aimed at the spare capacity "
                       "of the backing array (100..5000 bytes, spare-2..spare+2, 2*cap, cap+position) so that bulk writes hit a partly consumed "
                       "stream that must grow, long schedules of small values; plus an implementation-only sweep of the int32 line in both encodings "
                       "against encoding/binary (thorough: all 2^32). non-trivial = some multi-byte encoding or >= 2 values; distinct = distinct case line")
    chk.run_proof_gate(octets.PROOFS + ["proofs/OctetsInterleaved.v"])
    binary = pure.build_pure(chk)
    if binary:
        streams = [("corpus", [c for c in pure.corpus_cases(ID) if c.startswith(("c11 ", "c11R ")) or c == "c11" or is_inter(c)])] + gen(chk.rng, chk.tier) + gen_inter(chk.rng, chk.tier)
        cases, model, impl = octets.run_streams(chk, binary, streams, compare, monitor, nontrivial)
        run_sweeps(chk, binary)
        # measured distribution: values per type, encoded size of the 7-bit values and of the length prefixes
        types, sz7, szp = {}, {}, {}
        for c in cases:
            for _, typ, v in case_vals(c):
                types[typ] = types.get(typ, 0) + 1
                if typ == "v":
                    k = len(octets.uleb128(v & 0xFFFFFFFF))
                    sz7[k] = sz7.get(k, 0) + 1
                elif typ in "BS":
                    k = len(octets.uleb128(len(v)))
                    szp[k] = szp.get(k, 0) + 1
        chk.cov["values_per_type"] = dict(sorted(types.items()))
        chk.cov["7bit_encoded_size_histogram"] = dict(sorted(sz7.items()))
        chk.cov["length_prefix_size_histogram"] = dict(sorted(szp.items()))
        # vm_compute cross-check on a sample
        try:
            idx = [k for k, c in enumerate(cases) if len(c) <= 600 and not is_inter(c)]
            step = max(1, len(idx) // 120)
            pick = idx[::step][:130]
            idx = [k for k, c in enumerate(cases) if len(c) <= 600 and is_inter(c)]
            step = max(1, len(idx) // 60)
            pick += idx[::step][:70]
            n = coq_crosscheck(chk, [cases[k] for k in pick], [model[k] for k in pick])
            chk.cov["vm_compute_crosschecked"] = n
        except Exception as ex:
            chk.infra_errors.append("vm_compute cross-check failed: %r" % (ex,))
    chk.finish(search=search)


def search(chk):
    """Proof or correspondence broken: look for an input on which the implementation itself violates the
    property (monitors only, bigger generators + the sweeps)."""
    binary = pure.build_pure(chk)
    if not binary:
        return
    frng = chk.rng.fork()
    cases = [c for name, cs in gen_inter(frng, "thorough") for c in cs]
    streams = gen(frng, "thorough")
    cases += [c for name, cs in streams for c in cs if name != "int32-every-4099th"][:60000]
    cases += sweeps("quick")
    impl = common.run_impl(binary, cases)
    for c, i in zip(cases, impl):
        mf = monitor(c, i)
        if mf:
            chk.monitor_fail(mf[0], c, i, mf[1])


def replay(chk, path):
    import json
    rep = json.load(open(path))
    binary = pure.build_pure(chk)
    cases = [x["case"] for x in rep.get("failing_inputs", []) + rep.get("divergences", []) if isinstance(x.get("case"), str) and x["case"].startswith("c11")]
    impl = common.run_impl(binary, cases)
    model = octets.run_model_parallel([c if not c.startswith("c11sweep") else "c11" for c in cases], nproc=1)
    bad = 0
    for c, m, i in zip(cases, model, impl):
        mf = monitor(c, i)
        cp = compare(c, m, i)
        print("case=%s\n  model=%s\n  impl=%s\n  monitor=%s compare=%s" % (c[:300], m[:300], i[:300], mf, cp))
        if mf or cp:
            bad += 1
    print("replayed %d case(s), %d still failing" % (len(cases), bad))
    raise SystemExit(1 if bad else 0)
