# C11 -- iox codec round trip + wire format. Model: coq/models/Octets.v ; theorems: coq/props/C11.v
#
# case:   c11 <api><type>:<value> ...      api s = OctetsStream method, w = OctetsWriter/OctetsReader method
#                                          type b bool, y byte, h int16, i int32, l int64, v 7-bit int32,
#                                               B byte slice (hex), S string (hex, any bytes)
# result: W=<bytes written, hex> L=<Len() after each write> R=<value@Position()/Len()+alloc ; ...>
#         (implementation adds WERR=<write error> REF=ok|<hex produced by encoding/binary>)
from . import common, pure, octets
from .octets import tok, parse_tok, parse_fields, parse_rds, ref_encode

ID = "C11"


def case_vals(case):
    return [parse_tok(t) for t in case.split()[1:]]


def strip_alloc(field):
    return ";".join(x.rsplit("+", 1)[0] for x in field.split(";")) if field else ""


def compare(case, model, impl):
    if case.startswith("c11sweep"):
        return None
    pm, pi = parse_fields(model), parse_fields(impl)
    if pm is None:
        return "model produced no result (%s)" % model[:100]
    if pi is None:
        return "implementation produced no result"
    if pm["W"] != pi["W"]:
        return "bytes written differ"
    if pm["L"] != pi["L"]:
        return "Len() after the writes differs"
    if strip_alloc(pm["R"]) != strip_alloc(pi["R"]):
        return "values read / Position() / Len() differ"
    return None


def monitor(case, impl):
    """The property text on the implementation's observation, without the model: written bytes =
    independent encoders (python struct/LEB128 here, encoding/binary inside the harness); the
    matching reads return the values written and each consumes exactly what its write produced."""
    if case.startswith("c11sweep"):
        if not impl.startswith("SWEEP ok"):
            return ("sweep", "int32 sweep against encoding/binary failed: " + impl[:300])
        return None
    pi = parse_fields(impl)
    if pi is None:
        return ("panic", "no result / panic: " + impl[:200])
    vals = case_vals(case)
    want = b""
    lens = []
    for _, typ, v in vals:
        want += ref_encode(typ, v)
        lens.append(len(want))
    got = b"" if pi["W"] == "-" else bytes.fromhex(pi["W"])
    if pi.get("WERR") != "nil":
        return ("write-error", "a write returned an error or moved the read position: " + str(pi.get("WERR")))
    if got != want:
        k = next((i for i, (a, b) in enumerate(zip(got, want)) if a != b), min(len(got), len(want)))
        return ("wire-format", "bytes written differ from the documented wire format at offset %d: got %s want %s" % (
            k, got[max(0, k - 4):k + 8].hex(), want[max(0, k - 4):k + 8].hex()))
    if pi.get("REF") != "ok":
        return ("wire-format-ref", "bytes written differ from encoding/binary (LittleEndian/AppendUvarint): " + str(pi.get("REF"))[:80])
    got_lens = [int(x) for x in pi["L"].split(",")] if pi["L"] else []
    if got_lens != lens:
        return ("write-size", "Len() after the writes %s, want %s" % (pi["L"], lens))
    rds = parse_rds(pi["R"])
    if len(rds) != len(vals):
        return ("read-count", "result count")
    for k, ((api, typ, v), (val, pos, ln, _)) in enumerate(zip(vals, rds)):
        exp = tok("", typ, v)
        if val != exp:
            return ("round-trip", "value %d: wrote %s read back %s" % (k, exp[:60], val[:60]))
        if pos != lens[k]:
            return ("consumed", "value %d (%s): Position() after the read is %d, want %d (exactly the bytes written)" % (k, exp[:40], pos, lens[k]))
        if ln != len(want):
            return ("len-changed", "Len() changed during reads")
    return None


def nontrivial(case, model):
    # reaches the rule: at least one multi-byte encoding or >= 2 values
    t = case.split()
    return len(t) >= 3 or (len(t) == 2 and t[1][1] not in "by")


# ---------------------------------------------------------------- generators
def edge_ints(bits):
    """boundary values of a signed type of that width"""
    out = set()
    lo, hi = -(1 << (bits - 1)), (1 << (bits - 1)) - 1
    for k in range(0, bits):
        for d in (-2, -1, 0, 1, 2):
            for s in (1, -1):
                v = s * (1 << k) + d
                if lo <= v <= hi:
                    out.add(v)
    for k in range(7, bits + 7, 7):       # 7-bit group boundaries (as unsigned patterns too)
        for d in (-1, 0, 1):
            v = (1 << k) + d
            for w in (v, v - (1 << bits), -v):
                if lo <= w <= hi:
                    out.add(w)
    out.update([lo, lo + 1, hi, hi - 1, 0, -1, 1])
    return sorted(out)


def rand_int(rng, bits):
    lo, hi = -(1 << (bits - 1)), (1 << (bits - 1)) - 1
    m = rng.below(4)
    if m == 0:
        return rng.range(lo, hi)
    if m == 1:
        k = rng.range(0, bits - 1)
        v = rng.choice([1, -1]) * (1 << k) + rng.range(-3, 3)
    elif m == 2:
        k = rng.range(0, bits - 1)
        v = rng.range(-(1 << k), 1 << k)
    else:
        v = rng.choice([lo, hi]) + rng.range(-300, 300)
    return max(lo, min(hi, v))


BITS = {"h": 16, "i": 32, "l": 64, "v": 32}


def rand_bytes(rng, n):
    mode = rng.below(4)
    if mode == 0:
        return bytes(rng.below(256) for _ in range(n))
    if mode == 1:  # non-UTF-8 heavy
        return bytes(rng.choice([0x80, 0xC0, 0xFF, 0xFE, 0xED, 0xA0, 0x00, 0x7F]) for _ in range(n))
    if mode == 2:
        return ("héllo 中国 " * (n // 8 + 1)).encode("utf-8")[:n]
    return bytes([rng.below(256)]) * n


def rand_val(rng, maxlen=40):
    typ = rng.choice("byhilvBS" + "vil")
    api = rng.choice("sw") if typ in "byhil" else "w"
    if typ == "b":
        return tok(api, typ, rng.chance(1, 2))
    if typ == "y":
        return tok(api, typ, rng.choice([0, 1, 127, 128, 255, rng.below(256)]))
    if typ in BITS:
        return tok(api, typ, rand_int(rng, BITS[typ]))
    n = rng.choice([0, 1, 2, rng.range(0, maxlen)])
    return tok(api, typ, rand_bytes(rng, n))


def gen(rng, tier):
    quick = tier == "quick"
    streams = []
    # all 2^16 int16 values, through both APIs
    ex = []
    per = 32
    allv = list(range(-32768, 32768))
    for i in range(0, len(allv), per):
        api = "s" if (i // per) % 2 == 0 else "w"
        ex.append("c11 " + " ".join(tok(api, "h", v) for v in allv[i:i + per]))
    streams.append(("int16-exhaustive", ex))
    # all byte / bool values
    streams.append(("byte-bool-exhaustive", ["c11 " + " ".join(tok("sw"[(v >> 4) & 1], "y", v) for v in range(k, k + 32)) for k in range(0, 256, 32)]
                    + ["c11 sb:0 sb:1 wb:1 wb:0"]))
    # boundary values of int32 / int64 / 7-bit, every edge
    edges = []
    for typ in "ilv":
        vs = edge_ints(BITS[typ])
        for i in range(0, len(vs), 16):
            edges.append("c11 " + " ".join(tok(rng.choice("sw") if typ != "v" else "w", typ, v) for v in vs[i:i + 16]))
    streams.append(("int-edges", edges))
    # boundary-biased random
    rb = []
    cnt = 12000 if quick else 120000
    for _ in range(cnt):
        typ = rng.choice("ilv")
        rb.append("c11 " + " ".join(tok(rng.choice("sw") if typ != "v" else "w", typ, rand_int(rng, BITS[typ])) for _ in range(16)))
    streams.append(("int-boundary-random", rb))
    # strings / byte slices: lengths across the prefix-size boundaries, non-UTF-8 content
    ss = []
    lens = [0, 1, 2, 3, 126, 127, 128, 129, 255, 256, 257, 16382, 16383, 16384, 16385]
    if not quick:
        lens += [2097151, 2097152, 2097153]
    for n in lens:
        for typ in "BS":
            if n > 100000:
                ss.append("c11 " + tok("w", typ, rand_bytes(rng, n)))
            else:
                ss.append("c11 " + tok("w", typ, rand_bytes(rng, n)) + " " + tok("w", "i", 0x01020304) + " " + tok("w", typ, rand_bytes(rng, rng.range(0, 5))))
    for _ in range(150 if quick else 1500):
        n = rng.choice([rng.range(0, 300), rng.range(100, 160), rng.range(16300, 16500) if rng.chance(1, 6) else rng.range(0, 40)])
        ss.append("c11 " + tok("w", rng.choice("BS"), rand_bytes(rng, n)) + " " + rand_val(rng))
    streams.append(("strings-bytes", ss))
    # random interleaved typed sequences
    sq = []
    for _ in range(2000 if quick else 30000):
        k = rng.choice([1, 2, 3, rng.range(1, 12), rng.range(1, 30)])
        sq.append("c11 " + " ".join(rand_val(rng) for _ in range(k)))
    sq.append("c11")
    streams.append(("typed-sequences", sq))
    # sample of the int32 line through the model: every 4099-th value (thorough: all of them, quick: a slice)
    step = 4099
    sv = list(range(-(1 << 31), 1 << 31, step))
    if quick:
        off = rng.below(40)
        sv = sv[off::40]
    sm = []
    for i in range(0, len(sv), 16):
        sm.append("c11 " + " ".join(t for v in sv[i:i + 16] for t in (tok("s", "i", v), tok("w", "v", v))))
    streams.append(("int32-every-4099th", sm))
    return streams


def sweeps(tier):
    """implementation-only sweeps of the int32 line (both encodings) against encoding/binary"""
    if tier == "quick":
        return ["c11sweep -2147483648 2147483648 251", "c11sweep -70000 70000 1", "c11sweep 2147400000 2147483648 1",
                "c11sweep -2147483648 -2147400000 1", "c11sweep 268400000 268500000 1"]
    n = 1 << 28
    return ["c11sweep %d %d 1" % (lo, lo + n) for lo in range(-(1 << 31), 1 << 31, n)]


def run_sweeps(chk, binary):
    cases = sweeps(chk.tier)
    try:
        impl = common.run_impl(binary, cases, timeout=3600)
    except common.ImplCrash as e:
        chk.infra_errors.append("sweep crashed: " + str(e)[-800:])
        return
    total = 0
    for c, i in zip(cases, impl):
        mf = monitor(c, i)
        if mf:
            chk.monitor_fail(mf[0], c, i, mf[1])
        elif i.startswith("SWEEP ok n="):
            total += int(i.split("=")[1])
    chk.cov["int32_values_swept_against_encoding_binary"] = total
    chk.cov["evaluations"] += total


# ---------------------------------------------------------------- vm_compute cross-check
def coq_crosscheck(chk, cases, model_out):
    items = []
    for c, m in zip(cases, model_out):
        pm = parse_fields(m)
        if pm is None or len(c) > 600:
            continue
        vals = case_vals(c)
        term = "[" + ";".join("(%s, %s)" % ("OctViaStream" if a == "s" else "OctViaReader", octets.coq_val(t, list(v) if t in "BS" else v)) for a, t, v in vals) + "]"
        w = [] if pm["W"] == "-" else list(bytes.fromhex(pm["W"]))
        ls = [int(x) for x in pm["L"].split(",")] if pm["L"] else []
        flat = []
        for rd in parse_rds(pm["R"]):
            flat += octets.flat_rd(rd)
        items.append("(oct_c11_case %s, %s, %s, %s)" % (term, octets.coq_zlist(w), octets.coq_zlist(["(%d)" % x for x in ls]), octets.coq_zlist(["(%d)" % x for x in flat])))
    if not items:
        return 0
    body = octets.COQ_FLAT + """
Definition ok (c : option (list Z * oct_stream * list (oct_rd oct_val)) * list Z * list Z * list Z) : bool :=
  match c with
  | (Some (ls, s, rs), w, l, f) => zl_eqb (oct_buf s) w && zl_eqb ls l && zl_eqb (flat_map fl_rd rs) f
  | _ => false end.
Definition cases := [%s].
Definition bad := Eval vm_compute in length (filter (fun c => negb (ok c)) cases).
Print bad.
""" % ";\n".join(items)
    out = common.run_coq_eval(body)
    if "bad = 0%nat" not in out.replace("\n", " "):
        chk.diverge("vm_compute-vs-extraction", "sample of %d cases" % len(items), out[-300:], "", "extracted OCaml model disagrees with vm_compute")
    return len(items)


# ---------------------------------------------------------------- entry points
def run(chk):
    chk.trusted = octets.TRUSTED
    chk.assumptions = ["values are values of their Go type (bool, byte, int16, int32, int64; len(data) < 2^31 for strings/byte slices, "
                       "as WriteBytes converts the length to int32)"]
    chk.cov["rule"] = ("case = a sequence of typed values written through OctetsStream/OctetsWriter and read back with the matching calls; "
                       "streams: all 2^16 int16, all bytes/bools, every power-of-two / 7-bit-group edge of int32/int64/7-bit, boundary-biased "
                       "random ints, strings/byte slices with lengths across 127/128, 16383/16384 (thorough: 2^21) and non-UTF-8 content, random "
                       "interleaved typed sequences, every 4099-th int32; plus an implementation-only sweep of the int32 line in both encodings "
                       "against encoding/binary (thorough: all 2^32). non-trivial = some multi-byte encoding or >= 2 values; distinct = distinct case line")
    chk.run_proof_gate(octets.PROOFS)
    binary = pure.build_pure(chk)
    if binary:
        streams = [("corpus", [c for c in pure.corpus_cases(ID) if c.startswith("c11 ") or c == "c11"])] + gen(chk.rng, chk.tier)
        cases, model, impl = octets.run_streams(chk, binary, streams, compare, monitor, nontrivial)
        run_sweeps(chk, binary)
        # measured distribution: values per type, encoded size of the 7-bit values and of the length prefixes
        types, sz7, szp = {}, {}, {}
        for c in cases:
            for _, typ, v in case_vals(c):
                types[typ] = types.get(typ, 0) + 1
                if typ == "v":
                    k = len(octets.uleb128(v & 0xFFFFFFFF))
                    sz7[k] = sz7.get(k, 0) + 1
                elif typ in "BS":
                    k = len(octets.uleb128(len(v)))
                    szp[k] = szp.get(k, 0) + 1
        chk.cov["values_per_type"] = dict(sorted(types.items()))
        chk.cov["7bit_encoded_size_histogram"] = dict(sorted(sz7.items()))
        chk.cov["length_prefix_size_histogram"] = dict(sorted(szp.items()))
        # vm_compute cross-check on a sample
        try:
            idx = [k for k, c in enumerate(cases) if len(c) <= 600]
            step = max(1, len(idx) // 150)
            pick = idx[::step][:160]
            n = coq_crosscheck(chk, [cases[k] for k in pick], [model[k] for k in pick])
            chk.cov["vm_compute_crosschecked"] = n
        except Exception as ex:
            chk.infra_errors.append("vm_compute cross-check failed: %r" % (ex,))
    chk.finish(search=search)


def search(chk):
    """Proof or correspondence broken: look for an input on which the implementation itself violates the
    property (monitors only, bigger generators + the sweeps)."""
    binary = pure.build_pure(chk)
    if not binary:
        return
    streams = gen(chk.rng.fork(), "thorough")
    cases = [c for name, cs in streams for c in cs if name != "int32-every-4099th"][:60000]
    cases += sweeps("quick")
    impl = common.run_impl(binary, cases)
    for c, i in zip(cases, impl):
        mf = monitor(c, i)
        if mf:
            chk.monitor_fail(mf[0], c, i, mf[1])


def replay(chk, path):
    import json
    rep = json.load(open(path))
    binary = pure.build_pure(chk)
    cases = [x["case"] for x in rep.get("failing_inputs", []) + rep.get("divergences", []) if isinstance(x.get("case"), str) and x["case"].startswith("c11")]
    impl = common.run_impl(binary, cases)
    model = octets.run_model_parallel([c if not c.startswith("c11sweep") else "c11" for c in cases], nproc=1)
    bad = 0
    for c, m, i in zip(cases, model, impl):
        mf = monitor(c, i)
        cp = compare(c, m, i)
        print("case=%s\n  model=%s\n  impl=%s\n  monitor=%s compare=%s" % (c[:300], m[:300], i[:300], mf, cp))
        if mf or cp:
            bad += 1
    print("replayed %d case(s), %d still failing" % (len(cases), bad))
    raise SystemExit(1 if bad else 0)
