# ants_mp.py -- several ants pools in ONE process, literal option lists (shared by the C07 and C08 checks).
#
# Why: "a pool created with size N" / "a task with timeout T and retry count R" speak about the options given to
# THAT NewPool / Send call.  The single-pool scripts of ants_common.py build one pool per scenario and always pass
# WithSize(n), so nothing a call leaves behind for a LATER call (package-level defaults, pooled option structs)
# can show there.  Here one scenario creates 2-3 pools one after the other (some later than the first Sends) and
# sends tasks to all of them; every NewPool / Send gets a literal option list in which options equal to the
# defaults are mostly OMITTED, values may be non-positive (ignored by the library: WithSize(0), WithRetry(-3),
# WithTimeout(0)), an option may occur twice (the last effective one wins) and WithError(nil) may follow WithError(f).
#   implementation: harness/cmd/ftants antsmp (passes the list literally);
#   model: ocaml/drv_c07mp.ml computes the pool's and every task's configuration with the extracted Coq functions
#          apo_create / ato_create (coq/models/AntsOptions.v) and replays the pool's history with it;
#   monitors: the configuration the property text speaks about is computed HERE from the documented meaning of the
#          options (eff_pool / eff_task, independent of the model) and the raw-log monitors of ants_common.py are
#          applied to every pool with it.
from . import common
from . import ants_common as ac

MS = ac.MS
DEFAULT_T = ac.DEFAULT_T


# ---------------------------------------------------------------- documented meaning of the options
def eff_pool(opts):
    """(N, builder id or -1): WithSize(n) sets the size if n > 0 (default 1); WithContextBuilder(b) sets the
    builder if b != nil (default: context.Background())"""
    n, b = 1, -1
    for o in opts:
        if o == "bn":
            continue
        if o[0] == "b":
            b = int(o[1:])
        elif o[0] == "s" and int(o[1:]) > 0:
            n = int(o[1:])
    return n, b


def eff_task(opts):
    """(T, R, discardOnBusy, onError?): WithTimeout(t) if t > 0 (default 365 days), WithRetry(c) if c > 0
    (default 1), WithDiscardOnBusy(b) (default true), WithError(f) (default nil)"""
    T, R, d, e = DEFAULT_T, 1, True, False
    for o in opts:
        if o == "e":
            e = True
        elif o == "en":
            e = False
        elif o == "d0":
            d = False
        elif o == "d1":
            d = True
        elif o[0] == "t" and int(o[1:]) > 0:
            T = int(o[1:])
        elif o[0] == "r" and int(o[1:]) > 0:
            R = int(o[1:])
    return T, R, d, e


def otok(opts):
    return "+".join(opts) if opts else "-"


class Pool:
    def __init__(self, create, opts):
        self.create, self.opts = create, list(opts)
        self.N, self.bid = eff_pool(self.opts)

    def tok(self):
        return "%d/%s" % (self.create, otok(self.opts))


class MPTask(ac.Task):
    def __init__(self, pool, send, opts, behs):
        T, R, d, e = eff_task(opts)
        ac.Task.__init__(self, send, T, R, d, e, behs)
        self.pool, self.opts = pool, list(opts)

    def behtok(self):
        return "|".join("%d:%d:%d:%d" % (d, int(h), v, e) for (d, h, v, e) in self.behs)

    def tok(self, model=False):
        if model:
            return "%d,%s|%s" % (self.send, otok(self.opts), self.behtok())
        return "%d,%d,%s|%s" % (self.pool, self.send, otok(self.opts), self.behtok())


def script_line(pools, tasks, horizon, gcs=(), drops=()):
    """gcs: virtual instants at which the harness forces runtime.GC() twice while the script goes on;
    drops: (pool, instant): the harness drops its reference to that pool (no Send to it follows) and forces two GCs"""
    return "antsmp H=%d %s%s%d %s %s" % (horizon, "gc=%s " % ",".join(str(g) for g in gcs) if gcs else "",
                                        "drop=%s " % ",".join("%d:%d" % d for d in drops) if drops else "", len(pools),
                                        " ".join(p.tok() for p in pools), " ".join(t.tok() for t in tasks))


def parse_script(line):
    t = line.split()
    assert t[0] == "antsmp" and t[1].startswith("H=")
    while t[2].startswith("gc=") or t[2].startswith("drop="):
        t = t[:2] + t[3:]
    np_ = int(t[2])
    pools = []
    for tok in t[3:3 + np_]:
        c, o = tok.split("/", 1)
        pools.append(Pool(int(c), [] if o == "-" else o.split("+")))
    tasks = []
    for tok in t[3 + np_:]:
        parts = tok.split("|")
        p, send, o = parts[0].split(",")
        behs = [tuple(int(x) for x in b.split(":")) for b in parts[1:]]
        tasks.append(MPTask(int(p), int(send), [] if o == "-" else o.split("+"), [(b[0], b[1] == 1, b[2], b[3]) for b in behs]))
    return pools, tasks


# ---------------------------------------------------------------- generator
POOL_PATTERNS = [
    lambda r, k: [],                                    # NewPool()
    lambda r, k: [],
    lambda r, k: ["s0"],                                # non-positive sizes are ignored
    lambda r, k: ["s%d" % -r.range(1, 5)],
    lambda r, k: ["s%d" % k],
    lambda r, k: ["s%d" % k],
    lambda r, k: ["s%d" % k, "s0"],
    lambda r, k: ["s-1", "s%d" % k],
    lambda r, k: ["s%d" % r.range(1, 4), "s%d" % k],   # the last positive one wins
    lambda r, k: ["bn"],
    lambda r, k: ["b%d" % r.range(1, 9)],
    lambda r, k: ["s%d" % k, "b%d" % r.range(1, 9)],
    lambda r, k: ["b%d" % r.range(1, 9), "bn", "s%d" % k],
    lambda r, k: ["s1"],
]


def gen_task_opts(rng, T, R, discard, onerr, default_T):
    """a literal option list with the given effective values; defaults are omitted most of the time"""
    groups = []
    if default_T:
        groups.append(rng.choice([[], [], ["t0"], ["t%d" % -rng.range(1, 10 ** 6)]]))
    else:
        groups.append(rng.choice([["t%d" % T], ["t%d" % T], ["t%d" % (T + 16 * rng.range(1, 9)), "t%d" % T], ["t%d" % T, "t0"], ["t%d" % T, "t-1"]]))
    if R == 1:
        groups.append(rng.choice([[], [], [], ["r1"], ["r0"], ["r%d" % -rng.range(1, 9)], ["r3", "r1"]]))
    else:
        groups.append(rng.choice([["r%d" % R], ["r%d" % R], ["r%d" % R, "r0"], ["r%d" % rng.range(1, 5), "r%d" % R], ["r%d" % R, "r-2"]]))
    if discard:
        groups.append(rng.choice([[], [], [], ["d1"], ["d0", "d1"]]))
    else:
        groups.append(rng.choice([["d0"], ["d0"], ["d1", "d0"]]))
    if onerr:
        groups.append(rng.choice([["e"], ["e"], ["en", "e"]]))
    else:
        groups.append(rng.choice([[], [], [], ["en"], ["e", "en"]]))
    rng.shuffle(groups)
    return [o for g in groups for o in g]


def gen_script(rng, style):
    """style: prompt (every handler honours ctx: the R*T bound must hold outright) | mixed"""
    np_ = rng.choice([2, 2, 3])
    # at least one pool bigger than 1 and one pool of size 1 by default; any creation order
    sizes = [rng.range(2, 4), None] + [rng.choice([None, rng.range(1, 4)]) for _ in range(np_ - 2)]
    rng.shuffle(sizes)
    pools = []
    create = 0
    for i, k in enumerate(sizes):
        if k is None:
            opts = rng.choice(POOL_PATTERNS[:4] + [POOL_PATTERNS[9], POOL_PATTERNS[10]])(rng, 1)
        else:
            opts = rng.choice(POOL_PATTERNS[4:9] + POOL_PATTERNS[11:13])(rng, k)
        pools.append(Pool(create + 8, opts))
        create += rng.choice([0, 16, 16, jitter(rng.range(0, 3 * MS))])
    tasks = []
    now = jitter(pools[0].create + 16) + 16
    nt = rng.range(np_ + 1, 3 * np_ + 3)
    # bursts to one pool (so that its workers / queue fill up) interleaved with the other pools
    cur = rng.below(np_)
    for i in range(nt):
        if rng.chance(1, 2):
            cur = rng.below(np_)
        p = cur
        if now <= pools[p].create:
            now = jitter(pools[p].create + 16) + 16
        T = rng.choice([1, 1, 2, 3]) * MS + 16 * rng.below(200) + 2
        R = rng.choice([1, 1, 1, 2, 2, 3, 4])
        behs = [ac.gen_beh(rng, T, "prompt" if style == "prompt" else "mixed") for _ in range(R)]
        # error identity: a handler returns, as its OWN ordinary error, an error the pool uses itself: 101 = the discard
        # error it got from a Send another (busy) pool rejected, 102 = context.DeadlineExceeded, 103 = context.Canceled,
        # 104 = a wrapped discard error -- an attempt failing with it is an ordinary failed attempt (retried while a < R)
        behs = [(d, h, v, rng.choice([101, 101, 102, 103, 104])) if (e != 0 and rng.chance(1, 3)) or (e == 0 and R > 1 and rng.chance(1, 10)) else (d, h, v, e)
                for (d, h, v, e) in behs]
        default_T = rng.chance(1, 8)
        discard = rng.chance(1, 2)
        onerr = rng.chance(2, 3)
        opts = gen_task_opts(rng, T, R, discard, onerr, default_T)
        tasks.append(MPTask(p, now, opts, behs))
        now += jitter(rng.choice([16, 16, 32, 48, T // 4, T // 2, T, 2 * T])) or 16
    # forced garbage collections in the middle of the script (every pool stays referenced and is used afterwards):
    # instants = 4 mod 16, distinct from every send (0 mod 16) and NewPool (8 mod 16)
    gcs = []
    if rng.chance(1, 2):
        lo, hi = pools[0].create, tasks[-1].send + 2 * MS
        gcs = sorted({jitter(rng.range(lo, hi)) + 4 for _ in range(rng.range(1, 2))})
    # "drop the pool, keep the Tasks": right after the last Send to a pool (its tasks still queued / running) the harness
    # forgets the pool and forces two GCs; instants = 12 mod 16
    drops = []
    if rng.chance(1, 3):
        p = rng.below(np_)
        mine = [t.send for t in tasks if t.pool == p]
        if mine:
            drops.append((p, max(mine) + rng.choice([16, 16, 160, jitter(rng.range(0, MS))]) + 12))
    return pools, tasks, horizon_of(pools, tasks), gcs, drops


def gen_drop_busy(rng):
    """'drop the pool, keep the Tasks' while the pool's inner goroutines are all busy with handlers that overran their
    deadline (they ignore ctx): the later tasks' attempts are handed over and wait for an inner goroutine; the harness drops
    the pool and collects (and collects again later) in that window. Every accepted task must still run its handler and
    complete with its result."""
    n = rng.choice([1, 1, 2])
    pools = [Pool(8, rng.choice([[], ["s1"]]) if n == 1 else ["s%d" % n]), Pool(8 + 16, ["s2"])]
    tasks = []
    TA = MS + 2
    now = 32
    hog_end = 0
    for i in range(n):
        dur = rng.choice([3, 4, 6]) * TA + 7 + 2 * rng.below(50)
        tasks.append(MPTask(0, now, ["t%d" % TA] + rng.choice([[], ["e"]]), [(dur, False, rng.range(0, 99), 0)]))
        hog_end = max(hog_end, now + dur)
        now += 16
    first_b = jitter(now + TA + 160)
    now = first_b
    TB = rng.choice([10, 20]) * MS + 2
    for j in range(rng.range(1, 2)):
        R = rng.choice([1, 1, 2])
        if R == 1:
            behs = [(101 + 2 * rng.below(100), rng.chance(1, 2), rng.range(0, 99), rng.choice([0, 0, 3]))]
        else:
            behs = [(101 + 2 * rng.below(100), True, -1, rng.range(1, 5)), (101 + 2 * rng.below(100), rng.chance(1, 2), rng.range(0, 99), 0)]
        tasks.append(MPTask(0, now, ["t%d" % TB] + ([] if R == 1 else ["r%d" % R]) + rng.choice([[], ["e"]]), behs))
        now += 16
    # a bystander on the other pool
    tasks.append(MPTask(1, jitter(now + 32), ["t%d" % (2 * MS + 2)], [(501, True, 7, 0)]))
    tasks.sort(key=lambda t: t.send)
    td = jitter(now + rng.choice([160, 320])) + 12          # after the hand-over of the last task, before the hogs end
    drops = [(0, td)]
    # further collections: while the hogs are still running, right after they end, and later
    gcs = sorted({jitter(rng.range(td + 16, max(td + 32, hog_end - 16))) + 4, jitter(hog_end + 16 * rng.range(1, 20)) + 4,
                  jitter(hog_end + 400) + 4})
    return pools, tasks, horizon_of(pools, tasks), gcs, drops


def jitter(x):
    return (x // 16) * 16


def horizon_of(pools, tasks):
    """generous: covers every task retried as often and with as long a timeout as ANY option of the script says"""
    rmax, tmax, dmax = 1, MS, 0
    for t in tasks:
        for o in t.opts:
            if o[0] == "r" and int(o[1:]) > rmax:
                rmax = int(o[1:])
            if o[0] == "t" and int(o[1:]) > tmax:
                tmax = int(o[1:])
        dmax = max([dmax] + [b[0] for b in t.behs])
    last = max([t.send for t in tasks] + [p.create for p in pools] + [0])
    return last + 2 * len(tasks) * rmax * (tmax + dmax) + MS


# ---------------------------------------------------------------- log -> one observation per pool
class PoolView:
    """pool p of one script: its tasks (renumbered), its part of the log as an ants_common.Obs"""
    pass


def split_log(pools, tasks, out):
    """-> ([PoolView], [(key, what)] script-level problems)"""
    if not out.startswith("MP="):
        return [], [("no-log", "no log: " + out[:300])]
    local, per = {}, {p: [] for p in range(len(pools))}
    for k, t in enumerate(tasks):
        local[k] = (t.pool, len(per[t.pool]))
        per[t.pool].append(t)
    logs = {p: [] for p in per}
    bids = {p: [] for p in per}
    created = {}
    problems = []
    for ev in out.split(";")[1:]:
        f = ev.split(",")
        kind = f[0]
        if kind in ("S", "SR", "HS", "HE", "OE", "G", "GG", "HANG", "G1", "ER", "HANG1"):
            p, lk = local[int(f[1])]
            if kind == "HS":
                bids[p].append(int(f[6]))
                f = f[:6]
            f[1] = str(lk)
            logs[p].append(",".join(f))
        elif kind == "END":
            logs[int(f[5])].append(",".join(f[:5]))
        elif kind == "NP":
            created[int(f[1])] = int(f[2])
        elif kind == "NOPOOL":
            problems.append(("no-pool", "task %s: its pool did not exist at the send instant %s (script error or NewPool did not return)" % (f[1], f[2])))
    for p in per:
        if p not in created:
            problems.append(("newpool-never-returns", "pool %d: NewPool did not return" % p))
    views = []
    for p, pl in enumerate(pools):
        if not per[p]:
            continue
        v = PoolView()
        v.p, v.pool, v.tasks, v.bids = p, pl, per[p], bids[p]
        v.sub = "N=%d;%s" % (pl.N, ";".join(logs[p]))
        v.obs = ac.Obs(v.sub, len(v.tasks))
        views.append(v)
    return views, problems


def model_line(mode, urg, view, evtoks):
    return "antsmprun %s %d %s %d %s %s" % (mode, int(urg), otok(view.pool.opts), len(view.tasks),
                                            " ".join(t.tok(model=True) for t in view.tasks), " ".join(evtoks))


def cfg_note(view, cfg):
    """model's configuration (CFG N=..,b=.. T,R,d,e ...) vs the documented meaning / the implementation's builder"""
    toks = cfg.split()
    if toks[0] != "CFG":
        return "no configuration from the model: " + cfg[:200]
    want = "N=%d,b=%d" % (view.pool.N, view.pool.bid)
    if toks[1] != want:
        return "pool %d options [%s]: model configuration %s, documented meaning %s" % (view.p, otok(view.pool.opts), toks[1], want)
    for k, t in enumerate(view.tasks):
        w = "%d,%d,%d,%d" % (t.T, t.R, int(t.discard), int(t.onerr))
        if toks[2 + k] != w:
            return "pool %d task %d options [%s]: model configuration %s, documented meaning %s" % (view.p, k, otok(t.opts), toks[2 + k], w)
    bad = [b for b in view.bids if b != view.pool.bid]
    if bad:
        return ("pool %d options [%s]: handler contexts were built by builder %s, the pool's own builder is %d (-1 = context.Background())"
                % (view.p, otok(view.pool.opts), sorted(set(bad)), view.pool.bid))
    return None


def run_cases(chk, binary, lines, urg=True, mode="fixed"):
    """as ants_common.run_cases: one CaseResult per (script, pool with at least one task)"""
    impl = common.run_impl_watch(binary, lines, stall=20, env=ac.FT_ENV, marker="NOLOG")
    res, mlines, midx = [], [], []
    for line, out in zip(lines, impl):
        if out.startswith("NOLOG skipped"):
            continue
        pools, tasks = parse_script(line)
        views, problems = split_log(pools, tasks, out)
        if problems or not views:
            r = ac.CaseResult()
            r.line, r.impl, r.tasks, r.obs, r.N = line, out, tasks, ac.Obs("", 0), 0
            r.problems = problems or [("no-log", "no pool has a task")]
            r.hd_ties, r.other_ties, r.model_out, r.note, r.mline, r.view = set(), [], None, None, None, None
            res.append(r)
            continue
        for v in views:
            r = ac.CaseResult()
            r.line, r.impl, r.view = line, out, v
            r.N, r.tasks, r.obs = v.pool.N, v.tasks, v.obs
            r.problems = [(k, "pool %d [%s]: %s" % (v.p, otok(v.pool.opts), w)) for k, w in ac.structural_problems(r.tasks, r.obs)]
            r.hd_ties, r.other_ties = set(), []
            r.model_out, r.note, r.mline, r.cfg = None, None, None, None
            if not r.problems:
                ac.align_behaviours(r.tasks, r.obs)
                r.hd_ties, r.other_ties = ac.find_ties(r.tasks, r.obs)
                try:
                    ev = ac.log_to_history(r.tasks, r.obs, r.hd_ties)
                    if sum(e.count("?") for e in ev) > 8:
                        r.other_ties = r.other_ties + [("too many unresolved ties", [])]
                        ev = [e.replace("?", "0") for e in ev]
                    r.mline = model_line(mode, urg, v, ev)
                    mlines.append(r.mline)
                    midx.append(len(res))
                except (KeyError, IndexError) as ex:
                    r.problems.append(("log-inconsistent", "pool %d: log cannot be turned into a history: %r" % (v.p, ex)))
            res.append(r)
    if mlines:
        mo = common.run_model(mlines)
        for i, o in zip(midx, mo):
            r = res[i]
            if " ## " in o:
                r.cfg, r.model_out = o.split(" ## ", 1)
            else:
                r.cfg, r.model_out = "", o
            n = cfg_note(r.view, r.cfg) if r.cfg else "model: " + o[:300]
            if n is not None:
                r.other_ties = []   # a configuration disagreement is reported whatever the ties of the history
            elif not r.other_ties:
                n = ac.compare(r.tasks, r.obs, r.model_out, bool(r.hd_ties))
                if n is not None:
                    n = "pool %d [%s]: %s" % (r.view.p, otok(r.view.pool.opts), n)
            r.note = n
    return res


def tag(r, mons):
    """prefix monitor messages with the pool they are about"""
    v = getattr(r, "view", None)
    if v is None:
        return mons
    return [(k, "pool %d created by NewPool(%s) = size %d: %s" % (v.p, otok(v.pool.opts), v.pool.N, w)) for k, w in mons]


def monitor_only(line, out, monitor):
    """for the failing-input search: [(key, what)] of structural problems and monitor(tasks, obs) for every pool"""
    pools, tasks = parse_script(line)
    views, problems = split_log(pools, tasks, out)
    outp = list(problems)
    for v in views:
        pre = "pool %d created by NewPool(%s) = size %d: " % (v.p, otok(v.pool.opts), v.pool.N)
        probs = ac.structural_problems(v.tasks, v.obs)
        for k, w in probs or monitor(v.tasks, v.obs):
            outp.append((k, pre + w))
    return outp


# ---------------------------------------------------------------- vm_compute cross-check of the option functions
def coq_popts(opts):
    l = []
    for o in opts:
        if o == "bn":
            l.append("ApoBuilder None")
        elif o[0] == "b":
            l.append("ApoBuilder (Some %s%%nat)" % o[1:])
        else:
            l.append("ApoSize (%s)" % o[1:])
    return "[" + "; ".join(l) + "]"


def coq_topts(opts):
    l = []
    for o in opts:
        if o in ("e", "en"):
            l.append("AtoError %s" % ("true" if o == "e" else "false"))
        elif o in ("d0", "d1"):
            l.append("AtoDiscard %s" % ("true" if o == "d1" else "false"))
        elif o[0] == "t":
            l.append("AtoTimeout (%s)" % o[1:])
        else:
            l.append("AtoRetry (%s)" % o[1:])
    return "[" + "; ".join(l) + "]"


def coq_crosscheck(chk, results, limit=40):
    """apo_create / ato_create evaluated by vm_compute inside coqc vs the extracted OCaml model's CFG answers"""
    sample = [r for r in results if getattr(r, "cfg", None) and r.cfg.startswith("CFG ")][:limit]
    if not sample:
        return 0
    items = []
    for r in sample:
        toks = r.cfg.split()
        n, b = toks[1].split(",")
        items.append("pck %s (%s) (%s)" % (coq_popts(r.view.pool.opts), n[2:], b[2:]))
        for t, tk in zip(r.view.tasks, toks[2:]):
            T, R, d, e = tk.split(",")
            items.append("tck %s (%s) (%s) %s %s" % (coq_topts(t.opts), T, R, "true" if d == "1" else "false", "true" if e == "1" else "false"))
    body = """From Got Require Import Base Ants AntsOptions.
Local Open Scope Z_scope.
Definition pck (l : list apo_opt) (n b : Z) : bool :=
  (apo_size (apo_create l) =? n) && (match apo_builder (apo_create l) with None => -1 | Some x => Z.of_nat x end =? b).
Definition tck (l : list ato_opt) (t r : Z) (d e : bool) : bool :=
  let c := ato_create l in (ato_timeout c =? t) && (ato_retry c =? r) && Bool.eqb (ato_discard c) d && Bool.eqb (ato_onerr c) e.
Definition cases := [%s].
Definition bad := Eval vm_compute in length (filter negb cases).
Print bad.
""" % ";\n".join(items)
    out = common.run_coq_eval(body)
    if "bad = 0%nat" not in out.replace("\n", " "):
        chk.diverge("vm_compute-vs-extraction", "sample of %d option lists" % len(items), out[-300:], "", "extracted OCaml apo_create/ato_create disagree with vm_compute")
    return len(items)


def corpus_lines(prop_id):
    from . import pure
    return [l for l in pure.corpus_cases(prop_id) if l.startswith("antsmp ")]
