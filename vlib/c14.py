# C14 -- sortx.Search. Model: coq/models/Search.v ; theorems: coq/props/C14.v
from . import common, pure

PROOFS = ["proofs/SearchProofs.v", "models/Search.v"]


def parse(line):
    # "r=6 lp=[4,7] ep=[6]" -> (6, [4,7], [6])
    if not line.startswith("r="):
        return None
    parts = dict(p.split("=", 1) for p in line.split())
    def lst(s):
        s = s.strip("[]")
        return [int(x) for x in s.split(",")] if s else []
    return int(parts["r"]), lst(parts["lp"]), lst(parts["ep"])


def case_params(case):
    t = case.split()
    if t[0] in ("c14T", "c14N"):
        n, b, e = int(t[1]), int(t[2]), int(t[3])
        return n, b, e
    tgt = int(t[1])
    l = [int(x) for x in t[2:]]
    if t[0] == "c14A":
        b = sum(1 for x in l if x < tgt)
    else:
        b = sum(1 for x in l if x > tgt)
    e = b + sum(1 for x in l if x == tgt)
    return len(l), b, e


def bound(n):
    # ceil(log2(n+1)) less-probes (theorem c14_search_spec)
    return (n).bit_length() if n > 0 else 0


def compare(case, model, impl):
    pm, pi = parse(model), parse(impl)
    if pm is None:
        return "model produced no result (%s)" % model
    if pi is None:
        return "implementation produced no result"
    if pm[0] != pi[0]:
        return "result differs"
    n, b, e = case_params(case)
    # projected observables: predicates evaluated at valid indices only, O(log n) times
    if any(k < 0 or k >= n for k in pi[1] + pi[2]):
        return "implementation probes an invalid index"
    if len(pi[1]) > max(len(pm[1]), bound(n)) or len(pi[2]) > 1:
        return "implementation evaluates the predicates more often than the proved bound"
    return None


def monitor(case, impl):
    """Direct restatement of the property on the implementation's observation."""
    if "INNER-WRONG" in impl:
        return ("nested-call", "a Search call made from inside a predicate of a running Search returned a wrong result: " + impl[-40:])
    pi = parse(impl)
    n, b, e = case_params(case)
    if pi is None:
        return ("panic", "Search panicked / gave no result: " + impl[:200])
    want = b if b < e else ~b
    if n <= 0:
        want = -1
    if pi[0] != want:
        return ("result", "Search returned %d, want %d (n=%d first-match/insertion point=%d, matches=%d)" % (pi[0], want, n, b, e - b))
    if any(k < 0 or k >= n for k in pi[1] + pi[2]):
        return ("probe-range", "predicate evaluated at an invalid index: less@%s equal@%s (n=%d)" % (pi[1], pi[2], n))
    if len(pi[1]) > 2 * bound(n) + 2 or len(pi[2]) > 2:
        return ("probe-count", "predicates evaluated %d+%d times for n=%d (not O(log n))" % (len(pi[1]), len(pi[2]), n))
    return None


def nontrivial(case, model):
    pm = parse(model)
    return pm is not None and len(pm[1]) >= 2


def gen(rng, tier):
    streams = []
    # exhaustive small scope: every (n, b, e) with 0<=b<=e<=n, n<=N
    N = 24 if tier == "quick" else 64
    ex = []
    for n in range(0, N + 1):
        for b in range(0, n + 1):
            for e in (b, b + 1, min(n, b + 3), n):
                if b <= e <= n:
                    ex.append("c14T %d %d %d" % (n, b, e))
    ex = sorted(set(ex))
    streams.append(("threshold-exhaustive-small", ex))
    # huge sizes (synthetic predicates), boundary-biased
    big = []
    cnt = 300 if tier == "quick" else 5000
    for _ in range(cnt):
        k = rng.range(1, 62)
        n = (1 << k) + rng.choice([-1, 0, 1, rng.range(0, 1 << k)])
        n = max(1, min(n, (1 << 63) - 1))
        b = rng.choice([0, 1, n - 1, n, n // 2, rng.range(0, n)])
        b = max(0, min(b, n))
        e = rng.choice([b, min(n, b + 1), min(n, b + rng.range(0, 5)), n])
        big.append("c14T %d %d %d" % (n, b, e))
    big.append("c14T %d %d %d" % ((1 << 63) - 1, (1 << 63) - 1, (1 << 63) - 1))
    big.append("c14T %d %d %d" % ((1 << 63) - 1, (1 << 63) - 2, (1 << 63) - 1))
    big.append("c14T %d 0 0" % ((1 << 63) - 1))
    big.append("c14T -5 0 0")
    streams.append(("threshold-large", big))
    # predicates that call Search themselves while the outer Search runs (re-entrancy)
    ne = ["c14N %d %d %d" % (n, b, e) for n in range(0, 13) for b in range(0, n + 1) for e in sorted(set([b, min(b + 1, n), n]))]
    for _ in range(40 if tier == "quick" else 2000):
        n = rng.range(13, 1 << rng.range(4, 40))
        b = rng.range(0, n)
        ne.append("c14N %d %d %d" % (n, b, rng.choice([b, min(b + 1, n), min(b + rng.range(0, 50), n)])))
    streams.append(("nested-search-in-predicates", ne))
    # concrete lists, ascending and descending, with duplicates
    ls = []
    cnt = 400 if tier == "quick" else 8000
    for _ in range(cnt):
        n = rng.choice([0, 1, 2, 3, rng.range(0, 40), rng.range(0, 300)])
        hi = rng.choice([3, 10, 1000, 1 << 62])
        l = sorted(rng.range(-hi, hi) for _ in range(n))
        t = rng.choice(l) if l and rng.chance(1, 2) else rng.range(-hi - 1, hi + 1)
        if rng.chance(1, 2):
            ls.append("c14A %d %s" % (t, " ".join(map(str, l))))
        else:
            ls.append("c14D %d %s" % (t, " ".join(map(str, reversed(l)))))
    streams.append(("sorted-lists", ls))
    return streams


def coq_crosscheck(chk, cases, model_out):
    """Re-evaluate a sample of the cases with vm_compute inside coqc and compare with the
    extracted model (extraction is thereby cross-checked on every run)."""
    items = []
    for c, m in zip(cases, model_out):
        t = c.split()
        pm = parse(m)
        if t[0] != "c14T" or pm is None:
            continue
        def z(v):
            return "(%d)" % v
        def zl(l):
            return "[" + ";".join(z(x) for x in l) + "]"
        items.append("(search_threshold %s %s %s, %s, %s, %s)" % (z(int(t[1])), z(int(t[2])), z(int(t[3])), z(pm[0]), zl(pm[1]), zl(pm[2])))
    if not items:
        return 0
    body = """From Got Require Import Base Search.
Local Open Scope Z_scope.
Definition zl_eqb (a b : list Z) : bool := if list_eq_dec Z.eq_dec a b then true else false.
Definition ok (c : option search_out * Z * list Z * list Z) : bool :=
  match c with
  | (Some o, r, lp, ep) => (s_result o =? r) && zl_eqb (s_less_probes o) lp && zl_eqb (s_equal_probes o) ep
  | _ => false end.
Definition cases := [%s].
Definition bad := Eval vm_compute in length (filter (fun c => negb (ok c)) cases).
Print bad.
""" % ";\n".join(items)
    out = common.run_coq_eval(body)
    if "bad = 0%nat" not in out.replace("\n", " "):
        chk.diverge("vm_compute-vs-extraction", "sample of %d cases" % len(items), out[-300:], "", "extracted OCaml model disagrees with vm_compute")
    return len(items)


def run(chk):
    chk.trusted = common.BASE_TRUSTED + ["modelled: Go int as 64-bit two's complement (wrap written into mid_of); predicates as total functions Z->bool"]
    chk.assumptions = ["count < 2^63 (Go int)", "predicates consistent with a sorted list (the property's own hypothesis)"]
    chk.cov["rule"] = ("cases = (n,b,e) threshold predicates (exhaustive for small n, boundary-biased random up to 2^63-1) and "
                       "concrete sorted integer lists asc/desc with duplicates; non-trivial = model performs >= 2 less-probes; "
                       "distinct = distinct case line")
    chk.run_proof_gate(PROOFS)
    binary = pure.build_pure(chk)
    if binary:
        streams = [("corpus", pure.corpus_cases("C14"))] + gen(chk.rng, chk.tier)
        pure.run_streams(chk, binary, streams, compare, monitor, nontrivial)
        # vm_compute cross-check on a sample
        sample = [c for c in streams[2][1][:120]]
        try:
            mo = common.run_model(sample)
            n = coq_crosscheck(chk, sample, mo)
            chk.cov["vm_compute_crosschecked"] = n
        except Exception as ex:
            chk.infra_errors.append("vm_compute cross-check failed: %r" % (ex,))
    chk.finish(search=search)


def search(chk):
    """Correspondence or proof broken: look for an input where the implementation itself
    violates the property (monitors only, larger generator)."""
    binary = pure.build_pure(chk)
    if not binary:
        return
    streams = gen(chk.rng.fork(), "thorough")
    cases = [c for _, cs in streams for c in cs]
    impl = common.run_impl(binary, cases)
    for c, i in zip(cases, impl):
        mf = monitor(c, i)
        if mf:
            chk.monitor_fail(mf[0], c, i, mf[1])


def replay(chk, path):
    import json
    rep = json.load(open(path))
    binary = pure.build_pure(chk)
    cases = [x["case"] for x in rep.get("failing_inputs", []) + rep.get("divergences", []) if isinstance(x.get("case"), str) and x["case"].startswith("c14")]
    impl = common.run_impl(binary, cases)
    model = common.run_model(cases)
    bad = 0
    for c, m, i in zip(cases, model, impl):
        mf = monitor(c, i)
        print("case=%s\n  model=%s\n  impl=%s\n  monitor=%s compare=%s" % (c, m, i, mf, compare(c, m, i)))
        if mf or compare(c, m, i):
            bad += 1
    print("replayed %d case(s), %d still failing" % (len(cases), bad))
    raise SystemExit(1 if bad else 0)
