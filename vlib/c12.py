# C12 -- iox decoding of arbitrary bytes is total, in-bounds and allocation-bounded.
# Model: coq/models/Octets.v ; theorems: coq/props/C12.v
#
# case:   c12 <input hex | -> <op> ...   ops: sb sy sh si sl = OctetsStream.ReadBool/Byte/Int16/Int32/Int64,
#                                             rb ry rh ri rl = the same through OctetsReader,
#                                             v = Read7BitEncodedInt, B = ReadBytes, S = ReadString,
#                                             n<k> = OctetsStream.Read(make([]byte,k))
# result: R=<value | E:<error> | PANIC>@<Position()>/<Len()>+<alloc> ; ...
#         alloc: model = bytes requested from make(); implementation = runtime.MemStats.TotalAlloc delta
#
# case:   c12s <stream op> ... | <read op> ... | <stream op> ... | <read op> ...   ONE stream, segments in turn: C13's
#                                             vocabulary (w<n> x<hex> r<n> s<whence>:<offset> t z, syntax of vlib/c13.py),
#                                             then the read ops above, then stream ops again, ...
# result: one part per segment joined by " || ": <c13S trace: ret b=<Bytes()> l=<Len()> p=<Position()> ; ...> for stream
#         ops, R=<as above> B=<Bytes() afterwards> for read calls
#         model = brg_phases (models/StreamReads.v): StreamOps.v for the stream-op segments, the state translations
#         brg_oct / brg_stm (proved to make the two models agree in proofs/OctetsBridge.v), Octets.v readers for the read
#         segments (theorems c12_reads_safe_after_any_ops, c12_reads_safe_in_any_alternation)
import os

from . import common, pure, octets
from . import c13 as stream_ops  # case syntax, comparison and the independent FIFO reference monitor of the stream-op part
from .octets import parse_fields, parse_rds, uleb128

ID = "C12"
PROOFS = octets.PROOFS + ["proofs/OctetsBridge.v", "models/StreamReads.v", "models/StreamOps.v", "proofs/StreamOpsProofs.v",
                          "lib/GoSlice.v"]
# one P: the TotalAlloc meter stops the world twice per call, which is cheap only without other Ps
ENV = dict(os.environ, GOMAXPROCS="1")
FIXED = {"b": 1, "y": 1, "h": 2, "i": 4, "l": 8}
DOCUMENTED = ("E:InvalidArgument", "E:Bad7BitInt", "E:NegativeSize", "E:NotEnoughData")
OPS = ["sb", "rb", "sy", "ry", "sh", "rh", "si", "ri", "sl", "rl", "v", "B", "S"]


def slack(n):
    """TotalAlloc counts size-class-rounded objects: <= 12.5% + one 16-byte tiny block for small
    objects, whole 8 KiB pages for large ones"""
    if n <= 32768:
        return n // 8 + 16
    return 8192 + n // 64


def case_parts(case):
    t = case.split()
    data = b"" if t[1] == "-" else bytes.fromhex(t[1])
    return data, t[2:]


def compare(case, model, impl, strict=False):
    if case.startswith("c12s"):
        return compare_s(case, model, impl, strict)
    return compare_reads(model, impl, strict)


def segments(case):
    """'c12s <stream ops> | <read ops> | <stream ops> | ...' -> [[tokens], ...] (even = stream ops, odd = read calls)"""
    segs = [[]]
    for tok in case.split()[1:]:
        if tok == "|":
            segs.append([])
        else:
            segs[-1].append(tok)
    return segs


def stream_toks(segs):
    return [tok for k in range(0, len(segs), 2) for tok in segs[k]]


def read_toks(segs):
    return [tok for k in range(1, len(segs), 2) for tok in segs[k]]


def parts_of(out):
    """one part per segment; None if the line is not a c12s result"""
    if out.startswith("PANIC") or out.startswith("MODEL-EXN") or out == "BADCASE":
        return None
    return [x.strip() for x in out.split(" || ")]


def read_part(part):
    """'R=<rds> B=<hex|PANIC>' -> (R field, B field) or None"""
    f = parse_fields(part)
    if f is None or "R" not in f or "B" not in f:
        return None
    return f["R"], f["B"]


def compare_s(case, model, impl, strict=False):
    pm, pi = parts_of(model), parts_of(impl)
    if pm is None:
        return "model produced no result (%s)" % model[:100]
    if pi is None:
        return "implementation produced no result (%s)" % impl[:100]
    segs = segments(case)
    for k, seg in enumerate(segs):
        if k >= len(pm) or k >= len(pi):
            break
        if k % 2 == 0:
            note = stream_ops.compare("c13S " + " ".join(seg), pm[k], pi[k])
            if note is not None:
                return "segment %d (stream operations): %s" % (k, note)
        else:
            rm, ri = read_part(pm[k]), read_part(pi[k])
            if rm is None or ri is None:
                return "segment %d (read calls): unparsable result" % k
            note = compare_reads("R=" + rm[0], "R=" + ri[0], strict)
            if note is not None:
                return "segment %d (read calls after %d stream ops): %s" % (k, len(stream_toks(segs[:k])), note)
            if rm[1] != ri[1]:
                return "segment %d (read calls): Bytes() afterwards differs: model %s vs implementation %s" % (k, rm[1][:60], ri[1][:60])
    if len(pm) != len(pi):
        return "number of segments run differs: model %d, implementation %d" % (len(pm), len(pi))
    return None


def compare_reads(model, impl, strict=False):
    pm, pi = parse_fields(model), parse_fields(impl)
    if pm is None:
        return "model produced no result (%s)" % model[:100]
    if pi is None:
        return "implementation produced no result"
    rm, ri = parse_rds(pm["R"]), parse_rds(pi["R"])
    if len(rm) != len(ri):
        return "number of results differs"
    for k, (a, b) in enumerate(zip(rm, ri)):
        if b[0] == "GUARD":
            return "call %d not executed: the harness guard against repeated huge allocations tripped" % k
        if a[0] != b[0]:
            return "call %d: value / error identity / panic differs" % k
        if a[1] != b[1] or a[2] != b[2]:
            return "call %d: Position()/Len() differs" % k
        if b[3] > a[3] + slack(a[3]):
            return "call %d: implementation allocated %d bytes, model requests %d" % (k, b[3], a[3])
        if strict and a[3] > b[3] + slack(b[3]) + 16:
            return "call %d: model requests %d bytes, implementation allocated %d" % (k, a[3], b[3])
    return None


def alloc_suspect(case, model, impl):
    """only the alloc comparison failed (re-measured before it is reported)"""
    note = compare(case, model, impl)
    return note is not None and "implementation allocated" in note


def ref_7bit(data, pos):
    """documented format: up to 5 bytes, 7 bits each, low group first; returns (pattern, consumed) or None"""
    v = 0
    for k in range(5):
        if pos + k >= len(data):
            return None
        b = data[pos + k]
        v |= (b & 0x7F) << (7 * k)
        if b < 0x80:
            return v, k + 1
    return None


def monitor(case, impl):
    """The property text on the implementation's observation, without the model."""
    if case.startswith("c12s"):
        return monitor_s(case, impl)
    pi = parse_fields(impl)
    if pi is None:
        return ("panic", "no result / panic outside a read call: " + impl[:200])
    data, ops = case_parts(case)
    return monitor_reads(data, ops, pi["R"], 0, "")


def monitor_s(case, impl):
    """c12s: (1) C13's FIFO reference monitor over the WHOLE history -- every read segment enters it as one Read of as
    many bytes as the typed calls consumed, returning the bytes that were unread before, and Bytes() after the segment
    must be what the reference says is left (typed reads never disturb the buffer; the cursor stays inside the data
    after every op); (2) the C12 monitor on every read segment, started from the Bytes()/Len()/Position() the
    implementation showed before it."""
    parts = parts_of(impl)
    if parts is None:
        return ("panic", "no result / panic outside a call: " + impl[:200])
    segs = segments(case)
    ptoks, plines, checks = [], [], []
    unread, ln, pos = b"", 0, 0
    broken = None
    for k, seg in enumerate(segs):
        if k >= len(parts):
            break
        if k % 2 == 0:
            lines = stream_ops.split_trace(parts[k])
            ptoks += seg
            plines += lines
            if lines:
                o = stream_ops.parse_line("S", lines[-1])
                if o is None or o["panic"] or o.get("b") == "PANIC":
                    # the reference monitor reports it; the reads that follow show what the cursor does to a decoder
                    if k + 1 < len(parts) and k + 1 < len(segs):
                        rp = read_part(parts[k + 1])
                        if rp is not None and "PANIC@" in rp[0]:
                            broken = "; then read call #%d (%s) panicked" % next(
                                (j, op) for j, (op, r) in enumerate(zip(segs[k + 1], rp[0].split(";"))) if r.startswith("PANIC@"))
                    break
                unread, ln, pos = bytes.fromhex(o["b"]), int(o["l"]), int(o["p"])
        else:
            rp = read_part(parts[k])
            if rp is None:
                return ("panic", "segment %d: read calls not run: %s" % (k, parts[k][:100]))
            checks.append((bytes(pos) + unread, seg, rp[0], pos, "after %d stream ops, " % len(ptoks)))
            rds = parse_rds(rp[0])
            npos, nln = (rds[-1][1], rds[-1][2]) if rds else (pos, ln)
            delta = npos - pos
            if rp[1] == "PANIC" or delta < 0 or any(r[0] in ("PANIC", "GUARD") for r in rds):
                break  # reported by the read monitor below
            ptoks.append("r%d" % delta)
            plines.append("R%d:%s%s b=%s l=%d p=%d" % (delta, unread[:delta].hex(), ":E" if delta == 0 else "", rp[1], nln, npos))
            unread, ln, pos = bytes.fromhex(rp[1]), nln, npos
    mf = stream_ops.monitor("c13S " + " ".join(ptoks), " ; ".join(plines))
    if mf is not None:
        return ("stream-op-" + mf[0], "stream operations (read segments shown as r<bytes consumed>): " + mf[1] + (broken or ""))
    for data, rops, field, pos0, prefix in checks:
        mr = monitor_reads(data, rops, field, pos0, prefix)
        if mr is not None:
            return mr
    if len(parts) != len(segs):
        return ("panic", "%d segments run of %d" % (len(parts), len(segs)))
    return None


def monitor_reads(data, ops, field, pos0, prefix):
    rds = parse_rds(field)
    if len(rds) != len(ops):
        return ("result-count", "result count")
    pos = pos0
    for k, (op, (val, npos, ln, alloc)) in enumerate(zip(ops, rds)):
        what = prefix + "call %d (%s at position %d of %d bytes)" % (k, op, pos, len(data))
        if val == "GUARD":
            return None  # earlier calls of this run already reported the huge allocation
        if val == "PANIC":
            return ("panic", what + " panicked")
        if val.startswith("E:") and val not in DOCUMENTED:
            return ("undocumented-error", what + " returned " + val)
        if ln != len(data):
            return ("len-changed", what + ": Len() = %d" % ln)
        if not (0 <= npos <= ln):
            return ("cursor-out-of-bounds", what + ": Position() = %d outside [0, %d]" % (npos, ln))
        if npos < pos:
            return ("cursor-moved-back", what + ": Position() went from %d to %d" % (pos, npos))
        remaining = len(data) - pos
        if alloc > remaining + slack(remaining):
            return ("alloc-unbounded", what + ": allocated %d bytes with only %d bytes of input left" % (alloc, remaining))
        typ = op[-1] if op[0] != "n" else "n"
        # (whether a successfully decoded number is the right one is C11's subject, not C12's)
        if typ in FIXED:
            if val.startswith("E:") and npos != pos:
                return ("failed-read-consumed", what + ": failed fixed-width read moved the cursor to %d" % npos)
        elif typ in "BS":
            if not val.startswith("E:"):
                got = bytes.fromhex(val[2:])
                r = ref_7bit(data, pos)
                if r is None:
                    return ("bytes-not-exact", what + ": success without a decodable length prefix")
                n, kk = r
                if len(got) != n or got != data[pos + kk:pos + kk + n] or npos != pos + kk + n:
                    return ("bytes-not-exact", what + ": announced %d bytes, returned %d, cursor advanced by %d (prefix %d)" % (n, len(got), npos - pos, kk))
        pos = npos
    return None


def nontrivial(case, model):
    if case.startswith("c12s"):
        # a Seek / Tidy / Reset in front of at least one read call that returns data or fails
        segs = segments(case)
        if parts_of(model) is None or not read_toks(segs):
            return False
        return any(x[0] in "stz" for x in stream_toks(segs))
    pm = parse_fields(model)
    if pm is None:
        return False
    return any(r[0].startswith("E:") or r[0][0] in "vBSr" for r in parse_rds(pm["R"]))


# ---------------------------------------------------------------- generators
ALPHA = [0x00, 0x01, 0x0F, 0x10, 0x7F, 0x80, 0xFF]


def strings_upto(alpha, n):
    out = [b""]
    layer = [b""]
    for _ in range(n):
        layer = [s + bytes([a]) for s in layer for a in alpha]
        out += layer
    return out


def hexd(b):
    return b.hex() if b else "-"


def rand_ops(rng, k):
    out = []
    for _ in range(k):
        if rng.chance(1, 8):
            out.append("n%d" % rng.choice([0, 1, 2, 3, 5, 8, 100]))
        else:
            out.append(rng.choice(OPS + ["v", "B", "S"]))
    return out


def gen(rng, tier):
    quick = tier == "quick"
    streams = []
    # every byte string up to length 3 over the alphabet x every read op (then one more ReadByte,
    # which shows by value where the cursor really is)
    ex = []
    for s in strings_upto(ALPHA, 3):
        for op in OPS + ["n0", "n1", "n2", "n5"]:
            ex.append("c12 %s %s sy" % (hexd(s), op))
    streams.append(("exhaustive-len<=3", ex))
    # the 7-bit decoder and the length prefix need up to 5 bytes: lengths 4..6 for v/B/S
    ex5 = []
    alpha5 = ALPHA
    for s in strings_upto(alpha5, 5):
        if len(s) >= 4:
            ex5.append("c12 %s %s sy" % (hexd(s), "vBS"[len(ex5) % 3]))
    if not quick:
        for s in strings_upto([0x00, 0x02, 0x10, 0x80, 0xFF], 6):
            if len(s) == 6:
                ex5.append("c12 %s %s ry" % (hexd(s), "vBS"[len(ex5) % 3]))
    streams.append(("exhaustive-7bit-len4-6", ex5))
    # structure-aware malformed inputs
    mal = []
    cnt = 10000 if quick else 150000
    for _ in range(cnt):
        kind = rng.below(8)
        if kind == 0:  # truncated valid encoding
            typ = rng.choice("hilvBS")
            if typ in "BS":
                v = bytes(rng.below(256) for _ in range(rng.choice([1, 5, 127, 128, 300])))
            elif typ == "v":
                v = rng.range(-(1 << 31), (1 << 31) - 1)
            else:
                bits = {"h": 16, "i": 32, "l": 64}[typ]
                v = rng.range(-(1 << (bits - 1)), (1 << (bits - 1)) - 1)
            enc = octets.ref_encode(typ, v)
            cut = rng.range(0, len(enc))
            op = typ if typ in "vBS" else rng.choice("sr") + typ
            mal.append("c12 %s %s %s" % (hexd(enc[:cut]), op, " ".join(rand_ops(rng, rng.below(3)))))
        elif kind == 1:  # over-long 7-bit runs
            n = rng.range(1, 8)
            s = bytes(rng.choice([0x80, 0xFF, 0x81, 0xFE]) for _ in range(n)) + bytes([rng.choice([0x00, 0x0F, 0x10, 0x7F, 0x80, 0xFF, rng.below(256)])])
            mal.append("c12 %s %s %s" % (hexd(s + bytes(rng.below(256) for _ in range(rng.below(4)))), rng.choice("vBS"), " ".join(rand_ops(rng, rng.below(3)))))
        elif kind == 2:  # length prefix larger than the rest, up to 2^31-1
            rest = bytes(rng.below(256) for _ in range(rng.choice([0, 1, 2, 10, 200])))
            n = rng.choice([len(rest) + 1, len(rest) + rng.range(1, 1000), 1 << rng.range(3, 30), (1 << 31) - 1, (1 << 31) - rng.range(1, 100000),
                            1 << 26, (1 << 26) + 1, 1 << 20])
            n = max(n, len(rest) + 1)
            mal.append("c12 %s %s %s" % (hexd(uleb128(n) + rest), rng.choice("BS"), " ".join(rand_ops(rng, rng.below(3)))))
        elif kind == 3:  # negative lengths
            n = rng.choice([0xFFFFFFFF, 0x80000000, 0x80000001, rng.range(0x80000000, 0xFFFFFFFF)])
            rest = bytes(rng.below(256) for _ in range(rng.below(6)))
            mal.append("c12 %s %s %s" % (hexd(uleb128(n) + rest), rng.choice("BSv"), " ".join(rand_ops(rng, rng.below(3)))))
        elif kind == 4:  # non-canonical prefixes (zero-padded groups)
            n = rng.choice([0, 1, 2, 3, 127, 128])
            pad = rng.range(1, 4)
            enc = bytearray(uleb128(n))
            enc[-1] |= 0x80
            enc += bytes([0x80] * (pad - 1)) + b"\x00"
            rest = bytes(rng.below(256) for _ in range(rng.choice([0, n, n + 3])))
            mal.append("c12 %s %s %s" % (hexd(bytes(enc) + rest), rng.choice("BSv"), " ".join(rand_ops(rng, rng.below(3)))))
        elif kind == 5:  # exact-fit and one-short prefixes
            n = rng.choice([1, 2, 127, 128, 129, 1000, 16383, 16384])
            have = n - rng.choice([0, 0, 1, 2])
            mal.append("c12 %s %s %s" % (hexd(uleb128(n) + bytes(rng.below(256) for _ in range(max(0, have)))), rng.choice("BS"), "sy"))
        elif kind == 6:  # valid sequence read with the wrong ops
            enc = b"".join(octets.ref_encode(t, v) for t, v in [("i", rng.range(-5, 5)), ("v", rng.range(0, 300)), ("B", b"abc")])
            mal.append("c12 %s %s" % (hexd(enc), " ".join(rand_ops(rng, rng.range(1, 8)))))
        else:  # fixed-width reads at every distance from the end
            n = rng.range(0, 12)
            mal.append("c12 %s %s" % (hexd(bytes(rng.below(256) for _ in range(n))), " ".join(rng.choice("sr") + rng.choice("byhil") for _ in range(rng.range(1, 6)))))
    streams.append(("structure-aware-malformed", mal))
    # sequences of read calls on random bytes
    sq = []
    for _ in range(8000 if quick else 100000):
        n = rng.choice([0, 1, 2, rng.range(0, 12), rng.range(0, 60)])
        mode = rng.below(3)
        if mode == 0:
            s = bytes(rng.below(256) for _ in range(n))
        elif mode == 1:
            s = bytes(rng.choice(ALPHA + [0x02, 0x03, 0x05]) for _ in range(n))
        else:
            s = bytes(rng.choice([0, 1, 2, 3, 4]) for _ in range(n))
        sq.append("c12 %s %s" % (hexd(s), " ".join(rand_ops(rng, rng.range(1, 14)))))
    streams.append(("read-sequences", sq))
    streams.append(("reads-after-seek-tidy-reset", gen_after_ops(rng, quick)))
    return streams


# stream ops of C13's vocabulary: two payloads that decode as length-prefixed / 7-bit data, reads, every whence with
# offsets landing inside, at the ends of, before and behind the data, an invalid whence, Tidy, Reset
S_ALPHA = ["x0502414207", "x8001", "w3", "r1", "r2", "s0:0", "s0:1", "s0:5", "s0:-1", "s1:1", "s1:-1", "s1:-3",
           "s2:0", "s2:-1", "s2:1", "s2:-9", "s3:0", "t", "z"]
S_READS = OPS + ["n0", "n1", "n3"]


def gen_after_ops(rng, quick):
    out = []

    def tail():
        return "%s %s sy" % (rng.choice(S_READS), rng.choice(S_READS))
    # bounded-exhaustive: every op sequence up to length 2 (3 in the thorough tier) x three read tails
    for n in range(0, 3 if quick else 4):
        for p in stream_ops.product(S_ALPHA, n):
            for _ in range(3 if n <= 2 else 1):
                out.append("c12s %s | %s" % (" ".join(p), tail()))
    for _ in range(3000 if quick else 60000):
        n = 3 if quick else 4
        out.append("c12s %s | %s" % (" ".join(rng.choice(S_ALPHA) for _ in range(n)), tail()))
    # valid encodings, partly consumed, cursor moved back / forward by Seek, optionally compacted, then re-read typed
    for _ in range(600 if quick else 8000):
        vals = [("i", rng.range(-5, 5)), ("v", rng.choice([0, 1, 127, 128, 300, -1])), ("B", bytes(rng.below(256) for _ in range(rng.below(5)))),
                ("h", rng.range(-300, 300)), ("l", rng.range(-(1 << 40), 1 << 40))]
        vals = [vals[rng.below(len(vals))] for _ in range(rng.range(1, 4))]
        enc = b"".join(octets.ref_encode(t_, v) for t_, v in vals)
        k = rng.range(0, len(enc))
        ops = ["x" + enc.hex(), "r%d" % k]
        ops.append(rng.choice(["s1:%d" % -k, "s0:0", "s2:%d" % -len(enc), "s1:%d" % rng.range(-k - 2, len(enc) - k + 2),
                               "s0:%d" % rng.range(-1, len(enc) + 1), "s2:%d" % rng.range(-len(enc) - 1, 1)]))
        if rng.chance(1, 3):
            ops.append("t")
        if rng.chance(1, 4):
            ops.append("x" + octets.ref_encode("B", b"xyz").hex())
        reads = [t_ if t_ in "vBS" else rng.choice("sr") + t_ for t_, _ in vals] + rand_ops(rng, rng.below(3))
        out.append("c12s %s | %s" % (" ".join(ops), " ".join(reads)))
    # alternations: stream ops | reads | stream ops | reads | ... (2-4 rounds) on one stream
    for _ in range(1500 if quick else 25000):
        segs = []
        for _r in range(rng.range(2, 4)):
            ops = []
            for _o in range(rng.range(0, 4)):
                if rng.chance(1, 4):
                    t_, v = rng.choice([("i", rng.range(-5, 5)), ("v", rng.choice([0, 1, 127, 128, 300, -1])), ("B", bytes(rng.below(256) for _ in range(rng.below(5)))),
                                        ("h", rng.range(-300, 300)), ("S", b"hi")])
                    ops.append("x" + octets.ref_encode(t_, v).hex())
                else:
                    ops.append(rng.choice(S_ALPHA))
            segs.append(" ".join(ops))
            segs.append(" ".join(rand_ops(rng, rng.range(0, 4))))
        out.append("c12s " + " | ".join(segs))
    # long random op sequences (C13's generator: boundary-biased offsets up to +-2^63), then random read sequences
    for c in stream_ops.gen_stream_random(rng, 300 if quick else 4000):
        out.append("c12s %s | %s" % (c[len("c13S "):], " ".join(rand_ops(rng, rng.range(1, 8)))))
    return out


# ---------------------------------------------------------------- vm_compute cross-check
def coq_crosscheck(chk, cases, model_out):
    items = []
    for c, m in zip(cases, model_out):
        pm = parse_fields(m)
        if pm is None or len(c) > 400:
            continue
        data, ops = case_parts(c)
        flat = []
        for rd in parse_rds(pm["R"]):
            flat += octets.flat_rd(rd)
        items.append("(oct_c12_case OctFixed %s [%s], %s)" % (octets.coq_zlist(list(data)), ";".join(octets.coq_op(o) for o in ops),
                                                              octets.coq_zlist(["(%d)" % x for x in flat])))
    if not items:
        return 0
    body = octets.COQ_FLAT + """
Definition ok (c : list (oct_rd oct_val) * list Z) : bool := zl_eqb (flat_map fl_rd (fst c)) (snd c).
Definition cases := [%s].
Definition bad := Eval vm_compute in length (filter (fun c => negb (ok c)) cases).
Print bad.
""" % ";\n".join(items)
    out = common.run_coq_eval(body)
    if "bad = 0%nat" not in out.replace("\n", " "):
        chk.diverge("vm_compute-vs-extraction", "sample of %d cases" % len(items), out[-300:], "", "extracted OCaml model disagrees with vm_compute")
    return len(items)


def coq_stm_op(op):
    if op[0] == "w":
        return "SWrite %s" % octets.coq_zlist(list(op[1]))
    if op[0] == "r":
        return "SRead %d%%nat" % op[1]
    if op[0] == "s":
        return "SSeek (%d) (%d)" % (op[2], op[1])
    return {"t": "STidy", "z": "SReset"}[op[0]]


def coq_crosscheck_s(chk, cases, model_out):
    items = []
    for c, m in zip(cases, model_out):
        pm = parts_of(m)
        segs = segments(c)
        if pm is None or len(pm) != len(segs) or len(c) > 400:
            continue
        _, ops = stream_ops.parse_case("c13S " + " ".join(stream_toks(segs)))
        flat, terms = [], []
        for k, seg in enumerate(segs):
            if k % 2 == 0:
                terms.append("BrgOps [%s]" % "; ".join(coq_stm_op(o) for o in ops[:len(seg)]))
                ops = ops[len(seg):]
                flat += [200] + stream_ops.flat_of_output("S", pm[k])
            else:
                terms.append("BrgReads [%s]" % ";".join(octets.coq_op(o) for o in seg))
                r, b = read_part(pm[k])
                flat += [201]
                for rd in parse_rds(r):
                    flat += octets.flat_rd(rd)
                flat += [-2] if b == "PANIC" else [len(b) // 2] + list(bytes.fromhex(b))
        items.append("(brg_phases StmFixed OctFixed stm_init [%s], %s)" % ("; ".join(terms), octets.coq_zlist(["(%d)" % x for x in flat])))
    if not items:
        return 0
    body = octets.COQ_FLAT + """From Got Require Import GoSlice StreamOps StreamReads.
Definition fl_obs (o : brg_seg_obs) : list Z :=
  match o with
  | BrgOpsObs t => 200 :: flat_map stm_flat_line t
  | BrgReadsObs rs b => 201 :: flat_map fl_rd rs ++ match b with Ok d => stm_flat_bytes d | _ => [-2] end
  end.
Definition ok (c : list brg_seg_obs * list Z) : bool := zl_eqb (flat_map fl_obs (fst c)) (snd c).
Definition cases := [%s].
Definition bad := Eval vm_compute in length (filter (fun c => negb (ok c)) cases).
Print bad.
""" % ";\n".join(items)
    out = common.run_coq_eval(body)
    if "bad = 0%nat" not in out.replace("\n", " "):
        chk.diverge("vm_compute-vs-extraction", "sample of %d c12s cases" % len(items), out[-300:], "", "extracted OCaml model disagrees with vm_compute")
    return len(items)


# ---------------------------------------------------------------- entry points
WITNESS = "c12 ffffffff07 B"
# c12_reads_after_orig_seek_refuted: the pre-fix Seek accepted a position behind the data
WITNESS_S = "c12s x01020304 s0:10 | sy n1 ri"


def run_all(chk, binary, streams):
    """run both sides; an alloc excess is re-measured (twice) before it counts"""
    names, cases = [], []
    for name, cs in streams:
        for c in cs:
            names.append(name)
            cases.append(c)
    try:
        impl = common.run_impl(binary, cases, env=ENV)
    except common.ImplCrash as e:
        chk.infra_errors.append("implementation harness crashed (a panic escaping the harness, a runtime fatal error such as out of memory, or a hang): " + str(e)[-1500:])
        return [], [], []
    model = octets.run_model_parallel(cases)
    suspects = [k for k in range(len(cases)) if alloc_suspect(cases[k], model[k], impl[k])]
    for _ in range(2):
        if not suspects or len(suspects) > 200:
            break
        again = common.run_impl(binary, [cases[k] for k in suspects], env=ENV)
        still = []
        for k, i2 in zip(suspects, again):
            if alloc_suspect(cases[k], model[k], i2):
                still.append(k)
            else:
                impl[k] = i2
        suspects = still
    chk.cov["alloc_remeasured_cases"] = chk.cov.get("alloc_remeasured_cases", 0)
    for name, c, m, i in zip(names, cases, model, impl):
        chk.count_case(name, c, nontrivial(c, m))
        chk.cov["programs"] += 1
        note = compare(c, m, i)
        chk.cov["disagreements_checked"] += 1
        if note is not None:
            chk.diverge(name, c, m, i, note)
        else:
            chk.cov["traces_validated_against_impl"] += 1
        mf = monitor(c, i)
        if mf is not None:
            chk.monitor_fail(mf[0], c, i, mf[1])
    seen = set()
    for name, c, m, i in zip(names, cases, model, impl):
        if name not in seen:
            seen.add(name)
            chk.sample(dict(stream=name, case=c[:300], model=m[:300], impl=i[:300]), limit=12)
    # measured distribution: outcome per kind of call (from the model's results), input lengths, allocating calls
    kinds, lens, allocs = {}, {}, 0
    for c, m in zip(cases, model):
        if c.startswith("c12s"):
            ps = parts_of(m)
            if ps is None:
                continue
            sg = segments(c)
            lens["after-stream-ops"] = lens.get("after-stream-ops", 0) + 1
            key = "c12s-segments:%d" % len(sg)
            lens[key] = lens.get(key, 0) + 1
            for k in range(1, min(len(sg), len(ps)), 2):
                rp = read_part(ps[k])
                if rp is None:
                    continue
                for op, rd in zip(sg[k], parse_rds(rp[0])):
                    typ = op[-1] if op[0] != "n" else "n"
                    key = "after-ops:" + typ + ":" + (rd[0] if rd[0].startswith("E:") or rd[0] == "PANIC" else "ok")
                    kinds[key] = kinds.get(key, 0) + 1
            continue
        pm = parse_fields(m)
        if pm is None:
            continue
        data, ops = case_parts(c)
        b = "0" if not data else "1-3" if len(data) <= 3 else "4-8" if len(data) <= 8 else "9-64" if len(data) <= 64 else ">64"
        lens[b] = lens.get(b, 0) + 1
        for op, rd in zip(ops, parse_rds(pm["R"])):
            typ = op[-1] if op[0] != "n" else "n"
            key = typ + ":" + (rd[0] if rd[0].startswith("E:") or rd[0] == "PANIC" else "ok")
            kinds[key] = kinds.get(key, 0) + 1
            if rd[3] > 0:
                allocs += 1
    chk.cov["outcomes_per_call_kind"] = dict(sorted(kinds.items()))
    chk.cov["input_length_histogram"] = lens
    chk.cov["calls_with_model_alloc>0"] = allocs
    return cases, model, impl


def canary(chk, binary):
    """the pre-fix model variant (OctOrig) must be told apart from the implementation on the
    refutation witness; otherwise the alloc observation is too weak to mean anything"""
    impl = common.run_impl(binary, [WITNESS], env=ENV)[0]
    orig = common.run_model(["c12o" + WITNESS[3:]])[0]
    fixed = common.run_model([WITNESS])[0]
    d_orig = compare(WITNESS, orig, impl, strict=True)
    d_fixed = compare(WITNESS, fixed, impl, strict=True)
    chk.cov["canary"] = dict(case=WITNESS, model_orig=orig, model_fixed=fixed, impl=impl,
                             orig_differs=d_orig is not None, fixed_agrees=d_fixed is None)
    if d_orig is None and d_fixed is None:
        chk.diverge("canary", WITNESS, orig, impl, "the pre-fix model (2^31-1 bytes requested) is not distinguished from the implementation: alloc observation too weak")
    # the pre-fix Seek: the model variant StmOrig leaves the cursor behind the data and the typed Read panics
    impl = common.run_impl(binary, [WITNESS_S], env=ENV)[0]
    orig = common.run_model(["c12so" + WITNESS_S[4:]])[0]
    fixed = common.run_model([WITNESS_S])[0]
    d_orig = compare(WITNESS_S, orig, impl)
    d_fixed = compare(WITNESS_S, fixed, impl)
    chk.cov["canary_reads_after_seek"] = dict(case=WITNESS_S, model_orig_seek=orig, model_fixed=fixed, impl=impl,
                                              orig_differs=d_orig is not None, fixed_agrees=d_fixed is None,
                                              orig_model_read_panics="PANIC@" in orig)
    if d_orig is None or "PANIC@" not in orig:
        chk.diverge("canary", WITNESS_S, orig, impl, "the pre-fix Seek model (cursor behind the data, Read panics) is not distinguished from the implementation")


def run(chk):
    chk.trusted = octets.TRUSTED
    chk.assumptions = ["position <= len(buffer) at the first call of the per-call theorems (c12_read_*): discharged by c12_reads_safe_after_any_ops for every "
                       "state reachable from the empty stream by Write/Read/Seek/Tidy/Reset (C13's cursor theorem carried across the proved bridge between "
                       "the two models of OctetsStream); a stream whose fields were set by other means is outside the theorem",
                       "OctetsStream.Read is called with a buffer of length n >= 0"]
    chk.cov["rule"] = ("case = input byte string + a sequence of read calls of OctetsStream/OctetsReader; streams: every byte string up to length 3 over "
                       "{00,01,0f,10,7f,80,ff} x every read op, lengths 4-5(6) for the 7-bit decoder / length prefix, structure-aware malformed inputs "
                       "(truncated values, over-long 7-bit runs, prefixes larger than the rest up to 2^31-1, negative and non-canonical lengths), random read "
                       "sequences; reads-after-seek-tidy-reset: c12s cases = a sequence of stream operations (C13's vocabulary: every sequence up to length 2(3) over "
                       "19 ops incl. seeks before / behind the data and an invalid whence, random length-3(4) sequences, valid encodings partly consumed and "
                       "re-read after a Seek / Tidy, long random sequences with offsets up to +-2^63) followed by typed read calls on the same stream, and "
                       "alternations of 2-4 rounds stream ops | reads | stream ops | reads; "
                       "non-trivial = some call fails or is a 7-bit / length-prefixed / raw read (c12s: a Seek/Tidy/Reset precedes the reads); distinct = distinct case line")
    chk.run_proof_gate(PROOFS)
    binary = pure.build_pure(chk)
    if binary:
        streams = [("corpus", [c for c in pure.corpus_cases(ID) if c.startswith("c12 ") or c.startswith("c12s ")])] + gen(chk.rng, chk.tier)
        cases, model, impl = run_all(chk, binary, streams)
        try:
            canary(chk, binary)
        except Exception as ex:
            chk.infra_errors.append("canary failed to run: %r" % (ex,))
        try:
            idx = [k for k, c in enumerate(cases) if len(c) <= 400 and c.startswith("c12 ")]
            step = max(1, len(idx) // 180)
            pick = idx[::step][:200]
            n = coq_crosscheck(chk, [cases[k] for k in pick], [model[k] for k in pick])
            idx = [k for k, c in enumerate(cases) if len(c) <= 400 and c.startswith("c12s ")]
            step = max(1, len(idx) // 110)
            pick = idx[::step][:120]
            n2 = coq_crosscheck_s(chk, [cases[k] for k in pick], [model[k] for k in pick])
            chk.cov["vm_compute_crosschecked"] = n + n2
            chk.cov["vm_compute_crosschecked_reads_after_ops"] = n2
        except Exception as ex:
            chk.infra_errors.append("vm_compute cross-check failed: %r" % (ex,))
    chk.finish(search=search)


def search(chk):
    binary = pure.build_pure(chk)
    if not binary:
        return
    streams = gen(chk.rng.fork(), "thorough")
    after = [c for n_, cs in streams for c in cs if n_ == "reads-after-seek-tidy-reset"]
    cases = [WITNESS, WITNESS_S] + after[:30000] + [c for n_, cs in streams for c in cs if n_ != "reads-after-seek-tidy-reset"][:150000]
    impl = common.run_impl(binary, cases, env=ENV)
    for c, i in zip(cases, impl):
        mf = monitor(c, i)
        if mf:
            chk.monitor_fail(mf[0], c, i, mf[1])


def replay(chk, path):
    import json
    rep = json.load(open(path))
    binary = pure.build_pure(chk)
    cases = [x["case"] for x in rep.get("failing_inputs", []) + rep.get("divergences", []) if isinstance(x.get("case"), str) and (x["case"].startswith("c12 ") or x["case"].startswith("c12s "))]
    impl = common.run_impl(binary, cases, env=ENV)
    model = octets.run_model_parallel(cases, nproc=1)
    bad = 0
    for c, m, i in zip(cases, model, impl):
        mf = monitor(c, i)
        cp = compare(c, m, i)
        print("case=%s\n  model=%s\n  impl=%s\n  monitor=%s compare=%s" % (c[:300], m[:300], i[:300], mf, cp))
        if mf or cp:
            bad += 1
    print("replayed %d case(s), %d still failing" % (len(cases), bad))
    raise SystemExit(1 if bad else 0)
