# C10 -- taskx.SendDelayed: never early, < one tick late, deadline order, exactly once.
# Model: coq/models/Delayed.v ; theorems: coq/props/C10.v ; vehicle: harness/cmd/fttaskx
# (faketime) against the REAL global delayed queue with its 1 s ticker.
#
# A case is a timed script  c10 caps=<cap><e|s>,.. end=<off> S:<off>:<delay>:<q> .. K:<q>:<off> .. C:<q>:<off>
# (offsets in virtual ns relative to a tick instant B; the i-th S token is request id i).
# The harness runs it and logs the arrival order/time on every Queue.C.  The check turns the
# script into the raw event order of the model (requests in send order, ticker instants,
# consumer takes, closes; exact ties send instant = tick instant are enumerated in every order)
# and the extracted model replays it.
import itertools
import json
import re
import os

from . import common, fttaskx, pure

PROOFS = ["proofs/DelayedProofs.v", "models/Delayed.v", "proofs/HeapProofs.v", "lib/Heap.v",
          "models/DelayedInbox.v", "proofs/DelayedInboxProofs.v"]
SEC = 1000000000
ENV = dict(os.environ, GOMAXPROCS="2")


# ------------------------------------------------------------------ scripts
class Script:
    def __init__(self, caps, sends, acts=(), stream=""):
        self.caps = caps          # [(cap, 'e'|'s')]
        self.sends = sends        # [(off, delay, q)] ; id = index
        self.acts = list(acts)    # [('K'|'C', q, off)]
        self.stream = stream
        last = max([o + d for o, d, _ in sends] + [a[2] for a in self.acts] + [0])
        self.end = (last // SEC + 2) * SEC + SEC // 2

    def line(self):
        t = ["c10", "caps=" + ",".join("%d%s" % c for c in self.caps), "end=%d" % self.end]
        t += ["S:%d:%d:%d" % s for s in self.sends]
        t += ["%s:%d:%d" % a for a in self.acts]
        return " ".join(t)

    @staticmethod
    def parse(line):
        t = line.split()
        caps, sends, acts = [], [], []
        for x in t[1:]:
            if x.startswith("caps="):
                caps = [(int(c[:-1]), c[-1]) for c in x[5:].split(",")]
            elif x.startswith("S:"):
                f = x.split(":")
                sends.append((int(f[1]), int(f[2]), int(f[3])))
            elif x[0] in "KC" and x[1] == ":":
                f = x.split(":")
                acts.append((f[0], int(f[1]), int(f[2])))
        s = Script(caps, sends, acts)
        for x in t[1:]:
            if x.startswith("end="):
                s.end = int(x[4:])
        return s

    def trig(self, i):
        return self.sends[i][0] + self.sends[i][1]

    def tie_groups(self):
        """send offsets that are exactly tick instants -> list of ids (token order)"""
        g = {}
        for i, (o, d, q) in enumerate(self.sends):
            if o % SEC == 0:
                g.setdefault(o, []).append(i)
        return g

    def model_lines(self, pq=0, dump=False, wide=False):
        """All raw event orders the runtime may produce: [(line)], one per combination of tick
        positions inside each tie group and per position of a pending tick among pending
        requests after a blocked interval (tickpos)."""
        ties = self.tie_groups()
        blocked_possible = any(m == "s" for _, m in self.caps)
        tickposs = ["0", "1", "2", "3"] if blocked_possible else ["0"]
        if wide:   # one select choice per unblocking of the loop (up to three unblockings)
            tickposs = ["%d,%d,%d" % v for v in itertools.product(range(5), repeat=3)]
        combos = list(itertools.product(*[range(len(ids) + 1) for _, ids in sorted(ties.items())]))
        out = []
        for combo in combos:
            pos = dict(zip(sorted(ties), combo))
            evs = []  # (time, rank, seq, token)
            seq = 0
            # stable order of sends: by offset, then token order
            order = sorted(range(len(self.sends)), key=lambda i: (self.sends[i][0], i))
            tie_seen = {}
            for i in order:
                o, d, q = self.sends[i]
                if o in pos:
                    k = tie_seen.get(o, 0)
                    tie_seen[o] = k + 1
                    rank = 0 if k < pos[o] else 2   # before / after the tick at this instant
                else:
                    rank = 1
                evs.append((o, rank, seq, "R:%d:%d:%d" % (i, o + d, q)))
                seq += 1
            k = 1
            while k * SEC <= self.end:
                evs.append((k * SEC, 1, seq, "T:%d" % (k * SEC)))
                seq += 1
                k += 1
            for a, q, off in self.acts:
                evs.append((off, 1, seq, "%s:%d:%d" % (a, q, off)))
                seq += 1
            evs.sort()
            for tp in tickposs:
                out.append(" ".join(["c10m", "caps=" + ",".join("%d%s" % c for c in self.caps), "pq=%d" % pq,
                                     "P=%d" % SEC, "t0=0", "tickpos=%s" % tp] + (["dump=1"] if dump else []) +
                                    [e[3] for e in evs]))
        return out


def parse_obs(line):
    """-> dict(arr={q: [(id,t)]}, ks=[(q,off,res)], flags={}, after=set(ids), left={q:n}) or None"""
    if line is None or line.startswith("PANIC") or line.startswith("MODEL-EXN") or line == "BADCASE":
        return None
    arr, ks, flags, after, hist = {}, [], {}, set(), None
    zq = None
    for t in line.split():
        if t.startswith("A:"):
            f = t.split(":")
            arr.setdefault(int(f[1]), []).append((int(f[2]), int(f[3]), zq is not None))
            zq = None
        elif t.startswith("K:"):
            f = t.split(":")
            ks.append((int(f[1]), int(f[2]), f[3]))
        elif t.startswith("Z:"):
            zq = int(t[2:])
        elif t.startswith("X:"):
            after.add(int(t.split(":")[1]))
        elif t.startswith("H="):
            hist = t[2:]
        elif "=" in t:
            k, v = t.split("=", 1)
            flags[k] = v
    return dict(arr=arr, ks=ks, flags=flags, after=after, hist=hist)


def canon(script, obs, drop=()):
    """projected observables: per queue the arrival sequence (id, time) received before the end,
    with runs of equal (time, trigger) sorted by id (the release order among equal trigger
    times is implementation-defined and not compared); scripted takes."""
    out = []
    for q in range(len(script.caps)):
        seq = [(i, t) for (i, t, z) in obs["arr"].get(q, []) if not z and i not in drop]
        res, j = [], 0
        while j < len(seq):
            k = j
            while k < len(seq) and seq[k][1] == seq[j][1] and script.trig(seq[k][0]) == script.trig(seq[j][0]):
                k += 1
            res += sorted(seq[j:k])
            j = k
        out.append(res)
    return out, sorted(obs["ks"])


# ------------------------------------------------------------------ monitors (raw log only)
def monitor(script, impl_line):
    if impl_line == "SKIPPED":
        return None
    if impl_line.startswith("HANG") or impl_line.startswith("CRASH"):
        return ("hang", "the scenario never finishes (the delayed loop spins, deadlocks or a library goroutine panicked): " + impl_line[:300])
    obs = parse_obs(impl_line)
    if obs is None:
        return ("panic", "harness/implementation panicked: " + str(impl_line)[:200])
    n = len(script.sends)
    # "the queues being targeted have room": eager consumers, never closed
    roomy = all(m == "e" for _, m in script.caps) and not any(a[0] == "C" for a in script.acts)
    closed_q = set(a[1] for a in script.acts if a[0] == "C")
    seen = {}
    for q, l in obs["arr"].items():
        for (i, t, z) in l:
            if i < 0 or i >= n:
                return ("invented", "arrival of unknown request id %d on queue %d" % (i, q))
            if i in seen:
                return ("duplicate", "request %d (send %d ns, delay %d ns) arrived twice: queue %d at %d and queue %d at %d"
                        % (i, script.sends[i][0], script.sends[i][1], seen[i][0], seen[i][1], q, t))
            seen[i] = (q, t)
            if q != script.sends[i][2]:
                return ("wrong-queue", "request %d for queue %d arrived on queue %d" % (i, script.sends[i][2], q))
            if t < script.trig(i):
                return ("early", "request %d sent at %d with delay %d arrived at %d, %d ns BEFORE its deadline"
                        % (i, script.sends[i][0], script.sends[i][1], t, script.trig(i) - t))
    for i in range(n):
        if i not in seen and script.sends[i][2] not in closed_q:
            return ("lost", "request %d (send %d ns, delay %d ns, queue %d) never arrived although its queue was never closed (waited until %d)"
                    % (i, script.sends[i][0], script.sends[i][1], script.sends[i][2], script.end))
    if roomy:
        for i, (q, t) in seen.items():
            late = t - script.trig(i)
            tie = script.sends[i][0] % SEC == 0
            if late > SEC or (late == SEC and not tie):
                return ("late", "request %d sent at %d with delay %d arrived at %d: %d ns after its deadline (>= one 1 s tick) though its queue had room"
                        % (i, script.sends[i][0], script.sends[i][1], t, late))
        for q, l in obs["arr"].items():
            for a, b in zip(l, l[1:]):
                if script.trig(a[0]) > script.trig(b[0]):
                    return ("order", "queue %d: request %d (deadline %d) arrived before request %d (deadline %d)"
                            % (q, a[0], script.trig(a[0]), b[0], script.trig(b[0])))
                if a[1] > b[1]:
                    return ("order", "queue %d: arrival stamps decrease (%d then %d)" % (q, a[1], b[1]))
    return None


# ------------------------------------------------------------------ generators
def boundary_off(rng, span):
    k = rng.range(0, span - 1)
    c = rng.below(8)
    if c == 0:
        return k * SEC + 1
    if c == 1:
        return (k + 1) * SEC - 1
    if c == 2:
        return k * SEC + rng.choice([3, 17, 999, 500000001])
    return k * SEC + 1 + 2 * rng.below(SEC // 2 - 1)  # odd offset inside the period


def boundary_delay(rng, off):
    c = rng.below(10)
    if c == 0:
        return 0
    if c == 1:
        return 1
    if c == 2:
        return rng.choice([SEC - 1, SEC, SEC + 1])
    if c == 3:  # deadline exactly on a tick instant
        return (off // SEC + rng.range(1, 2)) * SEC - off
    if c == 4:  # deadline one ns before / after a tick instant
        return (off // SEC + rng.range(1, 2)) * SEC - off + rng.choice([-1, 1])
    return rng.below(2 * SEC + SEC // 2)


def gen_roomy(rng, n, nq, span, ties=0, fit=True):
    """fit: every queue is large enough for the largest number of requests released to it by one
    tick (the loop never blocks: the model's dl_roomy); otherwise sizes 1-8 with eager consumers
    (stream burst: the loop may block for zero virtual time inside a drain)."""
    caps = [(rng.range(1, 8), "e") for _ in range(nq)]
    sends = []
    offs = []
    while len(sends) < n:
        if offs and rng.chance(1, 4):
            off = rng.choice(offs)   # same goroutine issues several requests at one instant
        else:
            off = boundary_off(rng, span)
            offs.append(off)
        if sends and rng.chance(1, 4):
            j = rng.below(len(sends))     # equal deadline with an earlier request
            dl = sends[j][0] + sends[j][1]
            d = dl - off if dl >= off else boundary_delay(rng, off)
        else:
            d = boundary_delay(rng, off)
        sends.append((off, d, rng.below(nq)))
    for _ in range(ties):
        off = rng.range(1, span) * SEC
        for _ in range(rng.range(1, 2)):
            sends.append((off, rng.choice([0, 0, 1, SEC, rng.below(SEC)]), rng.below(nq)))
    # sort by (off) keeping token order inside an instant: ids follow the send order
    sends.sort(key=lambda s: s[0])
    if fit:
        burst = {}
        for (o, d, q) in sends:
            k = -(-(o + d) // SEC)
            burst[(q, k)] = burst.get((q, k), 0) + 1
            if o % SEC == 0:
                burst[(q, k + 1)] = burst.get((q, k + 1), 0) + 1
        caps = [(max([1] + [v for (qq, k), v in burst.items() if qq == q]) + rng.below(3), "e") for q in range(nq)]
    return Script(caps, sends, stream="tie" if ties else ("roomy" if fit else "burst"))


def gen_blocked(rng):
    """small scenarios with a scripted slow consumer on a small queue: the delayed loop blocks
    inside a drain; optional close; every scripted queue is closed well before the end so that
    nothing of this case can block the global loop later."""
    nq = rng.range(1, 2)
    caps = [(rng.range(1, 2), "s")] + [(rng.range(1, 4), "e") for _ in range(nq - 1)]
    n = rng.range(2, 7)
    used = set()
    sends = []
    for _ in range(n):
        off = boundary_off(rng, 2)
        while off in used:
            off += 2
        used.add(off)
        d = rng.choice([0, 1, 999, rng.below(SEC), rng.below(2 * SEC)])
        while any(off + d == o + dd for o, dd, _ in sends):   # distinct deadlines: take order is then determined
            d += 1
        sends.append((off, d, 0 if rng.chance(2, 3) else rng.below(nq)))
    sends.sort(key=lambda s: s[0])
    acts = []
    tmax = max(o + d for o, d, _ in sends) // SEC + 2
    for _ in range(rng.range(1, 6)):
        t = rng.range(1, tmax) * SEC + rng.choice([500, 250000000, 500000000, 750000002]) + 4 * rng.below(50)
        while t in used:
            t += 4
        used.add(t)
        acts.append(("K", 0, t))
    tc = (tmax + 1) * SEC + 123456
    if rng.chance(1, 3):
        tc = rng.range(1, tmax) * SEC + 600000000 + 4 * rng.below(50) + 1
        acts = [a for a in acts if a[2] < tc]
    acts.append(("C", 0, tc))
    acts.sort(key=lambda a: a[2])
    return Script(caps, sends, acts, stream="blocked")


def gen(rng, tier):
    mult = 1 if tier == "quick" else 12
    out = []
    for _ in range(40 * mult):
        out.append(gen_roomy(rng, rng.range(20, 60), rng.range(1, 4), rng.range(1, 3)))
    for _ in range(40 * mult):
        out.append(gen_roomy(rng, rng.range(20, 60), rng.range(1, 4), rng.range(1, 3), fit=False))
    for _ in range(6 * mult):
        out.append(gen_roomy(rng, rng.range(100, 400), rng.range(1, 4), rng.range(2, 3)))
    for _ in range(6 * mult):
        out.append(gen_roomy(rng, rng.range(100, 400), rng.range(1, 4), rng.range(2, 3), fit=False))
    for _ in range(40 * mult):
        out.append(gen_roomy(rng, rng.range(20, 40), rng.range(1, 3), rng.range(1, 3), ties=rng.range(1, 2)))
    for _ in range(120 * mult):
        out.append(gen_blocked(rng))
    return out


# ------------------------------------------------------------------ running
def build(chk):
    return fttaskx.build(chk)


def run_impl(chk, binary, scripts):
    return fttaskx.run(binary, [s.line() for s in scripts])


def compare(script, impl_line, model_lines0, model_lines1):
    """None or a note. impl must equal ONE of the model's allowed outcomes; both tie-order
    instances of the model must agree on the compared observables."""
    if impl_line == "SKIPPED":
        return None
    io = parse_obs(impl_line)
    if io is None or impl_line.startswith("HANG") or impl_line.startswith("CRASH"):
        return "implementation produced no log: " + impl_line[:200]
    notes = []
    matched = False
    for m0, m1 in zip(model_lines0, model_lines1):
        o0, o1 = parse_obs(m0), parse_obs(m1)
        if o0 is None or o1 is None:
            return "model failed: " + m0[:200]
        drop = o0["after"]
        c0, c1 = canon(script, o0, drop), canon(script, o1, drop)
        if c0 != c1 or o0["after"] != o1["after"]:
            return "model observables depend on the tie order of the priority queue"
        f = o0["flags"]
        if f.get("rerun") != "1" or f.get("dis") != "0" and script.stream != "blocked":
            return "model: stepwise outputs differ from dl_run, or an event was disabled: %s" % f
        if f.get("pq") != "0" or f.get("wait") != "0" or f.get("pend") != "0":
            return "model: requests still outstanding at the end of the script: %s" % f
        if script.stream == "roomy" and not (f["roomy"] == f["spaced"] == f["timely"] == f["mono"] == "1"):
            return "a real history of the room/no-tie stream does not satisfy the theorems' hypotheses: %s" % f
        if script.stream == "burst" and not (f["spaced"] == f["timely"] == f["mono"] == "1"):
            return "burst stream history violates spaced/timely/mono: %s" % f
        if script.stream == "tie" and not (f["roomy"] == f["spaced"] == f["mono"] == "1"):
            return "tie stream history violates roomy/spaced/mono: %s" % f
        ci = canon(script, io, drop)
        if ci == c0:
            # tasks handed to a closed queue may or may not arrive; if they do: at the model's time
            for q, l in io["arr"].items():
                for (i, t, z) in l:
                    if i in drop and not z:
                        pass
            matched = True
            break
        notes.append((c0, ci))
    if not matched:
        c0, ci = notes[0]
        for q in range(len(c0[0])):
            if c0[0][q] != ci[0][q]:
                k = 0
                while k < min(len(c0[0][q]), len(ci[0][q])) and c0[0][q][k] == ci[0][q][k]:
                    k += 1
                return "queue %d: arrival #%d differs: model %s impl %s (none of %d allowed outcomes matches)" % (
                    q, k, c0[0][q][k:k + 2], ci[0][q][k:k + 2], len(notes))
        return "scripted takes differ: model %s impl %s" % (c0[1], ci[1])
    return None


def process(chk, binary, scripts, record=True):
    impl = run_impl(chk, binary, scripts)
    ml0, ml1, idx = [], [], []
    for s in scripts:
        a = s.model_lines(pq=2)   # the faithful container/heap instance
        b = s.model_lines(pq=1 if len(ml0) % 2 else 0)   # a sorted-list instance (alternating tie order)
        idx.append((len(ml0), len(a)))
        ml0 += a
        ml1 += b
    mo0 = common.run_model(ml0)
    mo1 = common.run_model(ml1)
    for s, il, (st, ln) in zip(scripts, impl, idx):
        case = s.line()
        nontriv = len(s.sends) >= 2
        if record:
            chk.count_case(s.stream, case, nontriv)
            chk.cov["programs"] += 1
            chk.cov["disagreements_checked"] += 1
        note = compare(s, il, mo0[st:st + ln], mo1[st:st + ln])
        if note is not None and s.stream == "blocked" and "allowed outcomes" in note:
            # the loop was unblocked several times: one select choice per unblocking
            wa, wb = s.model_lines(pq=2, wide=True), s.model_lines(pq=0, wide=True)
            note = compare(s, il, common.run_model(wa), common.run_model(wb))
        if note is not None:
            chk.diverge(s.stream, case, mo0[st][:600], il[:600], note)
        elif record:
            chk.cov["traces_validated_against_impl"] += 1
        mf = monitor(s, il)
        if mf is not None:
            chk.monitor_fail(mf[0], case, il[:800], mf[1])
    return impl, mo0, idx


def coq_crosscheck(chk, scripts):
    """vm_compute inside coqc on the effective histories of a sample, against the extracted model."""
    lines = [s.model_lines(pq=2, dump=True)[0] for s in scripts]
    outs = common.run_model(lines)
    items = []
    for s, o in zip(scripts, outs):
        ob = parse_obs(o)
        if ob is None or not ob["hist"]:
            continue
        evs = []
        for e in ob["hist"].split(","):
            f = e.split(":")
            if f[0] == "R":
                evs.append("DlRecv (T %s %s %s)" % (f[1], f[2], f[3]))
            elif f[0] == "T":
                evs.append("DlTick %s" % f[1])
            elif f[0] == "K":
                evs.append("DlTake %s %s" % (f[1], f[2]))
            else:
                evs.append("DlClose %s %s" % (f[1], f[2]))
        exp = []
        order = []
        for t in o.split():
            if t.startswith("A:"):
                f = t.split(":")
                order.append("(%s,%s,%s)" % (f[1], f[2], f[3]))
        caps = ";".join("(%d, %d%%nat)" % (i, c) for i, (c, m) in enumerate(s.caps))
        items.append("([%s], [%s], [%s])" % (caps, ";".join(evs), ";".join(order)))
    if not items:
        return 0
    body = """From Got Require Import Base Delayed.
Local Open Scope Z_scope.
Definition T i t q := {| dl_id := i; dl_trig := t; dl_q := q |}.
Definition got_of (o : dl_out) := match o with DlGot q t a => [(q, dl_id t, a)] | _ => [] end.
Fixpoint eqb3 (a b : list (Z * Z * Z)) : bool :=
  match a, b with
  | [], [] => true
  | (x1, y1, z1) :: a', (x2, y2, z2) :: b' => (x1 =? x2) && (y1 =? y2) && (z1 =? z2) && eqb3 a' b'
  | _, _ => false end.
Definition ok (c : list (Z * nat) * list dl_event * list (Z * Z * Z)) : bool :=
  match c with (caps, h, e) =>
    match dl_run dl_heap_pq (dl_init dl_heap_pq caps) h with Some (_, o) => eqb3 (flat_map got_of o) e | None => false end end.
Definition cases := [%s].
Definition bad := Eval vm_compute in length (filter (fun c => negb (ok c)) cases).
Print bad.
""" % ";\n".join(items)
    out = common.run_coq_eval(body)
    if "bad = 0%nat" not in out.replace("\n", " "):
        chk.diverge("vm_compute-vs-extraction", "sample of %d cases" % len(items), out[-300:], "", "extracted OCaml model disagrees with vm_compute")
    return len(items)


def corpus_scripts():
    out = []
    for c in pure.corpus_cases("C10"):
        if c.startswith("c10 "):
            s = Script.parse(c)
            s.stream = "blocked" if any(m == "s" for _, m in s.caps) else ("tie-corpus" if s.tie_groups() else "burst")
            out.append(s)
    return out


def storm_stream(chk, binary):
    """Monitor-only: many goroutines calling SendDelayed exactly while the scheduler handles a tick (cmd/fttaskx
    c10storm; virtual clock, GOMAXPROCS=2 so that senders and scheduler run in parallel): exactly once, never early,
    less than one tick late. One process per case (each starts from a fresh global delayed queue)."""
    quick = chk.tier == "quick"
    cfgs = [(4, 400, 300), (2, 1500, 50), (8, 150, 1000)] if quick else [(4, 400, 300), (2, 1500, 50), (8, 150, 1000), (4, 3000, 2000), (16, 200, 4000), (3, 1000, 1)] * 3
    for n, m, p in cfgs:
        case = "c10storm senders=%d per=%d pre=%d" % (n, m, p)
        try:
            out = common.run_impl(binary, [case], env=fttaskx.ENV, timeout=300)[0]
        except common.ImplCrash as e:
            chk.monitor_fail("storm-crash", case, str(e)[-600:], "the delayed queue crashed or hung under concurrent SendDelayed calls")
            continue
        chk.count_case("concurrent-sends-during-tick", case, True)
        chk.cov["programs"] += 1
        mo = re.match(r"total=(\d+) lost=(\d+) dup=(\d+) early=(\d+) late=(\d+) first=(-?\d+)$", out)
        if not mo:
            chk.monitor_fail("storm-crash", case, out[:600], "no result from the storm scenario")
            continue
        total, lost, dup, early, late, first = map(int, mo.groups())
        chk.sample(dict(stream="concurrent-sends-during-tick", case=case, impl=out), limit=10)
        if lost or dup:
            chk.monitor_fail("exactly-once", case, out, "of %d requests sent by concurrent goroutines around a tick, %d were never placed on their queue and %d were placed more than once (first: request %d)" % (total, lost, dup, first))
        elif early:
            chk.monitor_fail("early", case, out, "%d of %d requests were placed before their delay had elapsed" % (early, total))
        elif late:
            chk.monitor_fail("late", case, out, "%d of %d requests were placed a full tick or more after their deadline although the target had room" % (late, total))
        else:
            chk.cov["traces_validated_against_impl"] += 1


def realtime_order_stream(chk):
    """Deadlines are fixed by the SendDelayed call, not when the scheduler goroutine sees the request: real clock, one P, a
    sender that does not yield between a 3 ms request and (5 ms later) a 0 ms request to the same queue (c10rt.go). Monitor
    only; a round whose timing precondition failed is not counted, a round not released within 2.5 s of real time is recorded as inconclusive (lateness is decided on the virtual clock)."""
    try:
        binary = common.build_go("./cmd/fttaskx", tags="verif", out_name="fttaskx-rt")
    except common.BuildError as e:
        chk.infra_errors.append("fttaskx (real clock) does not build: " + str(e)[-800:])
        return
    case = "c10rt rounds=%d" % (3 if chk.tier == "quick" else 12)
    try:
        out = common.run_impl(binary, [case], timeout=120)[0]
    except common.ImplCrash as e:
        chk.monitor_fail("crash", case, str(e)[-300:], "real-clock order scenario did not finish: " + str(e)[-200:])
        return
    chk.count_case("deadline-fixed-at-send(real-clock,one-P)", case, True)
    m = re.match(r"rounds=(\d+) misordered=(\d+) first=(\S+) late=(\d+)$", out)
    chk.cov["realtime_order_rounds_counted"] = int(m.group(1)) if m else 0
    if not m:
        chk.monitor_fail("crash", case, out[:300], "real-clock order scenario gave no result")
    elif int(m.group(2)) > 0:
        chk.monitor_fail("order", case, out, "%s of %s rounds: A (delay 3 ms) was sent, the sender stayed busy 5 ms without yielding, then B (delay 0) was sent to "
                         "the same queue: deadline(A) < deadline(B), released in order %s" % (m.group(2), m.group(1), m.group(3)))
    elif int(m.group(4)) > 0:
        # real time on a loaded machine: lateness is decided on the virtual clock by the other streams, not here
        chk.cov["realtime_order_rounds_not_released_within_2.5s(inconclusive)"] = int(m.group(4))
    chk.sample(dict(stream="deadline-fixed-at-send(real-clock,one-P)", case=case, impl=out), limit=9)


def late_stream(chk, binary):
    """Monitor-only, virtual clock with ONE P (deterministic): a task handed over at a tick instant BEFORE the scheduler
    goroutine has handled that tick (witness: a task due at that very tick has not been placed yet) must be released by
    that tick (DelayedInbox.v: sent before the tick is handled => received before it); trials in which the scheduler
    ran first are inconclusive and not counted."""
    case = "c10pre trials=%d" % (40 if chk.tier == "quick" else 400)
    try:
        out = common.run_impl(binary, [case], env=dict(os.environ, GOMAXPROCS="1"), timeout=300)[0]
    except common.ImplCrash as e:
        chk.monitor_fail("late-crash", case, str(e)[-400:], "the hand-over-before-tick scenario crashed or hung")
        return
    mo = re.match(r"conclusive=(\d+) postponed=(\d+) first=(-?\d+) pairs=(\d+) alone_postponed=(\d+) burst=(\d+) burst_postponed=(\d+)$", out)
    if not mo:
        chk.monitor_fail("late-crash", case, out[:300], "no result from the hand-over-before-tick scenario")
        return
    conclusive, postponed, first, pairs, alone, burst, burstp = map(int, mo.groups())
    chk.count_case("handed-over-before-the-tick-is-handled", case, conclusive > 0)
    chk.cov["handed_over_before_tick"] = dict(conclusive=conclusive, postponed=postponed, pairs=pairs, alone_postponed=alone,
                                              burst=burst, burst_postponed=burstp)
    chk.sample(dict(stream="handed-over-before-the-tick-is-handled", case=case, impl=out), limit=10)
    if postponed:
        chk.monitor_fail("late", case, out,
                         "%d of %d tasks handed to SendDelayed (delay 0) at a tick instant, BEFORE the scheduler had handled that tick (a task due "
                         "at that tick had not been placed yet), were postponed to the next tick: placed %d ns after their deadline, not less than one tick (1 s)"
                         % (postponed, conclusive, first))
    elif pairs >= 4 and alone == pairs:
        # the same wake-up configurations without the witness: the request is the only outstanding one (empty heap when
        # the tick is handled). All of them postponed although every configuration handed over before the tick when the
        # witness was there: the wake-up order does not depend on the witness (it creates no timer).
        chk.monitor_fail("late", case, out,
                         "in all %d wake-up configurations in which the hand-over precedes the handling of the tick (shown by the run with a witness task), "
                         "the same delay-0 request sent as the ONLY outstanding one was placed a whole tick (1 s) after its deadline" % pairs)
    elif burst >= 129 and burstp:
        chk.monitor_fail("late", case, out,
                         "%d delay-0 requests were started back to back at a tick instant before the scheduler had handled that tick (more than the 128 the "
                         "hand-over channel buffers); %d of them were placed a whole tick (1 s) after their deadline" % (burst, burstp))


def run(chk):
    chk.trusted = common.BASE_TRUSTED + [
        "Go faketime runtime (playground clock) as the source of virtual time; harness/cmd/fttaskx",
        "modelled, not verified: the loop's select/ticker/channel semantics (a tick or request is taken only when the loop is at its select; "
        "ticker channel capacity 1; time.Now() read after the tick is taken), SendCallback on a full target blocks the loop, on a closed target returns at once",
        "priority queue: abstract interface (multiset-preserving push/pop, pop returns a minimal trigger time, ties arbitrary); the extracted model runs the "
        "container/heap instance (coq/lib/Heap.v, laws proved: delayed_container_heap_pq_ok) and, for comparison, sorted-list instances with both tie orders; "
        "Heap.v itself is compared with the real std.PriorityQueue on random Push/Pop/Top sequences in this check (stream heap-vs-std.PriorityQueue)",
    ]
    chk.assumptions = ["delay >= 0", "target queues have room (the property's proviso) for the lateness bound", "ticker period 1 s exact under faketime"]
    chk.cov["rule"] = ("case = timed script of 2..400 SendDelayed calls (send instant, delay, target queue) on 1-4 queues of size 1-8 against the real "
                       "global delayed queue: streams roomy (eager consumers, odd-ns phases, boundary delays 0/1/1s+-1, equal deadlines), tie (sends at exact "
                       "tick instants, compared against the allowed set of orders), blocked (scripted slow consumer, full and closed targets); "
                       "non-trivial = at least 2 requests; distinct = distinct script")
    chk.run_proof_gate(PROOFS)
    binary = build(chk)
    if binary:
        scripts = corpus_scripts() + gen(chk.rng, chk.tier)
        try:
            impl, mo, idx = process(chk, binary, scripts)
            seen = set()
            for s, il, (st, ln) in zip(scripts, impl, idx):
                if s.stream not in seen:
                    seen.add(s.stream)
                    chk.sample(dict(stream=s.stream, case=s.line()[:500], model=mo[st][:400], impl=il[:400]), limit=8)
            chk.cov["requests_total"] = sum(len(s.sends) for s in scripts)
            chk.cov["max_requests_in_a_case"] = max(len(s.sends) for s in scripts)
            chk.cov["cases_with_equal_deadlines"] = sum(1 for s in scripts if len(set(s.trig(i) for i in range(len(s.sends)))) < len(s.sends))
            chk.cov["cases_with_zero_delay"] = sum(1 for s in scripts if any(d == 0 for _, d, _ in s.sends))
            chk.cov["cases_loop_blocked"] = sum(1 for s, (st, ln) in zip(scripts, idx) if "roomy=0" in mo[st])
        except Exception as ex:
            chk.infra_errors.append("correspondence run failed: %r" % (ex,))
        try:
            storm_stream(chk, binary)
            late_stream(chk, binary)
            realtime_order_stream(chk)
        except Exception as ex:
            chk.infra_errors.append("storm stream failed: %r" % (ex,))
        try:
            from . import heapdiff
            pb = pure.build_pure(chk)
            if pb:
                heapdiff.run(chk, pb, which=("heap",), with_monitor=True)
        except Exception as ex:
            chk.infra_errors.append("heap differential stream failed: %r" % (ex,))
        try:
            small = [s for s in scripts if len(s.sends) <= 40][:120]
            chk.cov["vm_compute_crosschecked"] = coq_crosscheck(chk, small)
        except Exception as ex:
            chk.infra_errors.append("vm_compute cross-check failed: %r" % (ex,))
    chk.finish(search=search)


def search(chk):
    binary = build(chk)
    if not binary:
        return
    scripts = corpus_scripts() + gen(chk.rng.fork(), "thorough")[:1500]
    impl = run_impl(chk, binary, scripts)
    for s, il in zip(scripts, impl):
        mf = monitor(s, il)
        if mf:
            chk.monitor_fail(mf[0], s.line(), il[:800], mf[1])


def replay(chk, path):
    rep = json.load(open(path))
    binary = build(chk)
    cases = [x["case"] for x in rep.get("failing_inputs", []) + rep.get("divergences", [])
             if isinstance(x.get("case"), str) and x["case"].startswith("c10 ")]
    bad = 0
    for c in cases:
        s = Script.parse(c)
        s.stream = "blocked" if any(m == "s" for _, m in s.caps) else ("tie-corpus" if s.tie_groups() else "burst")
        il = run_impl(chk, binary, [s])[0]
        m0 = common.run_model(s.model_lines(2))
        m1 = common.run_model(s.model_lines(0))
        mf = monitor(s, il)
        note = compare(s, il, m0, m1)
        if note is not None and s.stream == "blocked" and "allowed outcomes" in note:
            note = compare(s, il, common.run_model(s.model_lines(2, wide=True)), common.run_model(s.model_lines(0, wide=True)))
        print("case=%s\n  model=%s\n  impl=%s\n  monitor=%s compare=%s" % (c[:600], m0[0][:600], il[:600], mf, note))
        if mf or note:
            bad += 1
    print("replayed %d case(s), %d still failing" % (len(cases), bad))
    raise SystemExit(1 if bad else 0)
