# mxgen -- generator of the harness-private copy of sync.Mutex's Lock/lockSlow/Unlock/unlockSlow
# (C17, stream "mutex-stepped"). On every run it reads the mutex source of the Go toolchain in use
# ($GOROOT/src/sync/mutex.go up to Go 1.23, $GOROOT/src/internal/sync/mutex.go in newer toolchains)
# and emits the const block, the struct and the four methods verbatim, with ONLY these token
# substitutions (nothing is re-ordered, nothing is rewritten by hand):
#
#   Mutex                                  -> vxMutex            (type name; the methods stay methods)
#   atomic.CompareAndSwapInt32(            -> vxCAS(<site>,      (args unchanged: &m.state, old, new)
#   atomic.AddInt32(                       -> vxAdd(<site>,
#   atomic.LoadInt32(                      -> vxLoadA(<site>,
#   m.state   (plain read, no & in front)  -> vxLoad(<site>, &m.state)
#   runtime_SemacquireMutex(               -> vxSemacquire(<site>,
#   runtime_Semrelease(                    -> vxSemrelease(<site>,
#   runtime_canSpin( runtime_doSpin( runtime_nanotime(  -> vxCanSpin( vxDoSpin( vxNanotime(
#   throw( fatal(                          -> vxThrow( vxFatal(
#   race.                                  -> vxRace.            (vxRace.Enabled = false)
#
# <site> is the yield-site constant of the access, assigned by (function, kind of access, textual
# occurrence index); the table SITES below is the whole knowledge about the shape of the source. If
# the accesses found are not exactly the ones of the table the source is "not recognised": no file
# is produced and the check records a note (a toolchain difference is not a defect of lixianmin/got).
# The shims (harness/cmd/mxstep/shim.go) yield BEFORE the access and then perform the real atomic
# operation on the address they are given.
import hashlib
import os
import re
import subprocess

FUNCS = ["Lock", "lockSlow", "Unlock", "unlockSlow"]

# pc names (shared with harness/cmd/mxstep/shim.go: site id = 100 + index) -- the names of the
# model's program counters (MutexWord.v mx_pc) without the X
PCS = ["LFast", "LLoad", "LSpin", "LCas", "LSleep", "LWoke", "LHand", "U1", "USlow", "ULoad", "URel", "URace"]
SITE_BASE = 100

# (function, kind, occurrence index in the function's text) -> pc
SITES = {
    ("Lock", "cas", 0): "LFast",
    ("lockSlow", "load", 0): "LLoad",     # old := m.state
    ("lockSlow", "cas", 0): "LSpin",      # spin branch: CAS(old, old|mutexWoken)
    ("lockSlow", "load", 1): "LLoad",     # spin branch: old = m.state
    ("lockSlow", "cas", 1): "LCas",       # CAS(old, new)
    ("lockSlow", "acq", 0): "LSleep",     # runtime_SemacquireMutex
    ("lockSlow", "load", 2): "LWoke",     # after the wake-up: old = m.state
    ("lockSlow", "add", 0): "LHand",      # hand-off AddInt32(delta)
    ("lockSlow", "load", 3): "LLoad",     # CAS failed: old = m.state
    ("Unlock", "add", 0): "U1",
    ("unlockSlow", "cas", 0): "USlow",
    ("unlockSlow", "rel", 0): "URel",     # normal mode Semrelease(handoff=false)
    ("unlockSlow", "load", 0): "ULoad",   # CAS failed: old = m.state
    ("unlockSlow", "rel", 1): "URel",     # starvation mode Semrelease(handoff=true)
}
OPTIONAL = {("Unlock", "load", 0): "URace"}   # "_ = m.state" under race.Enabled (dead code here)

# sha256 of the normalised text (comments and blank lines removed) of const block + struct + the four
# functions, for toolchains whose output was read by a human against MutexWord.v
KNOWN = {
    "go1.23.5": None,
    "go1.26.8": None,
}


class NotRecognised(Exception):
    info = None   # file / sha256 of the source that was looked at, when there was one


def strip_comments(src):
    """remove // and /* */ comments; string, raw-string and rune literals are respected"""
    out = []
    i, n = 0, len(src)
    while i < n:
        c = src[i]
        if c == '"' or c == "'":
            j = i + 1
            while j < n and src[j] != c:
                j += 2 if src[j] == "\\" else 1
            out.append(src[i:j + 1])
            i = j + 1
        elif c == "`":
            j = src.index("`", i + 1)
            out.append(src[i:j + 1])
            i = j + 1
        elif src.startswith("//", i):
            j = src.find("\n", i)
            i = n if j < 0 else j
        elif src.startswith("/*", i):
            j = src.find("*/", i + 2)
            i = n if j < 0 else j + 2
        else:
            out.append(c)
            i += 1
    text = "".join(out)
    return "\n".join(l.rstrip() for l in text.split("\n") if l.strip()) + "\n"


def balanced(src, start, open_ch, close_ch):
    """index just after the bracket that closes the first open_ch at or after start (no comments in src)"""
    i = src.index(open_ch, start)
    depth = 0
    n = len(src)
    while i < n:
        c = src[i]
        if c in "\"'`":
            j = i + 1
            while j < n and src[j] != c:
                j += 2 if (src[j] == "\\" and c != "`") else 1
            i = j + 1
            continue
        if c == open_ch:
            depth += 1
        elif c == close_ch:
            depth -= 1
            if depth == 0:
                return i + 1
        i += 1
    raise NotRecognised("unbalanced %s%s" % (open_ch, close_ch))


def extract(src):
    """-> dict name -> text for 'const', 'type', and the four methods"""
    parts = {}
    m = re.search(r"^const \(\n(?=[^)]*\bmutexLocked\b)", src, re.M)
    if not m:
        raise NotRecognised("const block with mutexLocked not found")
    parts["const"] = src[m.start():balanced(src, m.start(), "(", ")")]
    m = re.search(r"^type Mutex struct \{", src, re.M)
    if not m:
        raise NotRecognised("type Mutex struct not found")
    parts["type"] = src[m.start():balanced(src, m.start(), "{", "}")]
    for f in FUNCS:
        m = re.search(r"^func \(m \*Mutex\) %s\(" % f, src, re.M)
        if not m:
            raise NotRecognised("method %s not found" % f)
        hdr_end = src.index("{", balanced(src, m.end() - 1, "(", ")") - 1)
        parts[f] = src[m.start():balanced(src, hdr_end, "{", "}")]
    return parts


TOKEN = re.compile(
    r"atomic\.CompareAndSwapInt32\(|atomic\.AddInt32\(|atomic\.LoadInt32\(|"
    r"runtime_SemacquireMutex\(|runtime_Semrelease\(|(?<![&\w.])m\.state\b")
KIND = {"atomic.CompareAndSwapInt32(": ("cas", "vxCAS("), "atomic.AddInt32(": ("add", "vxAdd("),
        "atomic.LoadInt32(": ("load", "vxLoadA("), "runtime_SemacquireMutex(": ("acq", "vxSemacquire("),
        "runtime_Semrelease(": ("rel", "vxSemrelease("), "m.state": ("load", None)}
PLAIN = [(r"\bruntime_canSpin\(", "vxCanSpin("), (r"\bruntime_doSpin\(", "vxDoSpin("), (r"\bruntime_nanotime\(", "vxNanotime("),
         (r"(?<![\w.])throw\(", "vxThrow("), (r"(?<![\w.])fatal\(", "vxFatal("), (r"(?<![\w.])race\.", "vxRace."),
         (r"\bMutex\b", "vxMutex")]


def transform_func(name, text, found):
    cnt = {}

    def sub(m):
        kind, repl = KIND[m.group(0)]
        k = cnt.get(kind, 0)
        cnt[kind] = k + 1
        key = (name, kind, k)
        pc = SITES.get(key) or OPTIONAL.get(key)
        if pc is None:
            raise NotRecognised("unexpected access %s #%d (%s) in %s" % (kind, k, m.group(0), name))
        found.add(key)
        site = "vxSite" + pc
        if repl is None:
            return "vxLoad(%s, &m.state)" % site
        return repl + site + ", "
    text = TOKEN.sub(sub, text)
    for pat, rep in PLAIN:
        text = re.sub(pat, rep, text)
    if re.search(r"\bruntime_\w+|\batomic\.|\bsync\.|\bisync\.", text):
        raise NotRecognised("untranslated reference left in %s: %s" % (name, re.search(r"\bruntime_\w+|\batomic\.\w+|\bi?sync\.\w+", text).group(0)))
    return text


def goroot(env=None):
    p = subprocess.run(["go", "env", "GOROOT", "GOVERSION"], stdout=subprocess.PIPE, stderr=subprocess.PIPE, text=True, env=env)
    if p.returncode != 0:
        raise NotRecognised("go env failed: " + p.stderr[-200:])
    l = p.stdout.split("\n")
    return l[0].strip(), (l[1].strip() if len(l) > 1 else "?")


def locate(root):
    """the file that holds the implementation of Mutex.lockSlow in this toolchain"""
    for rel in ("src/internal/sync/mutex.go", "src/sync/mutex.go"):
        p = os.path.join(root, rel)
        if os.path.exists(p) and re.search(r"^func \(m \*Mutex\) lockSlow\(", open(p).read(), re.M):
            return p
    raise NotRecognised("no mutex.go with (*Mutex).lockSlow under %s/src/sync or src/internal/sync" % root)


def generate(env=None, root=None):
    """-> (go source text, info dict). Raises NotRecognised."""
    if root is None:
        root, version = goroot(env)
    else:
        version = "?"
    path = locate(root)
    raw = open(path, "rb").read()
    info = dict(file=path, sha256=hashlib.sha256(raw).hexdigest(), goversion=version)
    try:
        return _generate(raw, path, version, info)
    except NotRecognised as e:
        e.info = info
        raise


def _generate(raw, path, version, info):
    src = strip_comments(raw.decode("utf-8"))
    parts = extract(src)
    consts = parts["const"]
    for name, val in (("mutexLocked", "1 << iota"), ("mutexWoken", None), ("mutexStarving", None), ("mutexWaiterShift", "iota")):
        if not re.search(r"^\s*%s\b" % name, consts, re.M):
            raise NotRecognised("constant %s missing" % name)
    if not re.search(r"^type Mutex struct \{\s*state\s+int32\s*\n\s*sema\s+uint32\s*\}", parts["type"]):
        raise NotRecognised("Mutex is not struct{state int32; sema uint32}")
    found = set()
    body = [consts, re.sub(r"\bMutex\b", "vxMutex", parts["type"])]
    for f in FUNCS:
        body.append(transform_func(f, parts[f], found))
    missing = set(SITES) - found
    if missing:
        raise NotRecognised("accesses of the known shape not found: %s" % sorted(missing))
    norm = "\n".join([parts["const"], parts["type"]] + [parts[f] for f in FUNCS])
    info["functions_sha256"] = hashlib.sha256(norm.encode()).hexdigest()
    info["sites"] = len(found)
    header = ("//go:build mxgen\n\n"
              "// Code generated by vlib/mxgen.py from %s (sha256 %s, %s); DO NOT EDIT, DO NOT COMMIT.\n"
              "// Verbatim copy of the const block, the struct and Lock/lockSlow/Unlock/unlockSlow with token substitutions only.\n"
              "package main\n\nimport \"unsafe\"\n\nvar _ = unsafe.Pointer(nil)\n\nconst vxGenerated = true\n\n" % (path, info["sha256"], version))
    return header + "\n".join(body), info


if __name__ == "__main__":
    import sys
    try:
        text, info = generate(root=sys.argv[1] if len(sys.argv) > 1 else None)
    except NotRecognised as e:
        print("NOT RECOGNISED:", e)
        raise SystemExit(3)
    sys.stderr.write(repr(info) + "\n")
    print(text)
