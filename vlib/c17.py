# C17 -- loom atomics: Flag.AddFlag/RemoveFlag/HasFlag, AddIf64, Mutex.TryLock, Mutex.Count.
# Models: coq/models/Atomics.v, coq/models/MutexWord.v ; theorems: coq/props/C17.v
# Vehicle: cooperative scheduler over the verif yield points (DESIGN.md 4.2) for Flag/AddIf64/
# TryLock, direct calls for Count, a short real-concurrency stress (monitor only) for exclusion.
import itertools
import json
import re

from . import common
from . import pure
from . import c17k
from . import c17mx

PROOFS = ["proofs/AtomicsProofs.v", "proofs/MutexWordProofs.v", "proofs/MutexExclProofs.v", "proofs/MutexAcctProofs.v",
          "models/Atomics.v", "models/MutexWord.v", "models/MutexObs.v", "proofs/MutexObsProofs.v"]

M64 = 1 << 64
MIN64 = -(1 << 63)
MAX64 = (1 << 63) - 1


def s64(x):
    return ((x + (1 << 63)) % M64) - (1 << 63)


def bit(b):
    return s64(1 << b)


def build_coop(chk):
    try:
        return common.build_go("./cmd/coop", tags="verif")
    except common.BuildError as e:
        chk.infra_errors.append("coop harness does not build against /repo working tree: " + str(e)[-1500:])
        return None


# ------------------------------------------------------------------ case construction
def prog_str(progs):
    return ";".join(".".join(p) for p in progs)


def case_a(init, progs, sched):
    return "c17a init=%d progs=%s sched=%s" % (init, prog_str(progs), ",".join(map(str, sched)))


def enum_schedules(init, progs, mode, mx):
    line = "c17enum mode=%s max=%d init=%d progs=%s" % (mode, mx, init, prog_str(progs))
    out = common.run_model([line])[0]
    m = re.match(r"states=(\d+) scheds=(.*)$", out)
    if not m:
        raise RuntimeError("c17enum failed: " + out[:200])
    return int(m.group(1)), [[int(x) for x in s.split(",")] for s in m.group(2).split(";") if s]


def enum_many(items, mode, mx):
    """items: [(init, progs)] -> [(init, progs, nstates, scheds)] with one model call."""
    lines = ["c17enum mode=%s max=%d init=%d progs=%s" % (mode, mx, i, prog_str(p)) for i, p in items]
    outs = common.run_model(lines) if lines else []
    res = []
    for (i, p), out in zip(items, outs):
        m = re.match(r"states=(\d+) scheds=(.*)$", out)
        if not m:
            raise RuntimeError("c17enum failed: " + out[:200])
        res.append((i, p, int(m.group(1)), [[int(x) for x in s.split(",")] for s in m.group(2).split(";") if s]))
    return res


def random_schedule(rng, nthreads, length):
    sched = []
    prio = list(range(nthreads))
    rng.shuffle(prio)
    while len(sched) < length:
        burst = rng.choice([1, 1, 1, 2, 2, 3, 5])
        t = prio[0] if rng.chance(1, 2) else rng.choice(prio)
        sched += [t] * burst
        if rng.chance(1, 3):
            rng.shuffle(prio)
    return sched[:length]


def rand_mask(rng):
    k = rng.below(6)
    if k == 0:
        return bit(rng.below(64))
    if k == 1:
        return bit(63)
    if k == 2:
        return s64(bit(rng.below(64)) | bit(rng.below(64)))
    if k == 3:
        return rng.choice([0, -1, MAX64, MIN64, 0xFF, s64(0xFFFFFFFF00000000)])
    if k == 4:
        return rng.choice([1, 2, 3, 4, 6])
    return s64(rng.next())


def rand_flag_op(rng, masks=None):
    m = rng.choice(masks) if masks else rand_mask(rng)
    return rng.choice(["A", "A", "R", "R", "H"]) + str(m)


def rand_if_op(rng, near=None):
    kind = rng.choice([0, 0, 0, 1, 2, 3, 4, 5])
    if near is None:
        delta = rng.choice([-3, -2, -1, 1, 1, 2, 3, 5])
        limit = rng.range(-4, 12)
    else:
        delta = rng.choice([-3, -1, 1, 2, 3, MAX64, MIN64])
        limit = s64(near + rng.range(-3, 3))
    return "I%d:%d:%d" % (kind, delta, limit)


def words40():
    return [(n << 3) | f for n in range(5) for f in range(8)]


# ------------------------------------------------------------------ generators
def gen(chk, tier):
    rng = chk.rng
    quick = tier == "quick"
    streams = []
    nst = 0

    # (a) every interleaving of 2 threads x 1-2 ops: flag ops on overlapping / disjoint masks
    items = []
    small_masks = [1, 3, 6, bit(63), -1]
    ops1 = ["A1", "R1", "H1", "A3", "R6", "A%d" % bit(63), "R%d" % bit(63), "R-1"]
    for a, b in itertools.product(ops1, repeat=2):
        for init in (0, 7, bit(63) | 1):
            items.append((init, [[a], [b]]))
    for _ in range(20 if quick else 200):
        items.append((rng.choice([0, 5, -1, bit(63)]),
                      [[rand_flag_op(rng, small_masks) for _ in range(rng.range(1, 2))] for _ in range(2)]))
    ex = []
    for init, progs, _, scheds in enum_many(items, "all", 400 if quick else 20000):
        ex += [case_a(init, progs, s) for s in scheds]
    streams.append(("flag-exhaustive-2thr", ex))

    # (b) all 64 bit positions: Add(b) || Remove(b'), Add(b) || Add(b'), every interleaving of 2x1
    items = []
    for b in range(64):
        b2 = (b * 7 + 3) % 64
        items.append((0, [["A%d" % bit(b)], ["A%d" % bit(b2)]]))
        items.append((-1, [["R%d" % bit(b)], ["R%d" % bit(b2)]]))
        items.append((bit(b2), [["A%d" % bit(b), "H%d" % bit(b)], ["R%d" % bit(b2)]]))
        items.append((rng.choice([0, -1]), [["A%d" % bit(b)], ["R%d" % bit(b)]]))
    bits = []
    for init, progs, _, scheds in enum_many(items, "all", 60 if quick else 2000):
        if quick:
            scheds = scheds[:12] if len(scheds) <= 12 else [scheds[i] for i in range(0, len(scheds), max(1, len(scheds) // 12))]
        bits += [case_a(init, progs, s) for s in scheds]
    streams.append(("flag-all-64-bits", bits))

    # (c) AddIf64 cube: two threads, all interleavings, every (init, delta, limit) in a small cube
    items = []
    rng_i = range(-2, 4) if quick else range(-3, 6)
    for init in rng_i:
        for delta in (-2, -1, 1, 2, 3):
            for limit in (range(-1, 5) if quick else range(-3, 8)):
                kind = 0 if delta > 0 else 2
                items.append((init, [["I%d:%d:%d" % (kind, delta, limit)], ["I%d:%d:%d" % (kind, delta, limit)]]))
    # near int64 overflow: the Go predicate old+delta wraps
    for init in (MAX64, MAX64 - 1, MAX64 - 3, MIN64, MIN64 + 2):
        for delta in (1, 2, 3, -1, -3, MAX64, MIN64):
            for limit in (MAX64, MAX64 - 1, MIN64, MIN64 + 1, 0):
                for kind in (0, 2, 3):
                    items.append((init, [["I%d:%d:%d" % (kind, delta, limit)], ["I%d:%d:%d" % (rng.choice([0, 1, 2, 3, 5]), rng.choice([1, -1, 2]), limit)]]))
    cube = []
    for init, progs, _, scheds in enum_many(items, "all", 40 if quick else 400):
        if quick and len(scheds) > 6:
            scheds = [scheds[i] for i in range(0, len(scheds), len(scheds) // 6)]
        cube += [case_a(init, progs, s) for s in scheds]
    streams.append(("addif-cube-2thr", cube))
    # 2 threads x 2 ops mixed predicates, all interleavings
    items = []
    for _ in range(12 if quick else 150):
        near = rng.choice([None, None, MAX64, MIN64])
        init = rng.range(-3, 6) if near is None else s64(near + rng.range(-2, 2))
        items.append((init, [[rand_if_op(rng, near) for _ in range(rng.range(1, 2))] for _ in range(2)]))
    ex2 = []
    for init, progs, _, scheds in enum_many(items, "all", 300 if quick else 20000):
        ex2 += [case_a(init, progs, s) for s in scheds]
    streams.append(("addif-exhaustive-2thr", ex2))

    # (d) 3 threads: one schedule per (reachable model state, enabled thread) edge
    items = []
    for _ in range(14 if quick else 120):
        kind = rng.below(3)
        if kind == 0:
            progs = [[rand_flag_op(rng, [1, 2, 3, bit(63), bit(62) | 1]) for _ in range(rng.range(1, 2))] for _ in range(3)]
            init = rng.choice([0, 3, -1])
        elif kind == 1:
            progs = [[rand_if_op(rng) for _ in range(rng.range(1, 2))] for _ in range(3)]
            init = rng.range(-2, 6)
        else:  # mixed on one word
            progs = [[rng.choice([rand_flag_op(rng, [1, 4, 8]), rand_if_op(rng)]) for _ in range(rng.range(1, 2))] for _ in range(3)]
            init = rng.range(0, 9)
        items.append((init, progs))
    ed = []
    for init, progs, n, scheds in enum_many(items, "edges", 1200 if quick else 30000):
        nst += n
        ed += [case_a(init, progs, s) for s in scheds]
    streams.append(("state-edge-cover-3thr", ed))

    # (e) 4 threads, random bursty schedules
    rd = []
    for _ in range(400 if quick else 12000):
        kind = rng.below(3)
        nops = rng.range(1, 3)
        if kind == 0:
            masks = [rand_mask(rng) for _ in range(3)] + [1, bit(63)]
            progs = [[rand_flag_op(rng, masks) for _ in range(nops)] for _ in range(4)]
            init = rand_mask(rng)
        elif kind == 1:
            near = rng.choice([None, None, None, MAX64, MIN64])
            progs = [[rand_if_op(rng, near) for _ in range(nops)] for _ in range(4)]
            init = rng.range(-3, 8) if near is None else s64(near + rng.range(-2, 2))
        else:
            limit = rng.range(2, 9)
            progs = [["I0:%d:%d" % (rng.choice([1, 1, 2, 3]), limit) for _ in range(nops)] for _ in range(4)]
            init = rng.range(-2, limit)
        total = sum(len(p) for p in progs)
        rd.append(case_a(init, progs, random_schedule(rng, 4, rng.range(4, 5 * total))))
    streams.append(("random-4thr", rd))
    chk.cov["states"] = nst

    # (f) TryLock against harness-constructed words at each of the three accesses
    ws = words40()
    tl = []
    if quick:
        for w1 in ws:
            for w2 in ws:
                w3s = set([w2, w2 | 1, w2 + 8, w2 ^ 2, w2 ^ 4, 0, rng.choice(ws), rng.choice(ws)])
                tl += ["c17t w=%d,%d,%d" % (w1, w2, w3) for w3 in sorted(w3s)]
    else:
        tl = ["c17t w=%d,%d,%d" % (a, b, c) for a in ws for b in ws for c in ws]
    big = [(1 << 31) - 8, (1 << 31) - 1, 1 << 30, (12345 << 3), (12345 << 3) | 1]
    for a in big + [0]:
        for b in big + [0, 8]:
            for c in big + [0, 8]:
                tl.append("c17t w=%d,%d,%d" % (a, b, c))
    streams.append(("trylock-words", tl))

    # (g) Count against every word
    cw = set(ws) | set(big)
    for n in range(0, 70):
        for f in range(8):
            cw.add((n << 3) | f)
    for _ in range(300 if quick else 20000):
        cw.add(rng.below(1 << 31))
    streams.append(("count-words", ["c17c w=%d" % w for w in sorted(cw)] + ["c17n"]))
    # (h) Count / IsLocked / IsWoken / IsStarving as stepped calls (word rewritten before every load)
    streams += c17k.gen(chk, tier, list(ws) + [1 << 30, (1 << 31) - 1, 10, 9, 17])
    return streams


def gen_stress(chk, tier):
    if tier == "quick":
        return ["c17s n=8 iters=150 hold=60 try=25", "c17s n=4 iters=300 hold=0 try=50", "c17s n=16 iters=60 hold=40 try=10"]
    return ["c17s n=%d iters=%d hold=%d try=%d" % (n, it, h, t)
            for n, it, h, t in [(8, 400, 60, 25), (4, 3000, 0, 50), (16, 200, 40, 10), (32, 100, 50, 30), (2, 5000, 0, 70),
                                (8, 400, 30, 0), (12, 300, 45, 90)]]


# ------------------------------------------------------------------ parsing
def parse_a(line):
    if not line.startswith("steps="):
        return None
    d = dict(steps=[], fin=[], vals=None, livelock="LIVELOCK" in line)
    for tok in line.split(" "):
        if tok.startswith("steps="):
            d["steps"] = [x for x in tok[6:].split(",") if x]
        elif tok.startswith("fin="):
            d["fin"] = [(int(x.split(":", 1)[0]), x.split(":", 1)[1]) for x in tok[4:].split(",") if x]
        elif tok.startswith("vals="):
            d["vals"] = [int(x) for x in tok[5:].split(",") if x]
    return d


def fields_a(case):
    m = dict(t.split("=", 1) for t in case.split()[1:])
    progs = [[o for o in p.split(".") if o] for p in m.get("progs", "").split(";")]
    sched = [int(x) for x in m.get("sched", "").split(",") if x]
    return int(m["init"]), progs, sched


def pred(kind, delta, limit, old):
    if kind == 0:
        return s64(old + delta) <= limit
    if kind == 1:
        return old < limit
    if kind == 2:
        return s64(old + delta) >= limit
    if kind == 3:
        return True
    if kind == 4:
        return False
    return old != limit


def parse_tl(line):
    m = re.match(r"ev=(\S*) after=(\S*)( .*)?$", line)
    if not m:
        return None
    return [x for x in m.group(1).split(",") if x], [int(x) for x in m.group(2).split(",") if x], (m.group(3) or "").strip()


# ------------------------------------------------------------------ compare
def compare(case, model, impl):
    if model == impl:
        return None
    tag = case.split()[0]
    if tag == "c17k":
        return c17k.compare(case, model, impl)
    if tag == "c17s":
        return None  # implementation-side stream (monitors only)
    if tag == "c17a":
        pm, pi = parse_a(model), parse_a(impl)
        if pm is None:
            return "model produced no trace (%s)" % model[:200]
        if pi is None:
            return "implementation produced no trace"
        for k, (a, b) in enumerate(zip(pm["steps"], pi["steps"])):
            if a != b:
                return "step %d differs: model %s, implementation %s" % (k, a, b)
        if pm["fin"] != pi["fin"]:
            return "completion phase differs"
        if pm["vals"] != pi["vals"]:
            return "word values differ"
        return "trace differs"
    return "model %s, implementation %s" % (model[:120], impl[:120])


def nontrivial(case, model):
    tag = case.split()[0]
    if tag == "c17k":
        return c17k.nontrivial(case, model)
    if tag == "c17a":
        pm = parse_a(model)
        if pm is None:
            return False
        # contention: some CAS failed (a thread is sent back to its load: y15 -> y14 / y17 -> y16), or a false AddIf64
        init, progs, sched = fields_a(case)
        seq = list(zip(sched, pm["steps"])) + pm["fin"]
        last = {}
        for tid, ev in seq:
            if (last.get(tid) == "y15" and ev == "y14") or (last.get(tid) == "y17" and ev == "y16") or ev == "r:if=false":
                return True
            last[tid] = ev
        return len(set(sched)) >= 2
    if tag == "c17t":
        w = case.split("w=")[1].split(",")
        return len(set(w)) > 1 or w[0] != "0"
    if tag == "c17c":
        return int(case.split("w=")[1]) >= 8 if "w=" in case else False
    return True


# ------------------------------------------------------------------ monitors (independent of the model)
def monitor(case, impl):
    tag = case.split()[0]
    if impl.startswith("PANIC") or impl == "BADCASE":
        return ("crash", "harness/handler failure: " + impl[:200])
    if tag == "c17k":
        return c17k.monitor(case, impl)
    if tag == "c17a":
        return monitor_a(case, impl)
    if tag == "c17t":
        return monitor_tl(case, impl)
    if tag == "c17c":
        w = int(case.split("w=")[1])
        want = (w >> 3) + (w & 1)
        if impl != "count=%d" % want:
            return ("count-untruthful", "Count() on state word %d (locked=%d, waiters=%d) returned %s, want %d" % (w, w & 1, w >> 3, impl, want))
        return None
    if tag == "c17n":
        return None if impl == "nil=false called=false" else ("addif-nil", "AddIf64(nil, ..) = " + impl)
    if tag == "c17s":
        m = dict(t.split("=") for t in impl.split())
        if int(m["maxocc"]) != 1:
            return ("exclusion", "critical-section occupancy reached %s under Lock/TryLock/Unlock stress (%s)" % (m["maxocc"], impl))
        if m["sum"] != m["want"]:
            return ("exclusion", "non-atomic counter protected by the mutex lost updates: %s != %s" % (m["sum"], m["want"]))
        if m["word"] != "0" or m["count"] != "0":
            return ("unlock", "after every holder unlocked the state word is %s and Count()=%s" % (m["word"], m["count"]))
        return None
    return None


def monitor_a(case, impl):
    out = parse_a(impl)
    if out is None:
        return ("crash", "no trace from the implementation: " + impl[:200])
    if out["livelock"]:
        return ("livelock", "threads did not finish under round-robin completion")
    init, progs, sched = fields_a(case)
    seq = list(zip(sched, out["steps"])) + out["fin"]
    vals = out["vals"]
    if vals is None or len(vals) != len(seq) + 1 or vals[0] != init:
        return ("crash", "malformed value list")
    nxt = [0] * len(progs)
    has_if = any(o[0] == "I" for p in progs for o in p)
    for k, (tid, ev) in enumerate(seq):
        before, after = vals[k], vals[k + 1]
        if tid >= len(progs) or ev in ("done", "blocked"):
            if after != before:
                return ("atomicity", "word changed in a step that executed nothing")
            continue
        if ev.startswith("panic"):
            return ("crash", "operation panicked: " + ev)
        if not ev.startswith("r:"):
            if after != before:
                return ("atomicity", "step %d (thread %d, %s) is not a completing CAS but changed the word %d -> %d" % (k, tid, ev, before, after))
            continue
        if nxt[tid] >= len(progs[tid]):
            return ("protocol", "thread %d returned from more calls than it made" % tid)
        op = progs[tid][nxt[tid]]
        nxt[tid] += 1
        res = ev[2:]
        if op[0] == "A":
            f = int(op[1:])
            if res != "add" or after != (before | f):
                return ("flag-lost-update", "AddFlag(%d) completed at step %d: word %d -> %d, an atomic update gives %d (%s)" % (f, k, before, after, before | f, res))
        elif op[0] == "R":
            f = int(op[1:])
            if res != "rem" or after != (before & ~f):
                return ("flag-lost-update", "RemoveFlag(%d) completed at step %d: word %d -> %d, an atomic update gives %d (%s)" % (f, k, before, after, before & ~f, res))
        elif op[0] == "H":
            f = int(op[1:])
            if res != "has=%s" % ("true" if before & f else "false") or after != before:
                return ("hasflag", "HasFlag(%d) on word %d returned %s (word after %d)" % (f, before, res, after))
        else:
            kind, delta, limit = [int(x) for x in op[1:].split(":")]
            p = pred(kind, delta, limit, before)
            if res == "if=true":
                if not p:
                    return ("addif-predicate", "AddIf64(delta=%d, pred kind %d limit %d) returned true at step %d but the word was %d at the update: predicate false on the updated value" % (delta, kind, limit, k, before))
                if after != s64(before + delta):
                    return ("addif-update", "AddIf64(delta=%d) returned true: word %d -> %d, want %d" % (delta, before, after, s64(before + delta)))
            elif res == "if=false":
                if p or after != before:
                    return ("addif-predicate", "AddIf64(delta=%d, pred kind %d limit %d) returned false although the predicate holds on the loaded value %d (or the word changed: %d)" % (delta, kind, limit, before, after))
            else:
                return ("protocol", "AddIf64 returned " + res)
    if any(nxt[t] != len(progs[t]) for t in range(len(progs))):
        return ("protocol", "not every call returned")
    final = vals[-1]
    # commuting cases: a bit touched only by AddFlag calls is set, only by RemoveFlag calls is clear
    if not has_if:
        added = removed = 0
        for p in progs:
            for o in p:
                if o[0] == "A":
                    added |= int(o[1:])
                elif o[0] == "R":
                    removed |= int(o[1:])
        want_set = added & ~removed
        want_clear = removed & ~added
        if (final & want_set) != want_set or (final & want_clear) != 0:
            return ("flag-final", "final flag value %d does not reflect every call: bits only added %d, bits only removed %d" % (final, want_set, want_clear))
        untouched = ~(added | removed)
        if (final & untouched) != (init & untouched):
            return ("flag-final", "final flag value %d changed bits nobody touched (initial %d)" % (final, init))
    # never above the limit
    ifs = [o for p in progs for o in p if o[0] == "I"]
    others = [o for p in progs for o in p if o[0] in "AR"]
    if ifs and not others:
        ks = [[int(x) for x in o[1:].split(":")] for o in ifs]
        if all(k[0] == 0 for k in ks) and len(set(k[2] for k in ks)) == 1 and init <= ks[0][2]:
            if any(v > ks[0][2] for v in vals):
                return ("addif-limit", "value above the limit %d observed: %s" % (ks[0][2], [v for v in vals if v > ks[0][2]][:3]))
        if all(k[0] == 2 for k in ks) and len(set(k[2] for k in ks)) == 1 and init >= ks[0][2]:
            if any(v < ks[0][2] for v in vals):
                return ("addif-limit", "value below the lower limit %d observed: %s" % (ks[0][2], [v for v in vals if v < ks[0][2]][:3]))
    return None


def monitor_tl(case, impl):
    p = parse_tl(impl)
    if p is None:
        return ("crash", "no TryLock trace: " + impl[:200])
    evs, after, extra = p
    ws = [int(x) for x in case.split("w=")[1].split(",")]
    if extra:
        return ("trylock-steps", "TryLock did not return within three accesses")
    if len(evs) != len(after) + 1 or not evs[-1].startswith("r:"):
        return ("crash", "malformed TryLock trace " + impl[:200])
    for k, a in enumerate(after):
        w = ws[k]
        ev = evs[k + 1]
        if ev == "r:true":
            if w & 1:
                return ("trylock-while-held", "TryLock returned true on state word %d whose locked bit is set (another holder has not unlocked)" % w)
            if w & 4:
                return ("trylock-starving", "TryLock returned true on state word %d in starvation mode: ownership is being handed to a waiter "
                        "(sync/mutex.go: 'mutex is still considered locked if mutexStarving is set'), so the caller is not the sole holder" % w)
            if a != (w | 1):
                return ("trylock-word", "TryLock returned true: state word %d -> %d, must only set the locked bit" % (w, a))
        elif a != w:
            return ("trylock-word", "TryLock access %d (%s) modified the state word %d -> %d without acquiring" % (k, ev, w, a))
    return None


# ------------------------------------------------------------------ vm_compute cross-check
def coq_op(o):
    if o[0] == "A":
        return "AtAdd (%s)" % o[1:]
    if o[0] == "R":
        return "AtRemove (%s)" % o[1:]
    if o[0] == "H":
        return "AtHas (%s)" % o[1:]
    k, d, l = o[1:].split(":")
    return "AtAddIf (%s) (at_pred %s (%s) (%s))" % (d, k, d, l)


def ev_code(e):
    if e.startswith("y"):
        return int(e[1:])
    return {"r:add": 100, "r:rem": 101, "r:has=false": 102, "r:has=true": 103, "r:if=false": 104, "r:if=true": 105, "done": 0}[e]


def coq_crosscheck(chk, cases, model_out):
    items, tls, cnts = [], [], []
    for c, m in zip(cases, model_out):
        tag = c.split()[0]
        if tag == "c17a":
            init, progs, sched = fields_a(c)
            pm = parse_a(m)
            pr = "[" + ";".join("[" + ";".join(coq_op(o) for o in p) + "]" for p in progs) + "]"
            items.append("(at_obs (at_init (%d) %s) [%s]%%nat, [%s], [%s])" % (
                init, pr, ";".join(map(str, sched)), ";".join(str(ev_code(e)) for e in pm["steps"]),
                ";".join("(%d)" % v for v in pm["vals"][:len(sched) + 1])))
        elif tag == "c17t":
            ws = c.split("w=")[1].split(",")
            evs, after, _ = parse_tl(m)
            r = {"r:true": "Some true", "r:false": "Some false"}.get(evs[-1], "None")
            tls.append("(mx_trylock_env TLCas1 [%s], (%s, [%s]))" % (";".join(ws), r, ";".join(map(str, after))))
        elif tag == "c17c":
            cnts.append("(mx_count MxFixed %s, %s)" % (c.split("w=")[1], m.split("=")[1]))
    body = """From Got Require Import Base Atomics MutexWord.
Local Open Scope Z_scope.
Definition ev_code (s : at_state) (i : nat) (ev : at_event) : Z :=
  match ev with
  | AEFlagEff true _ => 100 | AEFlagEff false _ => 101 | AEHas _ b => if b then 103 else 102
  | AEIfFalse _ => 104 | AEIfAdd _ _ => 105 | AENone => 0
  | _ => Z.of_nat (at_site s i) end.
Fixpoint at_obs_go (s : at_state) (sched : list nat) : list Z :=
  match sched with
  | [] => []
  | i :: r => let '(s1, ev) := at_step s i in ev_code s1 i ev :: at_obs_go s1 r
  end.
Definition at_obs (s : at_state) (sched : list nat) : list Z * list Z := (at_obs_go s sched, at_values s sched).
Definition zl_eqb (a b : list Z) : bool := if list_eq_dec Z.eq_dec a b then true else false.
Definition ok (c : (list Z * list Z) * list Z * list Z) : bool :=
  match c with ((l, v), el, ev) => zl_eqb l el && zl_eqb v ev end.
Definition ob_eqb (a b : option bool) : bool :=
  match a, b with Some x, Some y => Bool.eqb x y | None, None => true | _, _ => false end.
Definition ok_tl (c : (option bool * list Z) * (option bool * list Z)) : bool :=
  match c with ((r, l), (er, el)) => ob_eqb r er && zl_eqb l el end.
Definition cases := [%s].
Definition tls := [%s].
Definition cnts := [%s].
Definition bad := Eval vm_compute in
  (length (filter (fun c => negb (ok c)) cases) + length (filter (fun c => negb (ok_tl c)) tls)
   + length (filter (fun c => negb (Z.eqb (fst c) (snd c))) cnts))%%nat.
Print bad.
""" % (";\n".join(items), ";\n".join(tls), ";\n".join(cnts))
    out = common.run_coq_eval(body)
    if "bad = 0%nat" not in out.replace("\n", " "):
        chk.diverge("vm_compute-vs-extraction", "sample of %d cases" % (len(items) + len(tls) + len(cnts)), out[-300:], "",
                    "extracted OCaml model disagrees with vm_compute")
    return len(items) + len(tls) + len(cnts)


def canary(chk, binary):
    """The faulty variant of the model (Count before the fix) must disagree with the implementation
    on the corpus witnesses; otherwise the observation is too weak."""
    ws = [17, 8]
    impl = common.run_impl(binary, ["c17c w=%d" % w for w in ws])
    orig = common.run_model(["c17c var=orig w=%d" % w for w in ws])
    if all(a == b for a, b in zip(impl, orig)):
        chk.diverge("canary", "c17c w=17 / w=8", str(orig), str(impl),
                    "the pre-fix Count model (MxOrig) agrees with the implementation on its refutation witnesses: "
                    "either the fix 8216f43 was reverted or the comparison cannot tell right from wrong")
    # the two-load Count (models/MutexObs.v MxoTwoLoads) must disagree with the code on its refutation witnesses
    kc = ["c17k op=count w=10,1", "c17k op=count w=1,10"]
    impl = common.run_impl(binary, kc)
    two = common.run_model([c.replace("c17k ", "c17k var=two ") for c in kc])
    if any(a == b for a, b in zip(impl, two)):
        chk.diverge("canary", "; ".join(kc), str(two), str(impl),
                    "the two-load Count model (MxoTwoLoads) agrees with the implementation on a refutation witness: "
                    "Count no longer reads the state word once, or the stepped comparison cannot tell")


TRUSTED = [
    "cooperative scheduler harness/internal/coop + verif-tag yield hooks in loom/flag.go, loom/atomic.go, loom/mutex.go (one step = one atomic access); "
    "(*Mutex).VerifStateWord to place harness-constructed state words",
    "modelled, not verified: Go atomics as sequentially consistent steps; goroutine scheduling as arbitrary interleaving of those steps; int64/int32 "
    "bit operations as Z.lor/Z.land/Z.lnot/Z.shiftr on signed Z; the AddIf64 predicate as a pure function of its argument; sync.Mutex Lock/Unlock "
    "(runtime code without yield points) modelled from the Go source in MutexWord.v and stepped against a copy of the toolchain's "
    "Lock/lockSlow/Unlock/unlockSlow generated on every run (vlib/mxgen.py: token substitutions only; shims harness/cmd/mxstep/shim.go), "
    "not against the compiled runtime: the runtime semaphore (token counter), runtime_canSpin/doSpin, runtime_nanotime (oracles) stay modelled",
]


def run(chk):
    chk.trusted = common.BASE_TRUSTED + TRUSTED
    chk.assumptions = ["sync/atomic operations are sequentially consistent (Go memory model)",
                       "the AddIf64 predicate is a pure, terminating function of its argument",
                       "preemption matters only between the atomic accesses (each has a yield point in front)",
                       "sync.Mutex state word layout of Go 1.23 (locked=1, woken=2, starving=4, waiters=state>>3), as copied by loom/mutex.go",
                       "the runtime semaphore wakes a thread parked in runtime_SemacquireMutex only after a runtime_Semrelease (token counter); "
                       "runtime_canSpin / runtime_nanotime are arbitrary (oracle numbers per Lock call)"]
    chk.cov["rule"] = ("c17a: case = (initial int64 word, one program of AddFlag/RemoveFlag/HasFlag/AddIf64 calls per thread, schedule of thread ids); the real "
                       "code runs it under the cooperative scheduler, the model runs at_step; compared: the event of every step (yield SITE id 14/15/16/17 or the "
                       "returned value), the round-robin completion and the value of the word after every step. Streams: every interleaving of 2 threads x 1-2 "
                       "flag ops; every bit position 0..63 (2x1, every interleaving); AddIf64 over an (init, delta, limit) cube incl. negative deltas and values "
                       "at the int64 boundaries; one schedule per reachable (model state, thread) edge for 3 threads; random schedules for 4 threads. "
                       "c17t: one TryLock with the state word rewritten before each of its three accesses (locked/woken/starving x waiters 0..4 at each point): events "
                       "and word after each access. c17c: Count on constructed words. c17s: real goroutines Lock/TryLock/Unlock with an occupancy counter (monitor only). "
                       "c17x (streams mx-*): case = (one program of Lock(spin, starve)/TryLock/Unlock calls per thread, schedule); the real loom.Mutex.TryLock and a copy of "
                       "the toolchain's sync.Mutex Lock/lockSlow/Unlock/unlockSlow (generated on this run, see mx_source) run on one state word under the cooperative "
                       "scheduler, the model runs mx_step; compared per step: thread, pc before, access operands and outcome, pc after / returned value, state word, semaphore "
                       "tokens; then round-robin completion. Monitor: at most one holder at any step, TryLock true only from locked=starving=0 setting only the locked bit, "
                       "no throw/fatal, no thread blocked for ever, word 0 and no token at the end. "
                       "non-trivial = c17a: a CAS failed or an AddIf64 returned false or two threads interleave; c17t: not the all-zero word; c17c: waiters > 0")
    chk.run_proof_gate(PROOFS)
    binary = build_coop(chk)
    if binary:
        streams = [("corpus", [c for c in pure.corpus_cases("C17") if not c.startswith("c17x")])] + gen(chk, chk.tier)
        pure.run_streams(chk, binary, streams, compare, monitor, nontrivial)
        # real-concurrency stress: implementation side only
        run_stress(chk, binary, gen_stress(chk, chk.tier), count=True)
        try:
            canary(chk, binary)
            sample = []
            for name, cs in streams[1:]:
                sample += cs[:: max(1, len(cs) // 25)][:25]
            mo = common.run_model(sample)
            chk.cov["vm_compute_crosschecked"] = coq_crosscheck(chk, sample, mo)
        except Exception as ex:
            chk.infra_errors.append("vm_compute cross-check failed: %r" % (ex,))
    # sync.Mutex's Lock/Unlock (copy of the toolchain's source generated on this run) + the real TryLock, stepped against mx_step
    try:
        c17mx.run(chk)
    except common.BuildError:
        raise
    except Exception as ex:
        chk.infra_errors.append("mutex-stepped stream failed: %r" % (ex,))
    chk.finish(search=search)


def run_stress(chk, binary, cases, count=False):
    """each stress case in its own process: a runtime 'fatal error: sync: inconsistent mutex state' /
    'unlock of unlocked mutex' or a hang is a failing input, not an infrastructure error"""
    import subprocess
    for k, c in enumerate(cases):
        try:
            i = common.run_impl(binary, [c], timeout=120)[0]
        except common.ImplCrash as e:
            msg = str(e)
            m = re.search(r"fatal error: [^\n]*|panic: [^\n]*", msg)
            chk.monitor_fail("stress-crash", c, (m.group(0) if m else msg[-300:]),
                             "Lock/TryLock/Unlock stress on one loom.Mutex crashed the process: " + (m.group(0) if m else msg[-300:]))
            continue
        except subprocess.TimeoutExpired:
            chk.monitor_fail("stress-hang", c, "timeout", "Lock/TryLock/Unlock stress did not finish within 120 s (lost wake-up / corrupted state word)")
            continue
        if count:
            chk.count_case("stress-real-goroutines", c, True)
            if k == 0:
                chk.sample(dict(stream="stress-real-goroutines", case=c, impl=i), limit=12)
        mf = monitor(c, i)
        if mf:
            chk.monitor_fail(mf[0], c, i, mf[1])


def search(chk):
    binary = build_coop(chk)
    if not binary:
        return
    chk.rng = chk.rng.fork()
    cases = [c for _, cs in gen(chk, "quick") for c in cs] + [c for c in pure.corpus_cases("C17") if not c.startswith("c17x")]
    c17mx.search(chk)
    run_stress(chk, binary, gen_stress(chk, "quick") * 2)
    impl = common.run_impl(binary, cases)
    for c, i in zip(cases, impl):
        mf = monitor(c, i)
        if mf:
            chk.monitor_fail(mf[0], c, i, mf[1])


def replay(chk, path):
    rep = json.load(open(path))
    binary = build_coop(chk)
    cases = [x["case"] for x in rep.get("failing_inputs", []) + rep.get("divergences", []) if isinstance(x.get("case"), str) and x["case"].startswith("c17")]
    xcases = [c for c in cases if c.startswith("c17x")]
    cases = [c for c in cases if not c.startswith("c17x")]
    xbad = c17mx.replay_cases(chk, xcases)
    impl = common.run_impl(binary, cases) if cases else []
    model = common.run_model(cases) if cases else []
    bad = xbad
    for c, m, i in zip(cases, model, impl):
        mf = monitor(c, i)
        cmpr = compare(c, m, i)
        print("case=%s\n  model=%s\n  impl=%s\n  monitor=%s compare=%s" % (c, m, i, mf, cmpr))
        if mf or cmpr:
            bad += 1
    print("replayed %d case(s), %d still failing" % (len(cases) + len(xcases), bad))
    raise SystemExit(1 if bad else 0)
