# pure.py -- generic driver for the pure differential vehicle (DESIGN.md 4.1)
import glob
import os

from . import common


def corpus_cases(prop_id):
    out = []
    for f in sorted(glob.glob(os.path.join(common.CORPUS, prop_id, "*.txt"))):
        for line in open(f):
            line = line.strip()
            if line and not line.startswith("#"):
                out.append(line)
    return out


def run_streams(chk, binary, streams, compare, monitor, nontrivial, env=None, extra_args=()):
    """streams: list of (name, [case lines]). compare(case, model, impl) -> None | note.
    monitor(case, impl) -> None | (key, what). Returns number of cases."""
    names, cases = [], []
    for name, cs in streams:
        for c in cs:
            names.append(name)
            cases.append(c)
    if not cases:
        return 0
    try:
        impl = common.run_impl(binary, cases, env=env, extra_args=extra_args)
    except common.ImplCrash as e:
        chk.infra_errors.append("implementation harness crashed (a panic escaping the harness or a hang): " + str(e)[-1500:])
        return 0
    model = common.run_model(cases)
    for name, c, m, i in zip(names, cases, model, impl):
        chk.count_case(name, c, nontrivial(c, m))
        chk.cov["programs"] += 1
        note = compare(c, m, i)
        chk.cov["disagreements_checked"] += 1
        if note is not None:
            chk.diverge(name, c, m, i, note)
        else:
            chk.cov["traces_validated_against_impl"] += 1
        mf = monitor(c, i)
        if mf is not None:
            chk.monitor_fail(mf[0], c, i, mf[1])
    # samples: first case of each stream
    seen = set()
    for name, c, m, i in zip(names, cases, model, impl):
        if name not in seen:
            seen.add(name)
            chk.sample(dict(stream=name, case=c[:400], model=m[:400], impl=i[:400]), limit=12)
    return len(cases)


def build_pure(chk, pkg="./cmd/pure", tags="verif", race=False):
    try:
        return common.build_go(pkg, tags=tags, race=race)
    except common.BuildError as e:
        chk.infra_errors.append("harness does not build against /repo working tree (API changed?): " + str(e)[-1500:])
        return None
