# common.py -- shared machinery of /verif/check: build, proof gate, running the model
# and the implementation, verdicts, evidence. See DESIGN.md section 2.
import atexit
import fcntl
import hashlib
import json
import os
import re
import shutil
import subprocess
import sys
import tempfile
import time

VERIF = os.path.dirname(os.path.dirname(os.path.abspath(__file__)))
REPO = os.environ.get("VERIF_REPO", "/repo")
COQ = os.path.join(VERIF, "coq")
OCAML = os.path.join(VERIF, "ocaml")
HARNESS = os.path.join(VERIF, "harness")
EVIDENCE = os.path.join(VERIF, "evidence")
REPLAY = os.path.join(VERIF, "replay")
CORPUS = os.path.join(VERIF, "corpus")
KNOWN = os.path.join(VERIF, "known_findings.txt")

GOENV = dict(os.environ, GOFLAGS="-mod=mod", GOPROXY="off", GOSUMDB="off",
             GOTOOLCHAIN="local", CGO_ENABLED=os.environ.get("CGO_ENABLED", "1"))

FORBIDDEN = re.compile(
    r"\b(Admitted|admit|Axiom|Axioms|Parameter|Parameters|Conjecture|Conjectures|"
    r"Admit Obligations|bypass_check)\b|Unset\s+Guard|Unset\s+Positivity|Unset\s+Universe|"
    r"type-in-type|impredicative-set|native_compute")

_tmpdirs = []


def tmpdir():
    d = tempfile.mkdtemp(prefix="verif-")
    _tmpdirs.append(d)
    return d


def _cleanup():
    for d in _tmpdirs:
        shutil.rmtree(d, ignore_errors=True)


atexit.register(_cleanup)


# ---------------------------------------------------------------- PRNG (SplitMix64)
class Rng:
    """Single PRNG state from which every random choice of a run derives."""

    def __init__(self, seed):
        self.s = seed & 0xFFFFFFFFFFFFFFFF

    def next(self):
        self.s = (self.s + 0x9E3779B97F4A7C15) & 0xFFFFFFFFFFFFFFFF
        z = self.s
        z = ((z ^ (z >> 30)) * 0xBF58476D1CE4E5B9) & 0xFFFFFFFFFFFFFFFF
        z = ((z ^ (z >> 27)) * 0x94D049BB133111EB) & 0xFFFFFFFFFFFFFFFF
        return z ^ (z >> 31)

    def below(self, n):
        return self.next() % n if n > 0 else 0

    def range(self, lo, hi):  # inclusive
        return lo + self.below(hi - lo + 1)

    def choice(self, xs):
        return xs[self.below(len(xs))]

    def chance(self, num, den):
        return self.below(den) < num

    def shuffle(self, xs):
        for i in range(len(xs) - 1, 0, -1):
            j = self.below(i + 1)
            xs[i], xs[j] = xs[j], xs[i]

    def fork(self):
        return Rng(self.next())


def get_seed():
    try:
        return int(os.environ.get("VERIF_SEED", "20260927"))
    except ValueError:
        return 20260927


# ---------------------------------------------------------------- building the Coq side
def sh(cmd, cwd=None, timeout=None, env=None, check=False, input=None):
    p = subprocess.run(cmd, cwd=cwd, timeout=timeout, env=env, input=input,
                       stdout=subprocess.PIPE, stderr=subprocess.STDOUT, text=True, errors="replace")
    if check and p.returncode != 0:
        raise RuntimeError("command failed: %s\n%s" % (cmd, p.stdout))
    return p.returncode, p.stdout


class BuildLock:
    def __enter__(self):
        self.f = open(os.path.join(VERIF, ".build.lock"), "w")
        fcntl.flock(self.f, fcntl.LOCK_EX)
        return self

    def __exit__(self, *a):
        fcntl.flock(self.f, fcntl.LOCK_UN)
        self.f.close()


def coq_sources():
    out = []
    for root, _, files in os.walk(COQ):
        for f in files:
            if f.endswith(".v"):
                out.append(os.path.join(root, f))
    return sorted(out)


def coq_hash():
    h = hashlib.sha256()
    for p in coq_sources() + [os.path.join(COQ, "_CoqProject")]:
        h.update(p.encode())
        h.update(open(p, "rb").read())
    return h.hexdigest()[:16]


COQ_WARN = "-arg -w -arg -notation-overridden,-deprecated-hint-without-locality,-deprecated-instance-without-locality,-ambiguous-paths"


def gen_coqproject():
    """_CoqProject is generated: every .v under coq/{lib,models,proofs,props} (so adding a
    property means adding files only). Rewritten only when its content changes."""
    files = []
    for d in ("lib", "models", "proofs", "props"):
        dd = os.path.join(COQ, d)
        if os.path.isdir(dd):
            files += sorted(os.path.join(d, f) for f in os.listdir(dd) if f.endswith(".v") and not f.startswith("."))
    txt = "-Q . Got\n" + COQ_WARN + "\n\n" + "\n".join(files) + "\n"
    proj = os.path.join(COQ, "_CoqProject")
    if not os.path.exists(proj) or open(proj).read() != txt:
        with open(proj, "w") as f:
            f.write(txt)
    return proj


def build_coq(clean=False, timeout=3000, target=None):
    """Full .vo build with coq_makefile (never -vos). target=None builds everything;
    target="props/C14.vo" builds that file and everything it depends on. Returns (ok, log)."""
    with BuildLock():
        mk = os.path.join(COQ, "Makefile.coq")
        proj = gen_coqproject()
        if clean and os.path.exists(mk):
            sh(["make", "-f", "Makefile.coq", "clean"], cwd=COQ, timeout=300)
        if (not os.path.exists(mk)) or os.path.getmtime(mk) < os.path.getmtime(proj):
            rc, out = sh(["coq_makefile", "-f", "_CoqProject", "-o", "Makefile.coq"], cwd=COQ,
                         timeout=120)
            if rc != 0:
                return False, out
        rc, out = sh(["timeout", str(timeout), "make", "-k", "-f", "Makefile.coq", "-j16"] + ([target] if target else []),
                     cwd=COQ, timeout=timeout + 60)
        return rc == 0, out


def gen_extract():
    """Extract.v is generated from the fragments coq/extract/*.ext ("import M" /
    "export ident ..." lines). ExtrOcamlBasic only; nat/positive/N/Z stay inductives."""
    imports, exports = [], []
    ed = os.path.join(COQ, "extract")
    for f in sorted(os.listdir(ed)):
        if not f.endswith(".ext"):
            continue
        for line in open(os.path.join(ed, f)):
            line = line.split("#")[0].strip()
            if line.startswith("import "):
                imports += [m for m in line.split()[1:] if m not in imports]
            elif line.startswith("export "):
                exports += [m for m in line.split()[1:] if m not in exports]
    return ("From Got Require Import Base %s.\nRequire Extraction.\nRequire Import ExtrOcamlBasic.\n"
            "Extraction Language OCaml.\nSet Extraction KeepSingleton.\n\nExtraction \"model.ml\"\n"
            "  N.add Z.add Nat.add N.of_nat N.to_nat Z.of_nat Z.to_nat Z.of_N Z.to_N\n  %s.\n" % (" ".join(imports), "\n  ".join(exports)))


def build_ocaml(timeout=900):
    """Extraction (coqc run with cwd=/verif/ocaml) and the OCaml driver. Incremental."""
    with BuildLock():
        drv = os.path.join(OCAML, "driver")
        ed = os.path.join(COQ, "extract")
        srcs = [p for p in coq_sources() if "/models/" in p or "/lib/" in p]
        srcs += [os.path.join(ed, f) for f in os.listdir(ed) if f.endswith(".ext")]
        mls = ["registry.ml"] + sorted(f for f in os.listdir(OCAML) if f.startswith("drv_") and f.endswith(".ml")) + ["main.ml"]
        srcs += [os.path.join(OCAML, f) for f in ["conv.ml"] + mls]
        newest = max(os.path.getmtime(p) for p in srcs)
        if os.path.exists(drv) and os.path.getmtime(drv) >= newest:
            return True, "driver up to date"
        ev = os.path.join(OCAML, "Extract.v")
        with open(ev, "w") as f:
            f.write(gen_extract())
        rc, out = sh(["timeout", str(timeout), "coqc", "-Q", COQ, "Got", ev], cwd=OCAML, timeout=timeout + 60)
        if rc != 0:
            return False, out
        rc, out2 = sh(["ocamlfind", "ocamlopt", "-O2", "-w", "-a", "model.mli", "model.ml", "conv.ml"] + mls + ["-o", "driver"],
                      cwd=OCAML, timeout=timeout)
        if rc != 0:
            rc, out2 = sh(["ocamlfind", "ocamlopt", "-w", "-a", "model.mli", "model.ml", "conv.ml"] + mls + ["-o", "driver"],
                          cwd=OCAML, timeout=timeout)
        return rc == 0, out + out2


def grep_gate():
    """No Admitted/admit/Axiom/Parameter/... anywhere in the development."""
    bad = []
    for p in coq_sources():
        txt = open(p).read()
        # strip comments (non-nested is enough for our files; nested handled by loop)
        prev = None
        while prev != txt:
            prev = txt
            txt = re.sub(r"\(\*[^(*]*?\*\)", " ", txt, flags=re.S)
        for i, line in enumerate(txt.split("\n")):
            if FORBIDDEN.search(line):
                bad.append("%s: %s" % (os.path.relpath(p, VERIF), line.strip()))
    return bad


STMT = re.compile(r"^\s*(?:Local\s+|Global\s+)?(Theorem|Lemma|Example|Corollary|Fact|Remark|Proposition)\s+(\w+)", re.M)
ALLOWED_AXIOMS = set([
    # standard-library axioms that may appear (named in DESIGN.md section 7)
    "functional_extensionality_dep", "FunctionalExtensionality.functional_extensionality_dep",
])


def proof_gate(prop_id, proof_files, extra_allowed=None):
    """Returns dict(ok, failures[list], obligations, discharged, theorems, assumptions, log).
    extra_allowed: {theorem name: iterable of std-lib axiom names}: an explicit per-theorem
    allow-list on top of ALLOWED_AXIOMS (used by C20 for the theorems about the classical
    reals); every listed theorem must exist; what is granted is recorded in the evidence."""
    extra_allowed = {k: sorted(set(v)) for k, v in (extra_allowed or {}).items()}
    res = dict(ok=True, failures=[], obligations=0, discharged=0, theorems=[], assumptions={},
               extra_allowed_axioms=extra_allowed,
               checker_cmd="coq_makefile -f _CoqProject -o Makefile.coq && make -f Makefile.coq -j16 props/%s.vo "
                           "(coqc 8.16.1, full .vo of the property file and everything it depends on) ; coqc props/%s.v (Print Assumptions)" % (prop_id, prop_id))
    ok, log = build_coq(target="props/%s.vo" % prop_id)
    res["log"] = log[-4000:]
    bad = grep_gate()
    if bad:
        res["ok"] = False
        res["failures"].append("forbidden construct: " + "; ".join(bad[:5]))
    files = [os.path.join(COQ, "props", prop_id + ".v")] + [os.path.join(COQ, f) for f in proof_files]
    names = []
    for f in files:
        if not os.path.exists(f):
            res["ok"] = False
            res["failures"].append("missing file " + os.path.relpath(f, VERIF))
            continue
        names += [(os.path.relpath(f, COQ), m.group(2)) for m in STMT.finditer(open(f).read())]
    res["obligations"] = len(names)
    if not ok:
        res["ok"] = False
        m = re.search(r'File "([^"]+)", line (\d+)[^\n]*\n(Error:[^\n]*(?:\n[^\n]+){0,3})', log)
        res["failures"].append("coq build failed: " + (m.group(0)[:600] if m else log[-600:]))
        # count discharged = statements in files whose .vo exists and is newer than .v
        d = 0
        for f in files:
            vo = f[:-2] + ".vo"
            if os.path.exists(vo) and os.path.getmtime(vo) >= os.path.getmtime(f):
                d += len(STMT.findall(open(f).read()))
        res["discharged"] = d
        return res
    res["discharged"] = len(names)
    # Print Assumptions of the property theorems: recompile props file to a scratch .vo
    pf = os.path.join(COQ, "props", prop_id + ".v")
    td = tmpdir()
    rc, out = sh(["timeout", "600", "coqc", "-Q", COQ, "Got", "-o", os.path.join(td, prop_id + ".vo"), pf],
                 cwd=COQ, timeout=660)
    if rc != 0:
        res["ok"] = False
        res["failures"].append("props/%s.v does not compile: %s" % (prop_id, out[-600:]))
        return res
    thms = [m.group(2) for m in STMT.finditer(open(pf).read()) if m.group(1) == "Theorem"]
    res["theorems"] = thms
    if not thms:
        res["ok"] = False
        res["failures"].append("props/%s.v states no Theorem" % prop_id)
    printed = re.findall(r"Print Assumptions (\w+)\.", open(pf).read())
    for t in thms:
        if t not in printed:
            res["ok"] = False
            res["failures"].append("theorem %s has no Print Assumptions" % t)
    # parse blocks
    blocks = re.split(r"(?=Closed under the global context|Axioms:)", out)
    blocks = [b for b in blocks if b.startswith("Closed") or b.startswith("Axioms:")]
    if len(blocks) != len(printed):
        res["ok"] = False
        res["failures"].append("Print Assumptions output count mismatch (%d vs %d)" % (len(blocks), len(printed)))
    for name, b in zip(printed, blocks):
        if b.startswith("Closed"):
            res["assumptions"][name] = []
        else:
            ax = re.findall(r"^(\S+)\s*:", b[len("Axioms:"):], flags=re.M)
            res["assumptions"][name] = ax
            for a in ax:
                if a not in ALLOWED_AXIOMS and a not in extra_allowed.get(name, ()):
                    res["ok"] = False
                    res["failures"].append("theorem %s depends on axiom %s" % (name, a))
    for name in extra_allowed:
        if name not in printed or name not in thms:
            res["ok"] = False
            res["failures"].append("theorem %s (listed with an axiom allow-list) is missing from props/%s.v" % (name, prop_id))
    return res


COQCHK_REPORT = os.path.join(VERIF, "coqchk_report.json")


def run_coqchk(props=None, timeout=3000):
    """Independent re-check of the compiled development with coqchk (and its axiom summary).
    props=None: every props/*.vo; otherwise the listed ids. Returns dict(ok, axioms, summary)."""
    ok, log = build_coq(target=None if props is None else " ".join("props/%s.vo" % p for p in props))
    ids = props or sorted(f[:-2] for f in os.listdir(os.path.join(COQ, "props")) if f.endswith(".v"))
    mods = ["Got.props." + i for i in ids]
    rc, out = sh(["timeout", str(timeout), "coqchk", "-silent", "-o", "-Q", ".", "Got"] + mods, cwd=COQ, timeout=timeout + 60)
    m = re.search(r"CONTEXT SUMMARY\s*=+(.*)", out, re.S)
    summary = re.sub(r"\s+", " ", m.group(1)).strip() if m else out[-600:]
    ax = re.search(r"\* Axioms:(.*?)(?:\* Constants|$)", summary)
    axioms = ax.group(1).strip() if ax else "?"
    return dict(ok=(rc == 0), axioms=axioms, summary=summary, modules=ids, coq_sources_hash=coq_hash(),
                cmd="coqchk -silent -o -Q . Got " + " ".join(mods))


# ---------------------------------------------------------------- running both sides
def build_go(pkg, tags="verif", race=False, out_name=None):
    """go build of a harness command against /repo's working tree. Returns path or raises."""
    td = tmpdir()
    out = os.path.join(td, out_name or os.path.basename(pkg))
    cmd = ["go", "build", "-tags", tags]
    if race:
        cmd.append("-race")
    if os.path.realpath(REPO) != "/repo":
        # VERIF_REPO=<scratch copy of lixianmin/got>: same harness, alternative go.mod whose
        # replace directive points at the copy (used to try seeded changes without touching /repo)
        mf = os.path.join(td, "go.mod")
        with open(mf, "w") as f:
            f.write(open(os.path.join(HARNESS, "go.mod")).read().replace("=> /repo", "=> " + os.path.realpath(REPO)))
        if os.path.exists(os.path.join(HARNESS, "go.sum")):
            shutil.copy(os.path.join(HARNESS, "go.sum"), os.path.join(td, "go.sum"))
        cmd.append("-modfile=" + mf)
    cmd += ["-o", out, pkg]
    rc, log = sh(cmd, cwd=HARNESS, env=GOENV, timeout=900)
    if rc != 0:
        raise BuildError(log)
    return out


class BuildError(Exception):
    pass


def run_model(lines, timeout=1800):
    if timeout == 1800:
        timeout = max(1800, len(lines) // 150)   # as run_impl: grows with the batch
    ok, log = build_ocaml()
    if not ok:
        raise BuildError("ocaml/extraction build failed:\n" + log[-2000:])
    # the extracted enumerators recurse over schedule prefixes (not tail-recursive): give the driver a
    # large stack, the default 8 MB overflows on the thorough-tier enumerations
    def _big_stack():
        import resource
        for lim in (resource.RLIM_INFINITY, 4 << 30, 1 << 30):
            try:
                resource.setrlimit(resource.RLIMIT_STACK, (lim, resource.getrlimit(resource.RLIMIT_STACK)[1]))
                return
            except (ValueError, OSError):
                continue
    p = subprocess.run([os.path.join(OCAML, "driver")], input="\n".join(lines) + "\n",
                       stdout=subprocess.PIPE, stderr=subprocess.PIPE, text=True, timeout=timeout, preexec_fn=_big_stack)
    if p.returncode != 0:
        raise RuntimeError("model driver failed: " + p.stderr[-2000:])
    out = p.stdout.split("\n")
    if out and out[-1] == "":
        out.pop()
    if len(out) != len(lines):
        raise RuntimeError("model driver returned %d lines for %d cases" % (len(out), len(lines)))
    return out


def run_impl(binary, lines, timeout=1800, env=None, extra_args=()):
    if timeout == 1800:
        # the default grows with the batch: a harness that handles thousands of cases per second on an idle machine is given
        # at least 1 s per 150 cases, so that a loaded machine does not turn a big batch into a spurious "did not finish"
        timeout = max(1800, len(lines) // 150)
    td = tmpdir()
    cf = os.path.join(td, "cases.txt")
    of = os.path.join(td, "out.txt")
    with open(cf, "w") as f:
        f.write("\n".join(lines) + "\n")
    try:
        p = subprocess.run([binary] + list(extra_args) + [cf, of], stdout=subprocess.PIPE, stderr=subprocess.STDOUT, text=True, errors="replace",
                           timeout=timeout, env=env)
    except subprocess.TimeoutExpired:
        shutil.rmtree(td, ignore_errors=True)
        raise ImplTimeout("implementation harness did not finish %d case(s) within %d s (first: %s)" % (len(lines), timeout, lines[0][:300]),
                          [binary], timeout)
    if p.returncode != 0:
        raise ImplCrash(p.stdout[-3000:])
    out = open(of).read().split("\n")
    if out and out[-1] == "":
        out.pop()
    shutil.rmtree(td, ignore_errors=True)
    if len(out) != len(lines):
        raise ImplCrash("implementation harness returned %d lines for %d cases\n%s" % (len(out), len(lines), p.stdout[-2000:]))
    return out


class ImplCrash(Exception):
    pass


class ImplTimeout(ImplCrash, subprocess.TimeoutExpired):
    """the harness process did not finish in time: caught both by handlers of ImplCrash and of TimeoutExpired"""

    def __init__(self, msg, cmd, timeout):
        ImplCrash.__init__(self, msg)
        self.cmd, self.timeout, self.output, self.stderr = cmd, timeout, None, None
        self.msg = msg

    def __str__(self):
        return self.msg


def run_impl_watch(binary, lines, stall=20, env=None, marker="NOLOG", max_culprits=4):
    """For harnesses that flush one output line per finished case: run the batch, and when the process makes no
    progress for <stall> s (a livelock cannot be interrupted from inside, least of all under the virtual clock) or
    dies, the case it was in gets '<marker> ...' and the batch continues after it. After <max_culprits> such cases the
    rest of the batch is marked '<marker> skipped' (not evaluated)."""
    import time as _t
    out = []
    culprits = 0
    pos = 0
    while pos < len(lines):
        if culprits >= max_culprits:
            out += ["%s skipped: %d earlier cases of this batch hung or crashed" % (marker, culprits)] * (len(lines) - pos)
            break
        td = tmpdir()
        cf, of = os.path.join(td, "cases.txt"), os.path.join(td, "out.txt")
        with open(cf, "w") as f:
            f.write("\n".join(lines[pos:]) + "\n")
        sof = os.path.join(td, "stdout.txt")   # not a pipe: nobody drains it while the process runs
        p = subprocess.Popen([binary, cf, of], stdout=open(sof, "w"), stderr=subprocess.STDOUT, env=env)
        last_n, last_t = -1, _t.time()
        reason = None
        while True:
            try:
                p.wait(timeout=0.5)
                break
            except subprocess.TimeoutExpired:
                pass
            try:
                n = os.path.getsize(of)
            except OSError:
                n = 0
            if n != last_n:
                last_n, last_t = n, _t.time()
            elif _t.time() - last_t > stall:
                p.kill()
                p.wait()
                reason = "no progress for %d s: the case never finishes (livelock or deadlock)" % stall
                break
        try:
            got = open(of).read().split("\n")
        except OSError:
            got = []
        if got and got[-1] == "":
            got.pop()
        if reason is None and p.returncode != 0:
            reason = "the harness process died: " + " ".join(open(sof, errors="replace").read()[-300:].split())
        shutil.rmtree(td, ignore_errors=True)
        if reason is None and len(got) == len(lines) - pos:
            out += got
            break
        if reason is None:
            reason = "the harness returned %d lines for %d cases" % (len(got), len(lines) - pos)
        got = got[:len(lines) - pos - 1]
        out += got
        out.append("%s %s" % (marker, reason))
        culprits += 1
        pos += len(got) + 1
    return out


def run_impl_robust(binary, lines, timeout=300, single_timeout=30, env=None, marker="NOLOG"):
    """run_impl, but a crash or a hang of the harness process is narrowed down by bisection to the case(s) that
    cause it; those get '<marker> <reason>' as their output (a replayable failing case), the others their results."""
    try:
        return run_impl(binary, lines, timeout=timeout, env=env)
    except ImplCrash as e:
        if len(lines) == 1:
            return ["%s %s" % (marker, " ".join(str(e)[-400:].split()))]
        mid = len(lines) // 2
        t = max(single_timeout, timeout // 2)
        return (run_impl_robust(binary, lines[:mid], t, single_timeout, env, marker) +
                run_impl_robust(binary, lines[mid:], t, single_timeout, env, marker))


def run_coq_eval(body, timeout=900):
    """Evaluate a generated .v file (cases.v) against the compiled models with vm_compute.
    Returns coqc stdout."""
    td = tmpdir()
    f = os.path.join(td, "cases.v")
    with open(f, "w") as fh:
        fh.write(body)
    rc, out = sh(["timeout", str(timeout), "coqc", "-Q", COQ, "Got", f], cwd=td, timeout=timeout + 30)
    shutil.rmtree(td, ignore_errors=True)
    if rc != 0:
        raise RuntimeError("cases.v failed: " + out[-2000:])
    return out


# ---------------------------------------------------------------- known findings
def load_known(prop_id):
    """open findings: list of (key, description); fixed entries are informational."""
    opens, fixed = [], []
    if os.path.exists(KNOWN):
        for line in open(KNOWN):
            line = line.strip()
            if not line or line.startswith("#"):
                continue
            m = re.match(r"open:\s+property=(\S+)\s+key=(\S+)\s+(.*)", line)
            if m and m.group(1) == prop_id:
                opens.append((m.group(2), m.group(3)))
            m = re.match(r"fixed:\s+property=(\S+)\s+(\S+)\s+(.*)", line)
            if m and m.group(1) == prop_id:
                fixed.append((m.group(2), m.group(3)))
    return opens, fixed


# ---------------------------------------------------------------- verdict + evidence
class Check:
    def __init__(self, prop_id, tier):
        self.id = prop_id
        self.tier = tier
        self.seed = get_seed()
        self.rng = Rng(self.seed ^ int(hashlib.sha256(prop_id.encode()).hexdigest()[:8], 16))
        self.t0 = time.time()
        self.proof = None
        self.proof_failures = []
        self.divergences = []      # (stream, case, model_out, impl_out, note)
        self.monitor_failures = []  # (key, case, impl_out, what)
        self.known_hits = {}
        self.cov = dict(evaluations=0, distinct_nontrivial=0, rule="", samples=[],
                        programs=0, disagreements_checked=0, traces_validated_against_impl=0)
        self.assumptions = []
        self.trusted = []
        self.streams = {}
        self._distinct = set()
        self.infra_errors = []
        self.opens, self.fixed = load_known(prop_id)

    # --- recording
    def count_case(self, stream, case, nontrivial):
        self.cov["evaluations"] += 1
        st = self.streams.setdefault(stream, dict(cases=0, nontrivial=0))
        st["cases"] += 1
        if nontrivial:
            st["nontrivial"] += 1
            h = hashlib.md5(case.encode()).digest()[:8]
            self._distinct.add(h)

    def sample(self, obj, limit=6):
        if len(self.cov["samples"]) < limit:
            self.cov["samples"].append(obj)

    def diverge(self, stream, case, model_out, impl_out, note=""):
        if len(self.divergences) < 50:
            self.divergences.append(dict(stream=stream, case=case, model=model_out, impl=impl_out, note=note))
        else:
            self.divergences.append(None)

    def monitor_fail(self, key, case, impl_out, what):
        """A direct failure of the property text on the implementation (a replayable input)."""
        for k, desc in self.opens:
            if k == key:
                self.known_hits.setdefault(k, dict(desc=desc, n=0, example=dict(case=case, impl=impl_out, what=what)))
                self.known_hits[k]["n"] += 1
                return
        if len(self.monitor_failures) < 50:
            self.monitor_failures.append(dict(key=key, case=case, impl=impl_out, what=what))
        else:
            self.monitor_failures.append(None)

    def run_proof_gate(self, proof_files, extra_allowed=None):
        self.proof = proof_gate(self.id, proof_files, extra_allowed=extra_allowed)
        if not self.proof["ok"]:
            self.proof_failures += self.proof["failures"]
        return self.proof["ok"]

    # --- finishing
    def finish(self, search=None, extra=None):
        """Decide, write evidence + replay, print VIOLATION / KNOWN-FINDING lines, exit."""
        violations = 0
        lines = []
        ndiv = len(self.divergences)
        nmon = len(self.monitor_failures)
        replay_path = None
        if (ndiv or self.proof_failures or self.infra_errors) and not nmon and search is not None:
            # the tie between model and code (or a proof) is broken: look for a concrete
            # failing input on the implementation with the property monitors
            try:
                search(self)
            except Exception as ex:  # search is best effort
                self.infra_errors.append("failing-input search crashed: %r" % (ex,))
            nmon = len(self.monitor_failures)
        if nmon or ndiv or self.proof_failures or self.infra_errors:
            violations = 1
            os.makedirs(REPLAY, exist_ok=True)
            replay_path = os.path.join(REPLAY, "%s-%d.json" % (self.id, self.seed))
            if nmon:
                kind = "counterexample"
            elif ndiv:
                kind = "broken-correspondence"
            elif self.proof_failures:
                kind = "broken-proof"
            else:
                kind = "check-infrastructure-failure"
            rep = dict(property=self.id, kind=kind, seed=self.seed, tier=self.tier,
                       failing_inputs=[m for m in self.monitor_failures if m][:10],
                       divergences=[d for d in self.divergences if d][:10],
                       proof_failures=self.proof_failures,
                       infra_errors=self.infra_errors,
                       theorems=(self.proof or {}).get("theorems", []),
                       note=("a concrete input on which the implementation violates the property"
                             if nmon else
                             "no failing input found: the named theorem/correspondence no longer checks, "
                             "so the property is no longer shown to hold"))
            with open(replay_path, "w") as f:
                json.dump(rep, f, indent=1, default=str)
            suffix = "" if nmon else " no-failing-input-found"
            lines.append("VIOLATION property=%s replay=%s%s" % (self.id, replay_path, suffix))
        for k, h in self.known_hits.items():
            lines.append("KNOWN-FINDING: property=%s %s (key=%s, %d case(s) this run)" % (self.id, h["desc"], k, h["n"]))
        # evidence
        cov = self.cov
        cov["distinct_nontrivial"] = len(self._distinct)
        cov["streams"] = self.streams
        if self.proof:
            cov["obligations"] = self.proof["obligations"]
            cov["discharged"] = self.proof["discharged"]
            cov["checker_cmd"] = self.proof["checker_cmd"]
            cov["theorems"] = self.proof["theorems"]
            cov["print_assumptions"] = self.proof["assumptions"]
            if self.proof.get("extra_allowed_axioms"):
                cov["extra_allowed_axioms"] = self.proof["extra_allowed_axioms"]
        cov["trusted_base"] = self.trusted
        cov["divergences"] = ndiv
        cov["monitor_failures"] = nmon
        cov["known_findings_hit"] = {k: h["n"] for k, h in self.known_hits.items()}
        cov["coq_sources_hash"] = coq_hash()
        if self.tier == "thorough" and self.proof and self.proof.get("ok"):
            # independent re-check with coqchk: the committed whole-development report if it is for these
            # very sources, otherwise a run for this property's file (and everything it depends on)
            rep = None
            try:
                if os.path.exists(COQCHK_REPORT):
                    rep = json.load(open(COQCHK_REPORT))
                    if rep.get("coq_sources_hash") != coq_hash():
                        rep = None
                if rep is None:
                    rep = run_coqchk([self.id])
                cov["coqchk"] = dict(ok=rep["ok"], axioms=rep["axioms"], cmd=rep["cmd"][:300], summary=rep["summary"][:600])
                if not rep["ok"]:
                    self.proof_failures.append("coqchk rejects the compiled development: " + rep["summary"][:300])
                    violations = 1
                    print("VIOLATION property=%s replay=%s no-failing-input-found" % (self.id, COQCHK_REPORT))
            except Exception as ex:
                cov["coqchk"] = dict(ok=None, error=repr(ex)[:300])
        if extra:
            cov.update(extra)
        ev = dict(property_id=self.id, tier=self.tier, seed=self.seed, level="proof", coverage=cov,
                  assumptions=self.assumptions, wall_s=round(time.time() - self.t0, 2),
                  violations=violations)
        # evidence of a run against a scratch copy (VERIF_REPO) never overwrites the real evidence
        evdir = EVIDENCE if os.path.realpath(REPO) == "/repo" else os.path.join(REPLAY, "scratch-evidence")
        os.makedirs(evdir, exist_ok=True)
        with open(os.path.join(evdir, self.id + ".json"), "w") as f:
            json.dump(ev, f, indent=1, default=str)
        for l in lines:
            print(l)
        if violations:
            if self.proof_failures:
                print("proof gate: " + " | ".join(self.proof_failures)[:1500])
            for d in [d for d in self.divergences if d][:3]:
                print("divergence[%s]: case=%s model=%s impl=%s %s" % (d["stream"], str(d["case"])[:300], str(d["model"])[:300], str(d["impl"])[:300], d["note"]))
            for m in [m for m in self.monitor_failures if m][:3]:
                print("failing-input[%s]: case=%s impl=%s : %s" % (m["key"], str(m["case"])[:300], str(m["impl"])[:300], m["what"]))
            for e in self.infra_errors[:3]:
                print("infra: " + e[:1500])
        else:
            print("OK property=%s tier=%s seed=%d evaluations=%d distinct_nontrivial=%d obligations=%s wall=%.1fs" % (
                self.id, self.tier, self.seed, cov["evaluations"], cov["distinct_nontrivial"],
                cov.get("obligations"), time.time() - self.t0))
        sys.stdout.flush()
        sys.exit(1 if violations else 0)


BASE_TRUSTED = [
    "Coq 8.16.1 kernel (coqc; coqchk re-check in the thorough tier); vm_compute used, native_compute not used",
    "Extraction: ExtrOcamlBasic only (Extract Inductive bool/option/unit/list/prod/sumbool/sumor); nat/positive/N/Z kept as Coq inductives; no Extract Constant",
    "ocaml/conv.ml + ocaml/driver.ml (parsing/printing glue), python check scripts (generators, diff, monitors)",
    "Go harness under /verif/harness (calls the real lixianmin/got API built from /repo's working tree)",
]
