(* AntsStepsDecide.v -- the decision invariant of the FIXED ants step model (models/AntsSteps.v): what the ghost
   fields of a task (attempts created, decisions stored by the dispatcher, error-callback arguments, wg done)
   look like at every pc of the dispatcher that runs it, while it waits in taskChan and after wg.Done.
   Proved for every reachable state by induction over the schedule (ast_run_dinv). *)
From Got Require Import Base ListAux AntsSteps AntsStepsProofs.
Local Open Scope nat_scope.

Definition ast_failed (p : Z * Z) : Prop := snd p <> 0%Z.
Definition ast_R (x : ast_task) : nat := aso_retry (att_opt x).

(* facts about a task that hold at all times *)
Record ast_tinv (x : ast_task) : Prop := {
  tg_fail : Forall ast_failed (removelast (att_decided x));                    (* every decision but the last is a failure *)
  tg_cur : (att_res x, att_err x) = last (att_decided x) (0%Z, 0%Z);           (* the fields hold the last decision *)
  tg_len : length (att_decided x) <= att_natt x <= S (length (att_decided x)); (* at most one attempt is undecided *)
  tg_fail2 : att_natt x = S (length (att_decided x)) -> Forall ast_failed (att_decided x);
  tg_R : att_natt x <= ast_R x
}.

Definition ast_ph_new (x : ast_task) : Prop :=
  att_natt x = 0 /\ att_decided x = [] /\ att_onerr x = [] /\ att_done x = false.
Definition ast_ph_run (i : nat) (x : ast_task) : Prop :=                       (* attempt i (0-based) is in flight *)
  att_natt x = S i /\ length (att_decided x) = i /\ att_onerr x = [] /\ att_done x = false.
Definition ast_ph_dec (i : nat) (x : ast_task) : Prop :=                       (* attempt i is decided *)
  att_natt x = S i /\ length (att_decided x) = S i /\ att_onerr x = [] /\ att_done x = false.
Definition ast_ph_fail (x : ast_task) : Prop :=                                (* all R attempts failed, before onError *)
  att_natt x = ast_R x /\ length (att_decided x) = ast_R x /\ Forall ast_failed (att_decided x) /\
  att_onerr x = [] /\ att_done x = false.
Definition ast_ph_fin (x : ast_task) : Prop :=                                 (* nothing is stored or called any more *)
  length (att_decided x) = att_natt x /\
  ((att_err x = 0%Z /\ 1 <= att_natt x /\ att_onerr x = []) \/
   (att_natt x = ast_R x /\ Forall ast_failed (att_decided x) /\
    att_onerr x = if aso_onerr (att_opt x) then [att_err x] else [])).

Definition ast_pc_phase (pc : ast_pc) (x : ast_task) : Prop :=
  match pc with
  | AstSendEnq _ => ast_ph_new x
  | AstDEnq _ _ i | AstDSelect _ _ i | AstDStoreRes _ _ i _ _ | AstDStoreTo _ _ i => ast_ph_run i x
  | AstDCancel _ _ i | AstDReadErr _ i => ast_ph_dec i x
  | AstDOnErr _ => ast_ph_fail x
  | AstDWgDone _ => ast_ph_fin x /\ att_done x = false
  | _ => True
  end.

Record ast_dinv (s : ast_state) : Prop := {
  di_t : forall t x, nth_error (ast_tasks s) t = Some x -> ast_tinv x;
  di_pc : forall i pc t x, ast_pc_of s i = Some pc -> ast_pc_task pc = Some t ->
          nth_error (ast_tasks s) t = Some x -> ast_pc_phase pc x;
  di_chan : forall t x, nth_error (ast_tasks s) t = Some x -> att_owner x = AwChan -> ast_ph_new x;
  di_done : forall t x, nth_error (ast_tasks s) t = Some x -> att_done x = true -> att_owner x = AwGone /\ ast_ph_fin x
}.

(* ------------------------------------------------------------------ the fields the predicates look at *)
Definition ast_core (x : ast_task) :=
  (att_opt x, att_res x, att_err x, att_done x, att_natt x, att_decided x, att_onerr x, att_owner x).

Ltac ast_core_tac :=
  match goal with |- forall x x', ast_core x = ast_core x' -> _ =>
    intros [o r e d na st de oe ow] [o' r' e' d' na' st' de' oe' ow']; unfold ast_core; cbn;
    intros [= -> -> -> -> -> -> -> ->] end.

Lemma ast_core_tinv : forall x x', ast_core x = ast_core x' -> ast_tinv x -> ast_tinv x'.
Proof. ast_core_tac. intros [A B C D E]. constructor; cbn in *; assumption. Qed.
Lemma ast_core_phase pc : forall x x', ast_core x = ast_core x' -> ast_pc_phase pc x -> ast_pc_phase pc x'.
Proof.
  ast_core_tac. destruct pc; cbn [ast_pc_phase]; unfold ast_ph_new, ast_ph_run, ast_ph_dec, ast_ph_fail, ast_ph_fin, ast_R; cbn;
    intros H; exact H.
Qed.
Lemma ast_core_new : forall x x', ast_core x = ast_core x' -> ast_ph_new x -> ast_ph_new x'.
Proof. ast_core_tac. unfold ast_ph_new; cbn. intros H; exact H. Qed.
Lemma ast_core_fin : forall x x', ast_core x = ast_core x' -> ast_ph_fin x -> ast_ph_fin x'.
Proof. ast_core_tac. unfold ast_ph_fin, ast_R; cbn. intros H; exact H. Qed.
Lemma ast_core_owner : forall x x', ast_core x = ast_core x' -> att_owner x = att_owner x'.
Proof. ast_core_tac. reflexivity. Qed.
Lemma ast_core_done : forall x x', ast_core x = ast_core x' -> att_done x = att_done x'.
Proof. ast_core_tac. reflexivity. Qed.

(* ------------------------------------------------------------------ generic preservation lemmas *)
Definition ast_pcs_but (s s' : ast_state) (tid : nat) : Prop := forall j, j <> tid -> ast_pc_of s' j = ast_pc_of s j.

(* nothing the predicates look at changed; the new pc holds no task, or the same one in the same phase *)
Lemma ast_dinv_same s s' tid pc pc' :
  ast_dinv s -> ast_pc_of s tid = Some pc -> ast_pcs_but s s' tid -> ast_pc_of s' tid = Some pc' ->
  (forall t, option_map ast_core (nth_error (ast_tasks s') t) = option_map ast_core (nth_error (ast_tasks s) t)) ->
  (ast_pc_task pc' = None \/ (ast_pc_task pc' = ast_pc_task pc /\ forall x, ast_pc_phase pc x -> ast_pc_phase pc' x)) ->
  ast_dinv s'.
Proof.
  intros [D1 D2 D3 D4] Hpc Hoth Hpc' Hcore Hnew.
  assert (Hback : forall t x', nth_error (ast_tasks s') t = Some x' ->
            exists x, nth_error (ast_tasks s) t = Some x /\ ast_core x = ast_core x').
  { intros t x' H. specialize (Hcore t). rewrite H in Hcore. destruct (nth_error (ast_tasks s) t) as [x|]; [|discriminate].
    cbn [option_map] in Hcore. assert (Hc : ast_core x = ast_core x') by congruence. exists x. split; [reflexivity|exact Hc]. }
  constructor.
  - intros t x' H. destruct (Hback _ _ H) as (x & Hx & Hc). apply (ast_core_tinv _ _ Hc). apply (D1 _ _ Hx).
  - intros j pcj t x' Hj Ht H. destruct (Hback _ _ H) as (x & Hx & Hc). apply (ast_core_phase _ _ _ Hc).
    destruct (Nat.eq_dec j tid) as [->|Hne].
    + rewrite Hpc' in Hj. injection Hj as <-. destruct Hnew as [Hn|[Hn Hph]]; [congruence|].
      apply Hph. apply (D2 tid pc t x Hpc); [congruence|exact Hx].
    + rewrite Hoth in Hj by exact Hne. apply (D2 j pcj t x Hj Ht Hx).
  - intros t x' H Ho. destruct (Hback _ _ H) as (x & Hx & Hc). apply (ast_core_new _ _ Hc).
    apply (D3 _ _ Hx). rewrite (ast_core_owner _ _ Hc). exact Ho.
  - intros t x' H Hd. destruct (Hback _ _ H) as (x & Hx & Hc).
    destruct (D4 _ _ Hx) as [A B]; [rewrite (ast_core_done _ _ Hc); exact Hd|].
    split; [rewrite <- (ast_core_owner _ _ Hc); exact A|apply (ast_core_fin _ _ Hc); exact B].
Qed.

(* the stepping thread changes the record of the one task it holds (or takes from taskChan) *)
Lemma ast_dinv_upd s s' tid pc' t x x' :
  ast_inv s -> ast_dinv s -> ast_pcs_but s s' tid -> ast_pc_of s' tid = Some pc' ->
  nth_error (ast_tasks s) t = Some x -> nth_error (ast_tasks s') t = Some x' ->
  (forall t', t' <> t -> nth_error (ast_tasks s') t' = nth_error (ast_tasks s) t') ->
  (att_owner x = AwThread tid \/ att_owner x = AwChan) ->
  ast_tinv x' ->
  (forall t2, ast_pc_task pc' = Some t2 -> t2 = t /\ ast_pc_phase pc' x') ->
  (att_owner x' = AwChan -> ast_ph_new x') ->
  (att_done x' = true -> att_owner x' = AwGone /\ ast_ph_fin x') ->
  ast_dinv s'.
Proof.
  intros Inv [D1 D2 D3 D4] Hoth Hpc' Hx Hx' Hsame Hown Ht Hph Hch Hdn.
  constructor.
  - intros t0 y H. destruct (Nat.eq_dec t0 t) as [->|Hne]; [rewrite Hx' in H; injection H as <-; exact Ht|].
    rewrite Hsame in H by exact Hne. apply (D1 _ _ H).
  - intros j pcj t0 y Hj Ht0 H. destruct (Nat.eq_dec j tid) as [->|Hne].
    + rewrite Hpc' in Hj. injection Hj as <-. destruct (Hph _ Ht0) as [-> P]. rewrite Hx' in H. injection H as <-. exact P.
    + rewrite Hoth in Hj by exact Hne. destruct (Nat.eq_dec t0 t) as [->|Hnt].
      * exfalso. pose proof (ai_tthr _ Inv j pcj t Hj Ht0) as Ho. unfold ast_town in Ho. rewrite Hx in Ho. cbn in Ho.
        injection Ho as Ho. destruct Hown as [Hw|Hw]; rewrite Hw in Ho; [injection Ho as Ho; congruence|discriminate].
      * rewrite Hsame in H by exact Hnt. apply (D2 j pcj t0 y Hj Ht0 H).
  - intros t0 y H Ho. destruct (Nat.eq_dec t0 t) as [->|Hne]; [rewrite Hx' in H; injection H as <-; apply Hch; exact Ho|].
    rewrite Hsame in H by exact Hne. apply (D3 _ _ H Ho).
  - intros t0 y H Hd. destruct (Nat.eq_dec t0 t) as [->|Hne]; [rewrite Hx' in H; injection H as <-; apply Hdn; exact Hd|].
    rewrite Hsame in H by exact Hne. apply (D4 _ _ H Hd).
Qed.

(* newTaskCallback *)
Lemma ast_tinv_new o tid : ast_tinv (ast_new_task o tid) /\ ast_ph_new (ast_new_task o tid).
Proof.
  split; [constructor; cbn|unfold ast_ph_new; cbn; auto].
  - constructor.
  - reflexivity.
  - lia.
  - discriminate.
  - lia.
Qed.

Lemma ast_dinv_new s s' tid o :
  ast_inv s -> ast_dinv s -> ast_pcs_but s s' tid -> ast_pc_of s' tid = Some (AstSendEnq (length (ast_tasks s))) ->
  ast_tasks s' = ast_tasks s ++ [ast_new_task o tid] ->
  ast_dinv s'.
Proof.
  intros Inv [D1 D2 D3 D4] Hoth Hpc' Htasks.
  assert (Hnth : forall t y, nth_error (ast_tasks s') t = Some y ->
            nth_error (ast_tasks s) t = Some y \/ (t = length (ast_tasks s) /\ y = ast_new_task o tid)).
  { intros t y H. rewrite Htasks, ast_snoc_nth in H. destruct (t <? length (ast_tasks s)); [left; exact H|].
    destruct (Nat.eqb_spec t (length (ast_tasks s))); [|discriminate]. right. split; congruence. }
  destruct (ast_tinv_new o tid) as [N1 N2].
  constructor.
  - intros t y H. destruct (Hnth _ _ H) as [H0|[-> ->]]; [apply (D1 _ _ H0)|exact N1].
  - intros j pcj t y Hj Ht H. destruct (Nat.eq_dec j tid) as [->|Hne].
    + rewrite Hpc' in Hj. injection Hj as <-. cbn in Ht. injection Ht as <-.
      destruct (Hnth _ _ H) as [H0|[_ ->]]; [apply ast_nth_lt in H0; lia|exact N2].
    + rewrite Hoth in Hj by exact Hne. destruct (Hnth _ _ H) as [H0|[-> ->]]; [apply (D2 j pcj t y Hj Ht H0)|].
      pose proof (ai_tthr _ Inv j pcj _ Hj Ht) as Ho. apply ast_some_lt in Ho. lia.
  - intros t y H Ho. destruct (Hnth _ _ H) as [H0|[-> ->]]; [apply (D3 _ _ H0 Ho)|discriminate].
  - intros t y H Hd. destruct (Hnth _ _ H) as [H0|[-> ->]]; [apply (D4 _ _ H0 Hd)|discriminate].
Qed.

(* ------------------------------------------------------------------ record-level transitions *)
Lemma ast_failed_all x : ast_tinv x -> att_decided x <> [] -> att_err x <> 0%Z -> Forall ast_failed (att_decided x).
Proof.
  intros [A B _ _ _] Hne He. rewrite (app_removelast_last (0%Z, 0%Z) Hne). apply Forall_app. split; [exact A|].
  constructor; [|constructor]. rewrite <- B. exact He.
Qed.

Lemma ast_len_nonnil {A} (l : list A) k : length l = S k -> l <> [].
Proof. destruct l; [discriminate|discriminate]. Qed.

(* the dispatcher's store of a decision *)
Lemma ast_tr_store v e i x :
  ast_tinv x -> ast_ph_run i x -> ast_tinv (ast_t_store v e x) /\ ast_ph_dec i (ast_t_store v e x).
Proof.
  intros [A B C D E] (P1 & P2 & P3 & P4). split.
  - constructor; cbn [ast_t_store att_decided att_res att_err att_natt att_opt ast_R].
    + rewrite removelast_last. apply D. lia.
    + rewrite last_last. reflexivity.
    + rewrite app_length. cbn [length]. lia.
    + rewrite app_length. cbn [length]. lia.
    + exact E.
  - unfold ast_ph_dec. cbn [ast_t_store att_decided att_natt att_onerr att_done]. rewrite app_length. cbn [length].
    repeat split; try assumption; lia.
Qed.

(* task := <-taskChan; first attempt *)
Lemma ast_tr_first w x :
  ast_tinv x -> ast_ph_new x -> 0 < ast_R x ->
  ast_tinv (ast_t_natt (ast_t_owner w x)) /\ ast_ph_run 0 (ast_t_natt (ast_t_owner w x)).
Proof.
  intros [A B C D E] (P1 & P2 & P3 & P4) HR. split.
  - constructor; cbn [ast_t_natt ast_t_owner att_decided att_res att_err att_natt att_opt ast_R] in *; try assumption.
    + rewrite P2. cbn. lia.
    + rewrite P2. constructor.
    + unfold ast_R in *. cbn. lia.
  - unfold ast_ph_run. cbn [ast_t_natt ast_t_owner att_decided att_natt att_onerr att_done]. rewrite P1, P2. auto.
Qed.

(* retry *)
Lemma ast_tr_retry i x :
  ast_tinv x -> ast_ph_dec i x -> att_err x <> 0%Z -> S i < ast_R x ->
  ast_tinv (ast_t_natt x) /\ ast_ph_run (S i) (ast_t_natt x).
Proof.
  intros T (P1 & P2 & P3 & P4) He HR. pose proof (ast_failed_all x T (ast_len_nonnil _ _ P2) He) as Hall.
  destruct T as [A B C D E]. split.
  - constructor; cbn [ast_t_natt att_decided att_res att_err att_natt att_opt ast_R] in *; try assumption; try lia.
    + intros _. exact Hall.
    + unfold ast_R in *. cbn. lia.
  - unfold ast_ph_run. cbn [ast_t_natt att_decided att_natt att_onerr att_done]. repeat split; try assumption; lia.
Qed.

Lemma ast_tr_owner w x : ast_tinv x -> ast_tinv (ast_t_owner w x).
Proof. intros [A B C D E]. constructor; assumption. Qed.
Lemma ast_tr_onerr x : ast_tinv x -> ast_tinv (ast_t_onerr x).
Proof. intros [A B C D E]. constructor; assumption. Qed.
Lemma ast_tr_done x : ast_tinv x -> ast_tinv (ast_t_done x).
Proof. intros [A B C D E]. constructor; assumption. Qed.

Lemma ast_new_owner w x : ast_ph_new x -> ast_ph_new (ast_t_owner w x).
Proof. intros H. exact H. Qed.

Lemma ast_tr_fail0 w x : ast_ph_new x -> ~ 0 < ast_R x -> ast_ph_fail (ast_t_owner w x).
Proof.
  intros (P1 & P2 & P3 & P4) HR. unfold ast_ph_fail, ast_R in *. cbn [ast_t_owner att_natt att_decided att_onerr att_done att_opt].
  rewrite P1, P2. cbn [length]. repeat split; try assumption; try lia. constructor.
Qed.

Lemma ast_tr_ok i x : ast_ph_dec i x -> att_err x = 0%Z -> ast_ph_fin x /\ att_done x = false.
Proof.
  intros (P1 & P2 & P3 & P4) He. split; [|exact P4]. split; [lia|]. left. repeat split; try assumption; lia.
Qed.

Lemma ast_tr_exhaust i x : ast_tinv x -> ast_ph_dec i x -> att_err x <> 0%Z -> ~ S i < ast_R x -> ast_ph_fail x.
Proof.
  intros T (P1 & P2 & P3 & P4) He HR. pose proof (ast_failed_all x T (ast_len_nonnil _ _ P2) He) as Hall.
  pose proof (tg_R _ T) as E. unfold ast_ph_fail. repeat split; try assumption; lia.
Qed.

Lemma ast_tr_cb x : ast_ph_fail x -> aso_onerr (att_opt x) = true ->
  ast_ph_fin (ast_t_onerr x) /\ att_done (ast_t_onerr x) = false.
Proof.
  intros (P1 & P2 & P3 & P4 & P5) Hc. split; [|exact P5]. unfold ast_ph_fin, ast_R in *.
  cbn [ast_t_onerr att_natt att_decided att_onerr att_done att_opt att_err]. split; [lia|]. right.
  rewrite Hc, P4. repeat split; try assumption.
Qed.

Lemma ast_tr_nocb x : ast_ph_fail x -> aso_onerr (att_opt x) = false -> ast_ph_fin x /\ att_done x = false.
Proof.
  intros (P1 & P2 & P3 & P4 & P5) Hc. split; [|exact P5]. unfold ast_ph_fin. split; [lia|]. right.
  rewrite Hc. repeat split; assumption.
Qed.

Lemma ast_tr_fin_done x : ast_ph_fin x -> ast_ph_fin (ast_t_done x).
Proof. intros H. exact H. Qed.

(* ------------------------------------------------------------------ the step *)
Lemma ast_step_pcs_but md n s tid hint : ast_pcs_but s (fst (fst (ast_step md n s tid hint))) tid.
Proof.
  unfold ast_step. destruct (nth_error (ast_thr s) tid) as [th|] eqn:Eth; [|intros j _; reflexivity].
  destruct th as [pc prog hs]. unfold ast_step_pc. cbn [ath_pc ath_prog ath_handles].
  destruct pc;
    repeat first [progress (unfold ast_wait_ctx; ast_cbn) | match goal with
    | |- context [match ?x with _ => _ end] => destruct x eqn:?
    end]; intros j Hne; ast_norm; ast_eqb; try congruence; reflexivity.
Qed.

Ltac dk_pc' Eth := ast_norm; rewrite ?Nat.eqb_refl, ?Eth; reflexivity.
Ltac dk_core := let t := fresh "t" in intros t; ast_norm; ast_eqb; try lia;
  repeat match goal with |- context [nth_error ?l ?t] => destruct (nth_error l t) eqn:? end;
  cbn; try reflexivity; try congruence.
Ltac dk_but := let t' := fresh "t'" in let Hne := fresh "Hne" in intros t' Hne; ast_norm; ast_fin.
Ltac dk_get s O1 t x Ex Ho :=
  pose proof (O1 t eq_refl) as Ho; unfold ast_town in Ho;
  destruct (nth_error (ast_tasks s) t) as [x|] eqn:Ex; [|discriminate Ho]; cbn [option_map] in Ho; injection Ho as Ho.
Ltac dk_same Dinv Eth Hoth :=
  eapply (ast_dinv_same _ _ _ _ _ Dinv);
  [ unfold ast_pc_of; rewrite Eth; reflexivity
  | exact Hoth
  | dk_pc' Eth
  | dk_core
  | first [left; reflexivity | right; split; [reflexivity|intros x0 Hx0; exact Hx0]] ].

Lemma ast_step_dinv n s tid hint :
  ast_inv s -> (forall i pc, ast_pc_of s i = Some pc -> ast_is_storeo pc = false) ->
  ast_dinv s -> ast_dinv (fst (fst (ast_step AstFixed n s tid hint))).
Proof.
  intros Inv Hns Dinv. pose proof (ast_step_pcs_but AstFixed n s tid hint) as Hoth. revert Hoth.
  unfold ast_step. destruct (nth_error (ast_thr s) tid) as [th|] eqn:Eth; [|intros _; exact Dinv].
  pose proof (Hns tid (ath_pc th)) as Hno. unfold ast_pc_of in Hno. rewrite Eth in Hno. specialize (Hno eq_refl).
  pose proof (ai_tthr _ Inv tid (ath_pc th)) as O1. unfold ast_pc_of in O1. rewrite Eth in O1.
  specialize (fun t => O1 t eq_refl).
  pose proof (di_pc _ Dinv tid (ath_pc th)) as P1. unfold ast_pc_of in P1. rewrite Eth in P1.
  specialize (fun t x => P1 t x eq_refl).
  pose proof (ai_tchan _ Inv) as I2.
  destruct th as [pc prog hs]. unfold ast_step_pc. cbn [ath_pc ath_prog ath_handles] in *.
  destruct pc; cbn [ast_pc_task ast_is_storeo] in O1, P1, Hno; try discriminate;
    repeat first [progress (unfold ast_wait_ctx; ast_cbn) | match goal with
    | |- context [match ?x with _ => _ end] => destruct x eqn:?
    end]; intros Hoth; try exact Dinv.
  all: try (dk_same Dinv Eth Hoth; fail).
  - (* newTaskCallback *)
    apply (ast_dinv_new s _ tid o Inv Dinv Hoth); [dk_pc' Eth|reflexivity].
  - (* Send on a closed pool *)
    dk_get s O1 t x Ex Ho. pose proof (P1 t x eq_refl Ex) as Ph. cbn [ast_pc_phase] in Ph.
    apply (ast_dinv_upd s _ tid AstIdle t x (ast_t_owner AwGone x) Inv Dinv Hoth);
      [dk_pc' Eth|exact Ex|ast_norm; rewrite Nat.eqb_refl, Ex; reflexivity|dk_but|left; exact Ho
      |apply ast_tr_owner; apply (di_t _ Dinv _ _ Ex)|intros t2 H2; discriminate H2|intros H2; discriminate H2|].
    intros Hd. destruct Ph as (_ & _ & _ & Hf). cbn in Hd. congruence.
  - (* taskChan <- task *)
    dk_get s O1 t x Ex Ho. pose proof (P1 t x eq_refl Ex) as Ph. cbn [ast_pc_phase] in Ph.
    apply (ast_dinv_upd s _ tid AstIdle t x (ast_t_owner AwChan x) Inv Dinv Hoth);
      [dk_pc' Eth|exact Ex|ast_norm; rewrite Nat.eqb_refl, Ex; reflexivity|dk_but|left; exact Ho
      |apply ast_tr_owner; apply (di_t _ Dinv _ _ Ex)|intros t2 H2; discriminate H2|intros _; apply ast_new_owner; exact Ph|].
    intros Hd. destruct Ph as (_ & _ & _ & Hf). cbn in Hd. congruence.
  - (* task := <-taskChan, first attempt *)
    assert (Hc : ast_town s n0 = Some AwChan) by (apply I2; left; reflexivity). unfold ast_town in Hc.
    destruct (nth_error (ast_tasks s) n0) as [x|] eqn:Ex; [|discriminate Hc]. cbn [option_map] in Hc. injection Hc as Hc.
    pose proof (di_chan _ Dinv _ _ Ex Hc) as Ph.
    assert (HR : 0 < ast_R x).
    { unfold ast_task_opt in Heqb1. ast_norm. rewrite Nat.eqb_refl, Ex in Heqb1. cbn [option_map att_opt ast_t_owner] in Heqb1. apply Nat.ltb_lt in Heqb1. exact Heqb1. }
    destruct (ast_tr_first (AwThread tid) x (di_t _ Dinv _ _ Ex) Ph HR) as [T1 T2].
    apply (ast_dinv_upd s _ tid (AstDEnq n0 (length (ast_atts s)) 0) n0 x (ast_t_natt (ast_t_owner (AwThread tid) x)) Inv Dinv Hoth);
      [dk_pc' Eth|exact Ex|ast_norm; rewrite !Nat.eqb_refl, Ex; reflexivity|dk_but|right; exact Hc
      |exact T1|intros t2 H2; injection H2 as <-; split; [reflexivity|exact T2]|intros H2; discriminate H2|].
    intros Hd. destruct Ph as (_ & _ & _ & Hf). cbn in Hd. congruence.
  - (* task := <-taskChan, retry = 0 *)
    assert (Hc : ast_town s n0 = Some AwChan) by (apply I2; left; reflexivity). unfold ast_town in Hc.
    destruct (nth_error (ast_tasks s) n0) as [x|] eqn:Ex; [|discriminate Hc]. cbn [option_map] in Hc. injection Hc as Hc.
    pose proof (di_chan _ Dinv _ _ Ex Hc) as Ph.
    assert (HR : ~ 0 < ast_R x).
    { unfold ast_task_opt in Heqb1. ast_norm. rewrite Nat.eqb_refl, Ex in Heqb1. cbn [option_map att_opt ast_t_owner] in Heqb1. apply Nat.ltb_ge in Heqb1. unfold ast_R. lia. }
    apply (ast_dinv_upd s _ tid (AstDOnErr n0) n0 x (ast_t_owner (AwThread tid) x) Inv Dinv Hoth);
      [dk_pc' Eth|exact Ex|ast_norm; rewrite !Nat.eqb_refl, Ex; reflexivity|dk_but|right; exact Hc
      |apply ast_tr_owner; apply (di_t _ Dinv _ _ Ex)
      |intros t2 H2; injection H2 as <-; split; [reflexivity|apply ast_tr_fail0; assumption]|intros H2; discriminate H2|].
    intros Hd. destruct Ph as (_ & _ & _ & Hf). cbn in Hd. congruence.
  - (* my.result, my.err = r.result, r.err *)
    dk_get s O1 t x Ex Ho. pose proof (P1 t x eq_refl Ex) as Ph. cbn [ast_pc_phase] in Ph.
    destruct (ast_tr_store v e i x (di_t _ Dinv _ _ Ex) Ph) as [T1 T2].
    apply (ast_dinv_upd s _ tid (AstDCancel t a i) t x (ast_t_store v e x) Inv Dinv Hoth);
      [dk_pc' Eth|exact Ex|ast_norm; rewrite !Nat.eqb_refl, Ex; reflexivity|dk_but|left; exact Ho
      |exact T1|intros t2 H2; injection H2 as <-; split; [reflexivity|exact T2]|intros H2; cbn in H2; congruence|].
    intros Hd. destruct Ph as (_ & _ & _ & Hf). cbn in Hd. congruence.
  - (* my.result, my.err = nil, DeadlineExceeded *)
    dk_get s O1 t x Ex Ho. pose proof (P1 t x eq_refl Ex) as Ph. cbn [ast_pc_phase] in Ph.
    destruct (ast_tr_store 0%Z ast_err_deadline i x (di_t _ Dinv _ _ Ex) Ph) as [T1 T2].
    apply (ast_dinv_upd s _ tid (AstDCancel t a i) t x (ast_t_store 0%Z ast_err_deadline x) Inv Dinv Hoth);
      [dk_pc' Eth|exact Ex|ast_norm; rewrite !Nat.eqb_refl, Ex; reflexivity|dk_but|left; exact Ho
      |exact T1|intros t2 H2; injection H2 as <-; split; [reflexivity|exact T2]|intros H2; cbn in H2; congruence|].
    intros Hd. destruct Ph as (_ & _ & _ & Hf). cbn in Hd. congruence.
  - (* if my.err == nil: done *)
    pose proof (O1 t eq_refl) as Ho. unfold ast_town in Ho. rewrite Heqo in Ho. cbn [option_map] in Ho. injection Ho as Ho.
    pose proof (P1 t a eq_refl Heqo) as Ph. cbn [ast_pc_phase] in Ph. apply Z.eqb_eq in Heqb.
    destruct (ast_tr_ok i a Ph Heqb) as [T1 T2].
    apply (ast_dinv_upd s _ tid (AstDWgDone t) t a a Inv Dinv Hoth);
      [dk_pc' Eth|exact Heqo|exact Heqo|dk_but|left; exact Ho
      |apply (di_t _ Dinv _ _ Heqo)|intros t2 H2; injection H2 as <-; split; [reflexivity|split; assumption]|congruence|congruence].
  - (* retry *)
    pose proof (O1 t eq_refl) as Ho. unfold ast_town in Ho. rewrite Heqo in Ho. cbn [option_map] in Ho. injection Ho as Ho.
    pose proof (P1 t a eq_refl Heqo) as Ph. cbn [ast_pc_phase] in Ph. apply Z.eqb_neq in Heqb. apply Nat.ltb_lt in Heqb0.
    destruct (ast_tr_retry i a (di_t _ Dinv _ _ Heqo) Ph Heqb Heqb0) as [T1 T2].
    apply (ast_dinv_upd s _ tid (AstDEnq t (length (ast_atts s)) (S i)) t a (ast_t_natt a) Inv Dinv Hoth);
      [dk_pc' Eth|exact Heqo|ast_norm; rewrite !Nat.eqb_refl, Heqo; reflexivity|dk_but|left; exact Ho
      |exact T1|intros t2 H2; injection H2 as <-; split; [reflexivity|exact T2]|intros H2; cbn in H2; congruence|].
    intros Hd. destruct Ph as (_ & _ & _ & Hf). cbn in Hd. congruence.
  - (* retries exhausted *)
    pose proof (O1 t eq_refl) as Ho. unfold ast_town in Ho. rewrite Heqo in Ho. cbn [option_map] in Ho. injection Ho as Ho.
    pose proof (P1 t a eq_refl Heqo) as Ph. cbn [ast_pc_phase] in Ph. apply Z.eqb_neq in Heqb. apply Nat.ltb_ge in Heqb0.
    assert (T2 : ast_ph_fail a) by (apply (ast_tr_exhaust i a (di_t _ Dinv _ _ Heqo) Ph Heqb); unfold ast_R; lia).
    apply (ast_dinv_upd s _ tid (AstDOnErr t) t a a Inv Dinv Hoth);
      [dk_pc' Eth|exact Heqo|exact Heqo|dk_but|left; exact Ho
      |apply (di_t _ Dinv _ _ Heqo)|intros t2 H2; injection H2 as <-; split; [reflexivity|exact T2]|congruence|].
    intros Hd. destruct Ph as (_ & _ & _ & Hf). congruence.
  - (* onError(my.err) *)
    dk_get s O1 t x Ex Ho. pose proof (P1 t x eq_refl Ex) as Ph. cbn [ast_pc_phase] in Ph.
    unfold ast_task_opt in Heqb. rewrite Ex in Heqb.
    destruct (ast_tr_cb x Ph Heqb) as [T1 T2].
    apply (ast_dinv_upd s _ tid (AstDWgDone t) t x (ast_t_onerr x) Inv Dinv Hoth);
      [dk_pc' Eth|exact Ex|ast_norm; rewrite !Nat.eqb_refl, Ex; reflexivity|dk_but|left; exact Ho
      |apply ast_tr_onerr; apply (di_t _ Dinv _ _ Ex)|intros t2 H2; injection H2 as <-; split; [reflexivity|split; assumption]
      |intros H2; cbn in H2; congruence|intros H2; congruence].
  - (* no error callback *)
    dk_get s O1 t x Ex Ho. pose proof (P1 t x eq_refl Ex) as Ph. cbn [ast_pc_phase] in Ph.
    unfold ast_task_opt in Heqb. rewrite Ex in Heqb.
    destruct (ast_tr_nocb x Ph Heqb) as [T1 T2].
    apply (ast_dinv_upd s _ tid (AstDWgDone t) t x x Inv Dinv Hoth);
      [dk_pc' Eth|exact Ex|exact Ex|dk_but|left; exact Ho
      |apply (di_t _ Dinv _ _ Ex)|intros t2 H2; injection H2 as <-; split; [reflexivity|split; assumption]
      |congruence|congruence].
  - (* wg.Done() *)
    dk_get s O1 t x Ex Ho. pose proof (P1 t x eq_refl Ex) as Ph. cbn [ast_pc_phase] in Ph. destruct Ph as [Ph Hd].
    apply (ast_dinv_upd s _ tid AstDRecv t x (ast_t_done x) Inv Dinv Hoth);
      [dk_pc' Eth|exact Ex|ast_norm; rewrite !Nat.eqb_refl, Ex; reflexivity|dk_but|left; exact Ho
      |apply ast_tr_done; apply (di_t _ Dinv _ _ Ex)|intros t2 H2; discriminate H2
      |intros H2; discriminate H2|intros _; split; [reflexivity|apply ast_tr_fin_done; exact Ph]].
Qed.

Lemma ast_init_dinv n progs : ast_dinv (ast_init n progs).
Proof.
  constructor; cbn [ast_init ast_tasks].
  - intros t x H; destruct t; discriminate H.
  - intros i pc t x _ _ H; destruct t; discriminate H.
  - intros t x H; destruct t; discriminate H.
  - intros t x H; destruct t; discriminate H.
Qed.

Lemma ast_run_dinv n sched : forall s,
  ast_inv s -> (forall i pc, ast_pc_of s i = Some pc -> ast_is_storeo pc = false) -> ast_dinv s ->
  ast_dinv (ast_run AstFixed n s sched).
Proof.
  induction sched as [|[tid h] r IH]; intros s Inv Hns D; [exact D|]. cbn [ast_run fold_left]. apply IH.
  - unfold ast_next. cbn [fst snd]. apply ast_step_inv. exact Inv.
  - unfold ast_next. cbn [fst snd]. apply ast_step_no_storeo. exact Hns.
  - unfold ast_next. cbn [fst snd]. apply ast_step_dinv; assumption.
Qed.

Lemma ast_reach_nostoreo n progs s : ast_reach AstFixed n progs s ->
  forall i pc, ast_pc_of s i = Some pc -> ast_is_storeo pc = false.
Proof.
  intros [sched ->]. apply ast_run_no_storeo.
  intros i pc H1. destruct (ast_init_pcs _ _ _ _ H1) as [->|[->| ->]]; reflexivity.
Qed.

Lemma ast_reach_dinv n progs s : ast_reach AstFixed n progs s -> ast_dinv s.
Proof.
  intros R. pose proof R as [sched ->]. apply ast_run_dinv.
  - apply ast_init_inv.
  - intros i pc H1. destruct (ast_init_pcs _ _ _ _ H1) as [->|[->| ->]]; reflexivity.
  - apply ast_init_dinv.
Qed.
