(* SortSeqProofs.v -- lemmas about models/SortSeq.v (nested less, array store, call sequences). *)
From Got Require Import Base Sort SortProofs SortSeq.
Require Import Permutation.
Local Open Scope Z_scope.

(* ---------- the nested less ---------- *)
Lemma srt_sliceby_two {K V} (less : K -> K -> bool) (y x : K) (a b : V) :
  srt_sliceby less [y; x] [a; b] =
  SOk (if less x y then mk_srt_state [x; y] [b; a] 1%N [1; 0; 0; 0; 0; 0; 0; 0]%N
       else mk_srt_state [y; x] [a; b] 1%N [1; 0; 0; 0; 0; 0; 0; 0]%N).
Proof. vm_compute. destruct (less x y); reflexivity. Qed.

(* the less that sorts a two-element slice to decide IS x < y *)
Lemma srt_less_nested0_ltb x y : srt_less_nested 0 x y = (x <? y).
Proof.
  unfold srt_less_nested, srt_nested_keys. cbn [seq rev map length Z.of_nat].
  rewrite srt_sliceby_two. destruct (x <? y); reflexivity.
Qed.

Lemma srt_less_nested0_swo :
  (forall x, srt_less_nested 0 x x = false) /\
  (forall x y z, srt_less_nested 0 x y = true -> srt_less_nested 0 y z = true -> srt_less_nested 0 x z = true) /\
  (forall x y z, srt_less_nested 0 x y = false -> srt_less_nested 0 y z = false -> srt_less_nested 0 x z = false).
Proof.
  split; [|split]; intros *; rewrite !srt_less_nested0_ltb.
  - apply Z.ltb_irrefl.
  - intros H1 H2. apply Z.ltb_lt in H1. apply Z.ltb_lt in H2. apply Z.ltb_lt. lia.
  - intros H1 H2. apply Z.ltb_ge in H1. apply Z.ltb_ge in H2. apply Z.ltb_ge. lia.
Qed.

(* ---------- slices of a backing array ---------- *)
Section Splice.
  Context {A : Type}.
  Implicit Types l s : list A.

  Lemma srt_splice_length l o s :
    (o + length s <= length l)%nat -> length (srt_splice l o s) = length l.
  Proof.
    intros H. unfold srt_splice. rewrite !app_length, firstn_length, skipn_length. lia.
  Qed.

  Lemma srt_splice_before l o s :
    (o <= length l)%nat -> firstn o (srt_splice l o s) = firstn o l.
  Proof.
    intros H. unfold srt_splice.
    rewrite firstn_app, firstn_firstn, Nat.min_id, firstn_length, Nat.min_l by lia.
    rewrite Nat.sub_diag. cbn. apply app_nil_r.
  Qed.

  Lemma srt_splice_after l o s :
    (o <= length l)%nat ->
    skipn (o + length s) (srt_splice l o s) = skipn (o + length s) l.
  Proof.
    intros H. unfold srt_splice.
    rewrite skipn_app, firstn_length, Nat.min_l by lia.
    rewrite (skipn_all2 (firstn o l)) by (rewrite firstn_length; lia). cbn [app].
    replace (o + length s - o)%nat with (length s) by lia.
    rewrite skipn_app, Nat.sub_diag, skipn_all. reflexivity.
  Qed.

  Lemma srt_splice_slice l o s :
    (o <= length l)%nat -> srt_slice (srt_splice l o s) o (length s) = s.
  Proof.
    intros H. unfold srt_slice, srt_splice.
    rewrite skipn_app, firstn_length, Nat.min_l by lia.
    rewrite (skipn_all2 (firstn o l)) by (rewrite firstn_length; lia). cbn [app].
    rewrite Nat.sub_diag. cbn [skipn].
    rewrite firstn_app, Nat.sub_diag, firstn_all. cbn. apply app_nil_r.
  Qed.

  Lemma srt_slice_length l o n : (o + n <= length l)%nat -> length (srt_slice l o n) = n.
  Proof. intros H. unfold srt_slice. rewrite firstn_length, skipn_length. lia. Qed.
End Splice.

(* ---------- one call on the store ---------- *)
Lemma srt_in_bounds_inv lk lv c :
  srt_call_in_bounds lk lv c = true ->
  (stc_ko c + stc_nk c <= lk)%nat /\ (stc_vo c + stc_nv c <= lv)%nat /\
  match stc_data c with None => True | Some (d, e) => length d = stc_nk c /\ length e = stc_nv c end.
Proof.
  unfold srt_call_in_bounds. intros H.
  apply andb_true_iff in H. destruct H as [H H3]. apply andb_true_iff in H. destruct H as [H1 H2].
  apply Nat.leb_le in H1. apply Nat.leb_le in H2. split; [exact H1|]. split; [exact H2|].
  destruct (stc_data c) as [[d e]|]; [|exact I].
  apply andb_true_iff in H3. destruct H3 as [Hd He].
  apply Nat.eqb_eq in Hd. apply Nat.eqb_eq in He. split; assumption.
Qed.

Lemma srt_call_lengths st c :
  srt_call_in_bounds (length (sto_keys st)) (length (sto_vals st)) c = true ->
  length (srt_call_keys st c) = stc_nk c /\ length (srt_call_vals st c) = stc_nv c.
Proof.
  intros H. apply srt_in_bounds_inv in H. destruct H as (H1 & H2 & H3).
  unfold srt_call_keys, srt_call_vals. destruct (stc_data c) as [[d e]|].
  - exact H3.
  - split; apply srt_slice_length; assumption.
Qed.

(* a call in bounds never panics; its effect on the store is: the two slices are replaced by
   the result of the stand-alone call on their contents, nothing else changes *)
Lemma srt_store_call_spec st c :
  srt_call_in_bounds (length (sto_keys st)) (length (sto_vals st)) c = true ->
  exists s,
    srt_sliceby (srt_less_mode2 (stc_mode c)) (srt_call_keys st c) (srt_call_vals st c) = SOk s /\
    length (st_keys s) = stc_nk c /\ length (st_vals s) = stc_nv c /\
    srt_store_call st c =
      SOk (StoMk (srt_splice (sto_keys st) (stc_ko c) (st_keys s))
                 (srt_splice (sto_vals st) (stc_vo c) (st_vals s)), st_cmp s).
Proof.
  intros Hb.
  destruct (sliceby_no_panic (srt_less_mode2 (stc_mode c)) (srt_call_keys st c) (srt_call_vals st c)) as (s & Hs).
  exists s. split; [exact Hs|].
  destruct (sliceby_perm_coupled _ _ _ _ Hs) as (Hlk & Hlv & _).
  destruct (srt_call_lengths st c Hb) as (Hk & Hv).
  split; [lia|]. split; [lia|].
  unfold srt_store_call. rewrite Hb, Hs. reflexivity.
Qed.

Lemma srt_store_call_frame st c st' n :
  srt_call_in_bounds (length (sto_keys st)) (length (sto_vals st)) c = true ->
  srt_store_call st c = SOk (st', n) ->
  length (sto_keys st') = length (sto_keys st) /\ length (sto_vals st') = length (sto_vals st) /\
  firstn (stc_ko c) (sto_keys st') = firstn (stc_ko c) (sto_keys st) /\
  skipn (stc_ko c + stc_nk c) (sto_keys st') = skipn (stc_ko c + stc_nk c) (sto_keys st) /\
  firstn (stc_vo c) (sto_vals st') = firstn (stc_vo c) (sto_vals st) /\
  skipn (stc_vo c + stc_nv c) (sto_vals st') = skipn (stc_vo c + stc_nv c) (sto_vals st).
Proof.
  intros Hb Hc. destruct (srt_store_call_spec st c Hb) as (s & _ & Hk & Hv & Hr).
  rewrite Hr in Hc. inversion Hc. subst st' n. cbn [sto_keys sto_vals].
  apply srt_in_bounds_inv in Hb. destruct Hb as (H1 & H2 & _).
  repeat split.
  - apply srt_splice_length. lia.
  - apply srt_splice_length. lia.
  - apply srt_splice_before. lia.
  - rewrite <- Hk. apply srt_splice_after. lia.
  - apply srt_splice_before. lia.
  - rewrite <- Hv. apply srt_splice_after. lia.
Qed.

(* HISTORY INDEPENDENCE: two stores (= two histories of earlier calls, two capacities, two
   contents outside the slices) on which the call sees the same keys and values: the call
   returns normally on both, makes the same number of less calls, and leaves the same
   contents in its two slices *)
Lemma srt_store_call_history_independent st1 st2 c :
  srt_call_in_bounds (length (sto_keys st1)) (length (sto_vals st1)) c = true ->
  srt_call_in_bounds (length (sto_keys st2)) (length (sto_vals st2)) c = true ->
  srt_call_keys st1 c = srt_call_keys st2 c ->
  srt_call_vals st1 c = srt_call_vals st2 c ->
  exists st1' st2' n,
    srt_store_call st1 c = SOk (st1', n) /\ srt_store_call st2 c = SOk (st2', n) /\
    srt_slice (sto_keys st1') (stc_ko c) (stc_nk c) = srt_slice (sto_keys st2') (stc_ko c) (stc_nk c) /\
    srt_slice (sto_vals st1') (stc_vo c) (stc_nv c) = srt_slice (sto_vals st2') (stc_vo c) (stc_nv c).
Proof.
  intros Hb1 Hb2 Ek Ev.
  destruct (srt_store_call_spec st1 c Hb1) as (s1 & Hs1 & Hk1 & Hv1 & Hr1).
  destruct (srt_store_call_spec st2 c Hb2) as (s2 & Hs2 & Hk2 & Hv2 & Hr2).
  rewrite Ek, Ev in Hs1. rewrite Hs1 in Hs2. inversion Hs2. subst s2.
  eexists _, _, _. split; [exact Hr1|]. split; [exact Hr2|]. cbn [sto_keys sto_vals].
  apply srt_in_bounds_inv in Hb1. destruct Hb1 as (A1 & A2 & _).
  apply srt_in_bounds_inv in Hb2. destruct Hb2 as (B1 & B2 & _).
  rewrite <- Hk1, <- Hv1. rewrite !srt_splice_slice by lia. split; reflexivity.
Qed.

(* ---------- sequences ---------- *)
Definition srt_res_ok {A} (r : srt_res A) : bool := match r with SOk _ => true | _ => false end.

Lemma srt_run_calls_no_panic : forall cs st,
  forallb (srt_call_in_bounds (length (sto_keys st)) (length (sto_vals st))) cs = true ->
  length (srt_run_calls st cs) = length cs /\ forallb srt_res_ok (srt_run_calls st cs) = true.
Proof.
  induction cs as [|c rest IH]; intros st H; [split; reflexivity|].
  cbn [forallb] in H. apply andb_true_iff in H. destruct H as [Hc Hrest].
  cbn [srt_run_calls].
  destruct (srt_store_call_spec st c Hc) as (s & _ & _ & _ & Hr). rewrite Hr.
  destruct (srt_store_call_frame st c _ _ Hc Hr) as (Lk & Lv & _).
  specialize (IH (StoMk (srt_splice (sto_keys st) (stc_ko c) (st_keys s))
                        (srt_splice (sto_vals st) (stc_vo c) (st_vals s)))).
  rewrite Lk, Lv in IH. destruct (IH Hrest) as (IH1 & IH2).
  split; [cbn [length]; rewrite IH1; reflexivity|]. cbn [forallb srt_res_ok]. exact IH2.
Qed.

(* the i-th call of a sequence is the stand-alone store call on the store the earlier calls
   left; in particular (srt_store_call_spec) the stand-alone SliceBy on the slice contents *)
Lemma srt_run_calls_app st pre c post :
  forallb (srt_call_in_bounds (length (sto_keys st)) (length (sto_vals st))) pre = true ->
  exists st_i, nth_error (srt_run_calls st (pre ++ c :: post)) (length pre) = Some (srt_store_call st_i c) /\
               length (sto_keys st_i) = length (sto_keys st) /\ length (sto_vals st_i) = length (sto_vals st).
Proof.
  revert st. induction pre as [|p pre IH]; intros st H.
  - exists st. cbn [app length srt_run_calls nth_error].
    destruct (srt_store_call st c) as [[st' n]| |]; cbn; auto.
  - cbn [forallb] in H. apply andb_true_iff in H. destruct H as [Hp Hpre].
    cbn [app length srt_run_calls].
    destruct (srt_store_call_spec st p Hp) as (s & _ & _ & _ & Hr). rewrite Hr.
    destruct (srt_store_call_frame st p _ _ Hp Hr) as (Lk & Lv & _).
    cbn [nth_error].
    match goal with |- context [srt_run_calls ?st1 _] => specialize (IH st1) end.
    rewrite Lk, Lv in IH. destruct (IH Hpre) as (st_i & E & L1 & L2).
    exists st_i. split; [exact E|]. split; lia.
Qed.
