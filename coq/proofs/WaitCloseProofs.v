(* WaitCloseProofs.v -- the invariant of proofs/WaitCloseInv.v lifted to every run of the WaitClose
   model, and the facts the C16 theorems are made of. *)
From Got Require Import Base WaitClose WaitCloseInv.
Local Open Scope nat_scope.

(* ------------------------------------------------------------------ lifting to states and runs *)
Lemma wc_set_thread_length l i th : i < length l -> length (wc_set_thread l i th) = length l.
Proof.
  intros Hi. unfold wc_set_thread. rewrite app_length. cbn [length].
  rewrite firstn_length, skipn_length. lia.
Qed.

Lemma wc_set_thread_same l i th : i < length l -> nth_error (wc_set_thread l i th) i = Some th.
Proof.
  intros Hi. unfold wc_set_thread. rewrite nth_error_app2; rewrite firstn_length; [|lia].
  replace (i - Nat.min i (length l)) with 0 by lia. reflexivity.
Qed.

Lemma wc_set_thread_other l i j th :
  i < length l -> j <> i -> nth_error (wc_set_thread l i th) j = nth_error l j.
Proof.
  unfold wc_set_thread.
  revert i j. induction l as [|x l IH]; intros i j Hi Hj; cbn [length] in Hi; [lia|].
  destruct i as [|i]; destruct j as [|j]; cbn; try reflexivity; try lia.
  apply IH; lia.
Qed.

Lemma wc_step_inv h s it s' acts :
  wc_inv h s -> wc_step s it = (s', acts) ->
  wc_inv (h ++ map (pair (wc_item_tid it)) acts) s'.
Proof.
  intros [G L] H. unfold wc_step in H.
  set (i := wc_item_tid it) in *.
  destruct (nth_error (wc_threads s) i) as [th|] eqn:E.
  2:{ inversion H; subst. cbn [map]. rewrite app_nil_r. split; assumption. }
  assert (Hi : i < length (wc_threads s)) by (apply nth_error_Some; congruence).
  destruct (wc_step_pc (wc_sh s) i match it with ITimeout _ => true | IRun _ => false end
                       (wc_pcof th) (wc_todo th)) as [[[g' pc'] todo'] a] eqn:Hs.
  inversion H; subst s' acts; clear H.
  destruct (wc_step_pc_inv _ _ _ _ _ _ _ _ _ _ _ G (L i th E) Hi Hs) as (G' & L' & F).
  split; cbn [wc_sh wc_threads].
  - rewrite wc_set_thread_length by exact Hi. exact G'.
  - intros j thj Hj. destruct (Nat.eq_dec j i) as [-> | Hne].
    + rewrite wc_set_thread_same in Hj by exact Hi. inversion Hj; subst. exact L'.
    + rewrite wc_set_thread_other in Hj by assumption.
      eapply wc_linv_frame; [exact Hne | exact F | apply L; exact Hj].
Qed.

Lemma wc_init_inv progs : wc_inv [] (wc_init progs).
Proof.
  split.
  - unfold wc_ginv. cbn. repeat split; try discriminate; try constructor; intros; try discriminate; try congruence.
  - intros i th Hn. unfold wc_init in Hn. cbn [wc_threads] in Hn.
    apply nth_error_In in Hn. apply in_map_iff in Hn. destruct Hn as [p [<- _]].
    unfold wc_linv. cbn. split; [split; discriminate | exact I].
Qed.

Lemma wc_run_inv h0 s sched :
  wc_inv h0 s -> wc_inv (h0 ++ wc_history s sched) (wc_final s sched).
Proof.
  unfold wc_history, wc_final. revert h0 s.
  induction sched as [|it r IH]; intros h0 s H; cbn [wc_run].
  - cbn [fst snd]. rewrite app_nil_r. exact H.
  - destruct (wc_step s it) as [s1 acts] eqn:E. destruct (wc_run s1 r) as [s2 h2] eqn:E2.
    cbn [fst snd]. specialize (IH _ _ (wc_step_inv _ _ _ _ _ H E)). rewrite E2 in IH. cbn [fst snd] in IH.
    rewrite <- app_assoc in IH. exact IH.
Qed.

Theorem wc_reachable_inv progs sched :
  wc_inv (wc_history (wc_init progs) sched) (wc_final (wc_init progs) sched).
Proof. apply (wc_run_inv [] _ sched). apply wc_init_inv. Qed.

(* ------------------------------------------------------------------ what one step can do *)
Lemma wc_step_pc_facts h g i tmo pc todo g' pc' todo' acts :
  wc_linv h g i pc -> wc_step_pc g i tmo pc todo = (g', pc', todo', acts) ->
  (forall r, In (ARetClose r) acts -> sh_st g = WClosed /\ g' = g) /\
  (forall b, In (ARetIsClosed b) acts -> b = wc_is_closed_st (sh_st g) /\ g' = g) /\
  (forall c, In (ARetC c) acts \/ In (AWaitOn c) acts -> c = sh_ch g /\ sh_st g <> WNew /\ g' = g) /\
  (forall b, In (ARetWait b) acts ->
     b = wc_closedb g (sh_ch g) /\ sh_st g <> WNew /\ g' = g /\ (b = false -> tmo = true)) /\
  (sh_ch g' <> sh_ch g -> sh_own g = Some i /\ sh_st g = WNew) /\
  (sh_st g' <> sh_st g -> sh_own g = Some i) /\
  (sh_clo g' <> sh_clo g -> sh_own g = Some i) /\
  (In ALock acts -> sh_own g = None /\ sh_own g' = Some i) /\
  (In AUnlock acts -> sh_own g = Some i /\ sh_own g' = None) /\
  (sh_own g' <> sh_own g -> In ALock acts \/ In AUnlock acts) /\
  (In ACbStart acts -> exists ch, In (APerform ch) acts) /\
  (forall o, In (ACbEnd o) acts -> In AStore acts /\ sh_st g' = WClosed) /\
  (sh_st g = WClosed -> sh_st g' = WClosed).
Proof.
  intros (L1 & L2) H.
  destruct g as [st ch nm clo own].
  unfold wc_step_pc, wc_finish, wc_perform, sh_set_own, sh_set_st, sh_set_ch, wc_is_closed_st, wc_is_new_st in H.
  cbn [sh_st sh_ch sh_nmade sh_clo sh_own] in *.
  destruct tmo; destruct pc;
    repeat (cbn beta iota zeta in H; cbn [sh_st sh_ch sh_nmade sh_clo sh_own] in H; wc_destr H);
    cbn beta iota zeta in H;
    inversion H; subst; clear H; cbn [wc_hold sh_st sh_ch sh_nmade sh_clo sh_own In] in *;
    wc_split; subst;
    repeat split; intros;
    repeat match goal with
      | H : _ \/ _ |- _ => destruct H
      | H : False |- _ => contradiction
      | H : _ /\ _ |- _ => destruct H
      | H : ?a = ?b |- _ => first [discriminate H | (is_var b; subst b) | (injection H; clear H; intros; subst)]
      end;
    try solve [ reflexivity | congruence | tauto | (apply L1; reflexivity) | (eexists; cbn [In]; eauto)
              | (cbn [wc_closedb wc_is_closed_st]; intuition congruence) ].
Qed.

Definition wc_item_tmo (it : wc_item) : bool := match it with ITimeout _ => true | IRun _ => false end.

Lemma wc_step_unfold s it s' acts :
  wc_step s it = (s', acts) ->
  (s' = s /\ acts = [] /\ nth_error (wc_threads s) (wc_item_tid it) = None) \/
  exists th g' pc' todo',
    nth_error (wc_threads s) (wc_item_tid it) = Some th /\
    wc_step_pc (wc_sh s) (wc_item_tid it) (wc_item_tmo it) (wc_pcof th) (wc_todo th) = (g', pc', todo', acts) /\
    s' = {| wc_sh := g';
            wc_threads := wc_set_thread (wc_threads s) (wc_item_tid it) {| wc_pcof := pc'; wc_todo := todo' |} |}.
Proof.
  unfold wc_step, wc_item_tmo. intros H.
  destruct (nth_error (wc_threads s) (wc_item_tid it)) as [th|] eqn:E.
  - right. destruct (wc_step_pc (wc_sh s) (wc_item_tid it) match it with ITimeout _ => true | IRun _ => false end
                                (wc_pcof th) (wc_todo th)) as [[[g' pc'] todo'] a] eqn:Hs.
    inversion H; subst. exists th, g', pc', todo'. auto.
  - left. inversion H; subst. auto.
Qed.

(* facts of a step from a state that satisfies the invariant, on states *)
Lemma wc_step_facts h s it s' acts :
  wc_inv h s -> wc_step s it = (s', acts) ->
  let g := wc_sh s in let g' := wc_sh s' in let i := wc_item_tid it in
  (forall r, In (ARetClose r) acts -> sh_st g = WClosed /\ g' = g) /\
  (forall b, In (ARetIsClosed b) acts -> b = wc_is_closed_st (sh_st g) /\ g' = g) /\
  (forall c, In (ARetC c) acts \/ In (AWaitOn c) acts -> c = sh_ch g /\ sh_st g <> WNew /\ g' = g) /\
  (forall b, In (ARetWait b) acts ->
     b = wc_closedb g (sh_ch g) /\ sh_st g <> WNew /\ g' = g /\ (b = false -> wc_item_tmo it = true)) /\
  (sh_ch g' <> sh_ch g -> sh_own g = Some i /\ sh_st g = WNew) /\
  (sh_st g' <> sh_st g -> sh_own g = Some i) /\
  (sh_clo g' <> sh_clo g -> sh_own g = Some i) /\
  (In ALock acts -> sh_own g = None /\ sh_own g' = Some i) /\
  (In AUnlock acts -> sh_own g = Some i /\ sh_own g' = None) /\
  (sh_own g' <> sh_own g -> In ALock acts \/ In AUnlock acts) /\
  (In ACbStart acts -> exists ch, In (APerform ch) acts) /\
  (forall o, In (ACbEnd o) acts -> In AStore acts /\ sh_st g' = WClosed) /\
  (sh_st g = WClosed -> sh_st g' = WClosed).
Proof.
  intros [G L] H. destruct (wc_step_unfold _ _ _ _ H) as [(-> & -> & _) | (th & g1 & pc1 & todo1 & E & Hs & ->)].
  - cbn [In]. repeat split; intros; try contradiction; try tauto; try congruence.
  - cbn [wc_sh]. exact (wc_step_pc_facts _ _ _ _ _ _ _ _ _ _ (L _ _ E) Hs).
Qed.

(* ------------------------------------------------------------------ reading the invariant *)
Lemma wc_in_cb_ends h i o : In (i, ACbEnd o) h -> In i (wc_cb_ends h).
Proof. intros H. unfold wc_cb_ends. apply in_flat_map. exists (i, ACbEnd o). split; [exact H | left; reflexivity]. Qed.

Lemma wc_in_cb_starts h i : In (i, ACbStart) h -> In i (wc_cb_starts h).
Proof. intros H. unfold wc_cb_starts. apply in_flat_map. exists (i, ACbStart). split; [exact H | left; reflexivity]. Qed.

Lemma wc_in_close_rets h i r : In (i, ARetClose r) h -> In i (wc_close_rets h).
Proof. intros H. unfold wc_close_rets. apply in_flat_map. exists (i, ARetClose r). split; [exact H | left; reflexivity]. Qed.

Lemma wc_in_close_panics h i : In (i, APanicClose) h -> In i (wc_close_panics h).
Proof. intros H. unfold wc_close_panics. apply in_flat_map. exists (i, APanicClose). split; [exact H | left; reflexivity]. Qed.

(* the three phases of the object, read off the invariant *)
Lemma wc_ginv_cases h g n :
  wc_ginv h g n ->
  (wc_performs h = [] /\ sh_st g <> WClosed /\ wc_closedb g (sh_ch g) = false /\ sh_clo g = [] /\
   wc_cb_starts h = [] /\ wc_cb_ends h = [] /\ wc_close_rets h = [] /\
   (sh_st g = WNew -> sh_ch g = WNil) /\ (sh_st g = WInit -> exists c, sh_ch g = WMade c)) \/
  (exists p, wc_performs h = [(p, sh_ch g)] /\ wc_closedb g (sh_ch g) = true /\
     ((sh_st g = WClosed /\ wc_cb_ends h = wc_cb_starts h /\ (wc_cb_starts h = [] \/ wc_cb_starts h = [p])) \/
      (sh_st g <> WClosed /\ sh_own g = Some p /\ wc_cb_starts h = [p] /\ wc_cb_ends h = [] /\
       wc_close_rets h = []))).
Proof.
  intros (G1 & G2 & G3 & G4 & G5).
  destruct (wc_performs h) as [|[p pch] [|? ?]] eqn:Ep; [| |contradiction].
  - left. destruct G5 as (A1 & A2 & A3 & A4 & A5 & A6 & A7). repeat split; try assumption.
    destruct (sh_st g) eqn:Es; try congruence.
    + rewrite (A2 eq_refl). reflexivity.
    + destruct (A3 eq_refl) as [c Ec]. rewrite Ec. cbn. rewrite A4. reflexivity.
  - right. destruct G5 as (A1 & A2 & A3). exists p. subst pch. repeat split; assumption.
Qed.

Lemma wc_ginv_not_nil h g n : wc_ginv h g n -> ~ In WNil (wc_ret_chans h).
Proof.
  intros G Hin. pose proof G as (G1 & G2 & G3 & G4 & G5).
  assert (Hne : wc_ret_chans h <> []) by (intros E; rewrite E in Hin; exact Hin).
  specialize (G3 Hne). rewrite Forall_forall in G4. specialize (G4 _ Hin).
  destruct (wc_ginv_cases _ _ _ G) as [(A1 & A2 & A3 & A4 & A5 & A6 & A7 & A8 & A9) | (p & B1 & B2 & B3)].
  - destruct (sh_st g) eqn:Es; try congruence. destruct (A9 eq_refl) as [c Ec]. congruence.
  - rewrite <- G4 in B2. discriminate.
Qed.

Lemma wc_ginv_chans_closed h g n :
  wc_ginv h g n -> wc_performs h <> [] -> Forall (fun c => wc_closedb g c = true) (wc_ret_chans h).
Proof.
  intros G Hp. pose proof G as (G1 & G2 & G3 & G4 & G5).
  destruct (wc_ginv_cases _ _ _ G) as [(A1 & _) | (p & B1 & B2 & B3)]; [contradiction|].
  eapply Forall_impl; [|exact G4]. intros c ->. exact B2.
Qed.

Lemma wc_ginv_close_ret h g n :
  wc_ginv h g n -> wc_close_rets h <> [] ->
  sh_st g = WClosed /\ wc_cb_ends h = wc_cb_starts h /\ wc_closedb g (sh_ch g) = true /\
  exists p, wc_performs h = [(p, sh_ch g)].
Proof.
  intros G Hr.
  destruct (wc_ginv_cases _ _ _ G) as [(A1 & A2 & A3 & A4 & A5 & A6 & A7 & _) | (p & B1 & B2 & [B3 | B3])].
  - contradiction.
  - destruct B3 as (C1 & C2 & C3). repeat split; try assumption. exists p. exact B1.
  - destruct B3 as (C1 & C2 & C3 & C4 & C5). contradiction.
Qed.

Lemma wc_ginv_closed_state h g n :
  wc_ginv h g n -> sh_st g = WClosed ->
  wc_cb_ends h = wc_cb_starts h /\ wc_closedb g (sh_ch g) = true /\ exists p, wc_performs h = [(p, sh_ch g)].
Proof.
  intros G Hc.
  destruct (wc_ginv_cases _ _ _ G) as [(A1 & A2 & _) | (p & B1 & B2 & [B3 | B3])].
  - contradiction.
  - destruct B3 as (C1 & C2 & C3). repeat split; try assumption. exists p. exact B1.
  - destruct B3 as (C1 & _). contradiction.
Qed.

Lemma wc_ginv_one_callback h g n :
  wc_ginv h g n ->
  length (wc_cb_starts h) <= 1 /\ length (wc_performs h) <= 1 /\
  (forall i, In i (wc_cb_starts h) -> wc_performs h = [(i, sh_ch g)]) /\
  (forall i, In i (wc_cb_ends h) -> In i (wc_cb_starts h)).
Proof.
  intros G.
  destruct (wc_ginv_cases _ _ _ G) as [(A1 & A2 & A3 & A4 & A5 & A6 & A7 & _) | (p & B1 & B2 & [B3 | B3])].
  - rewrite A1, A5, A6. cbn. repeat split; try lia; intros i [].
  - destruct B3 as (C1 & C2 & [C3 | C3]); rewrite B1, C2, C3; cbn; repeat split; try lia; try tauto.
    intros i [<- | []]. reflexivity.
  - destruct B3 as (C1 & C2 & C3 & C4 & C5). rewrite B1, C3, C4. cbn. repeat split; try lia; try tauto.
    intros i [<- | []]. reflexivity.
Qed.

Lemma wc_ginv_cb_end_closed h g n :
  wc_ginv h g n -> wc_cb_ends h <> [] -> sh_st g = WClosed /\ wc_closedb g (sh_ch g) = true.
Proof.
  intros G He.
  destruct (wc_ginv_cases _ _ _ G) as [(A1 & A2 & A3 & A4 & A5 & A6 & _) | (p & B1 & B2 & [B3 | B3])].
  - contradiction.
  - destruct B3 as (C1 & _). split; assumption.
  - destruct B3 as (C1 & C2 & C3 & C4 & C5). contradiction.
Qed.

(* ------------------------------------------------------------------ the C16 facts *)
Lemma wc_one_callback_pf progs sched :
  let h := wc_history (wc_init progs) sched in
  length (wc_cb_starts h) <= 1 /\ length (wc_performs h) <= 1 /\
  (forall i, In (i, ACbStart) h -> exists ch, wc_performs h = [(i, ch)]) /\
  (forall i o, In (i, ACbEnd o) h -> wc_cb_starts h = [i]).
Proof.
  cbv zeta. destruct (wc_reachable_inv progs sched) as [G _].
  destruct (wc_ginv_one_callback _ _ _ G) as (A & B & C & D). repeat split; try assumption.
  - intros i Hi. eexists. apply C. apply wc_in_cb_starts. exact Hi.
  - intros i o Hi. apply wc_in_cb_ends in Hi. apply D in Hi.
    destruct (wc_cb_starts (wc_history (wc_init progs) sched)) as [|x [|y l]]; cbn in *; try lia; try tauto.
    destruct Hi as [-> | []]. reflexivity.
Qed.

Lemma wc_cb_started_by_closing_step_pf progs sched it s' acts :
  wc_step (wc_final (wc_init progs) sched) it = (s', acts) ->
  In ACbStart acts -> exists ch, In (APerform ch) acts.
Proof.
  intros H. pose proof (wc_step_facts _ _ _ _ _ (wc_reachable_inv progs sched) H) as F. cbv zeta in F.
  apply F.
Qed.

Lemma wc_close_returns_after_cb_pf progs sched it s' acts r :
  let s := wc_final (wc_init progs) sched in
  let h := wc_history (wc_init progs) sched in
  wc_step s it = (s', acts) -> In (ARetClose r) acts ->
  sh_st (wc_sh s) = WClosed /\ sh_st (wc_sh s') = WClosed /\
  wc_cb_ends h = wc_cb_starts h /\
  wc_closedb (wc_sh s) (sh_ch (wc_sh s)) = true /\
  exists p, wc_performs h = [(p, sh_ch (wc_sh s))].
Proof.
  cbv zeta. intros H Hin. pose proof (wc_reachable_inv progs sched) as I.
  pose proof (wc_step_facts _ _ _ _ _ I H) as F. cbv zeta in F.
  destruct F as (F1 & _). destruct (F1 _ Hin) as [Hc Hg]. destruct I as [G _].
  destruct (wc_ginv_closed_state _ _ _ G Hc) as (A & B & C).
  repeat split; try assumption. rewrite Hg. exact Hc.
Qed.

Lemma wc_panic_still_closed_pf progs sched i o :
  let s := wc_final (wc_init progs) sched in
  let h := wc_history (wc_init progs) sched in
  In (i, ACbEnd o) h ->
  sh_st (wc_sh s) = WClosed /\ wc_closedb (wc_sh s) (sh_ch (wc_sh s)) = true.
Proof.
  cbv zeta. intros Hin. destruct (wc_reachable_inv progs sched) as [G _].
  apply (wc_ginv_cb_end_closed _ _ _ G). apply wc_in_cb_ends in Hin. intros E. rewrite E in Hin. exact Hin.
Qed.

Lemma wc_close_never_panics_pf progs sched i :
  ~ In (i, APanicClose) (wc_history (wc_init progs) sched).
Proof.
  intros Hin. destruct (wc_reachable_inv progs sched) as [(_ & G2 & _) _].
  apply wc_in_close_panics in Hin. rewrite G2 in Hin. exact Hin.
Qed.

Lemma wc_c_never_nil_pf progs sched :
  ~ In WNil (wc_ret_chans (wc_history (wc_init progs) sched)).
Proof. destruct (wc_reachable_inv progs sched) as [G _]. exact (wc_ginv_not_nil _ _ _ G). Qed.

Lemma wc_returned_chans_closed_pf progs sched :
  let s := wc_final (wc_init progs) sched in
  let h := wc_history (wc_init progs) sched in
  wc_close_rets h <> [] \/ wc_performs h <> [] ->
  Forall (fun c => wc_closedb (wc_sh s) c = true) (wc_ret_chans h).
Proof.
  cbv zeta. intros H. destruct (wc_reachable_inv progs sched) as [G _].
  apply (wc_ginv_chans_closed _ _ _ G). destruct H as [H | H]; [|exact H].
  destruct (wc_ginv_close_ret _ _ _ G H) as (_ & _ & _ & p & E). rewrite E. discriminate.
Qed.

Lemma wc_isclosed_pf progs sched it s' acts b :
  let s := wc_final (wc_init progs) sched in
  let h := wc_history (wc_init progs) sched in
  wc_step s it = (s', acts) -> In (ARetIsClosed b) acts ->
  (wc_close_rets h <> [] -> b = true) /\
  (b = true -> sh_st (wc_sh s') = WClosed /\ wc_cb_ends h = wc_cb_starts h /\
               exists p, wc_performs h = [(p, sh_ch (wc_sh s))]).
Proof.
  cbv zeta. intros H Hin. pose proof (wc_reachable_inv progs sched) as I.
  pose proof (wc_step_facts _ _ _ _ _ I H) as F. cbv zeta in F.
  destruct F as (_ & F2 & _). destruct (F2 _ Hin) as [Hb Hg]. destruct I as [G _]. split.
  - intros Hr. destruct (wc_ginv_close_ret _ _ _ G Hr) as (Hc & _). rewrite Hb, Hc. reflexivity.
  - intros ->. assert (Hc : sh_st (wc_sh (wc_final (wc_init progs) sched)) = WClosed).
    { destruct (sh_st (wc_sh (wc_final (wc_init progs) sched))); try discriminate. reflexivity. }
    destruct (wc_ginv_closed_state _ _ _ G Hc) as (A & B & C).
    repeat split; try assumption. rewrite Hg. exact Hc.
Qed.

Lemma wc_closed_stable_run h s sched :
  wc_inv h s -> sh_st (wc_sh s) = WClosed -> sh_st (wc_sh (wc_final s sched)) = WClosed.
Proof.
  unfold wc_final. revert h s. induction sched as [|it r IH]; intros h s I Hc; cbn [wc_run]; [exact Hc|].
  destruct (wc_step s it) as [s1 acts] eqn:E. destruct (wc_run s1 r) as [s2 h2] eqn:E2. cbn [fst].
  pose proof (wc_step_facts _ _ _ _ _ I E) as F. cbv zeta in F.
  specialize (IH _ _ (wc_step_inv _ _ _ _ _ I E)). rewrite E2 in IH. cbn [fst] in IH. apply IH.
  apply F. exact Hc.
Qed.

Lemma wc_run_app s a b :
  wc_run s (a ++ b) = (fst (wc_run (fst (wc_run s a)) b), snd (wc_run s a) ++ snd (wc_run (fst (wc_run s a)) b)).
Proof.
  revert s. induction a as [|it r IH]; intros s; cbn [wc_run app fst snd].
  - destruct (wc_run s b); reflexivity.
  - destruct (wc_step s it) as [s1 acts]. rewrite IH.
    destruct (wc_run s1 r) as [s2 h2]. cbn [fst snd]. rewrite app_assoc. reflexivity.
Qed.

Lemma wc_closed_forever_pf progs sched more :
  sh_st (wc_sh (wc_final (wc_init progs) sched)) = WClosed ->
  sh_st (wc_sh (wc_final (wc_init progs) (sched ++ more))) = WClosed.
Proof.
  intros Hc. unfold wc_final at 1. rewrite wc_run_app. cbn [fst].
  exact (wc_closed_stable_run _ _ more (wc_reachable_inv progs sched) Hc).
Qed.

Lemma wc_waitutil_iff_pf progs sched it s' acts b :
  let s := wc_final (wc_init progs) sched in
  let h := wc_history (wc_init progs) sched in
  wc_step s it = (s', acts) -> In (ARetWait b) acts ->
  (b = true <-> wc_performs h <> []) /\
  (b = false -> exists i, it = ITimeout i) /\
  (forall i, it = IRun i -> b = true).
Proof.
  cbv zeta. intros H Hin. pose proof (wc_reachable_inv progs sched) as I.
  pose proof (wc_step_facts _ _ _ _ _ I H) as F. cbv zeta in F.
  destruct F as (_ & _ & _ & F4 & _). destruct (F4 _ Hin) as (Hb & Hn & Hg & Ht). destruct I as [G _].
  assert (Ht' : b = false -> exists i, it = ITimeout i).
  { intros E. specialize (Ht E). destruct it; [discriminate|]. eexists; reflexivity. }
  split; [|split; [exact Ht'|]].
  - destruct (wc_ginv_cases _ _ _ G) as [(A1 & A2 & A3 & _) | (p & B1 & B2 & _)].
    + rewrite Hb, A3, A1. split; [discriminate | intros X; contradiction].
    + rewrite Hb, B2, B1. split; [discriminate | reflexivity].
  - intros i ->. destruct b; [reflexivity|]. destruct (Ht' eq_refl) as [j Ej]. discriminate.
Qed.

(* mutex discipline *)
Lemma wc_field_writes_pf progs sched it s' acts :
  let s := wc_final (wc_init progs) sched in
  wc_step s it = (s', acts) ->
  (sh_ch (wc_sh s') <> sh_ch (wc_sh s) ->
     sh_own (wc_sh s) = Some (wc_item_tid it) /\ sh_st (wc_sh s) = WNew) /\
  (sh_st (wc_sh s') <> sh_st (wc_sh s) -> sh_own (wc_sh s) = Some (wc_item_tid it)) /\
  (sh_clo (wc_sh s') <> sh_clo (wc_sh s) -> sh_own (wc_sh s) = Some (wc_item_tid it)) /\
  (In ALock acts -> sh_own (wc_sh s) = None /\ sh_own (wc_sh s') = Some (wc_item_tid it)) /\
  (In AUnlock acts -> sh_own (wc_sh s) = Some (wc_item_tid it) /\ sh_own (wc_sh s') = None) /\
  (sh_own (wc_sh s') <> sh_own (wc_sh s) -> In ALock acts \/ In AUnlock acts).
Proof.
  cbv zeta. intros H.
  pose proof (wc_step_facts _ _ _ _ _ (wc_reachable_inv progs sched) H) as F. cbv zeta in F.
  destruct F as (_ & _ & _ & _ & F5 & F6 & F7 & F8 & F9 & F10 & _). tauto.
Qed.

Lemma wc_mutual_exclusion_pf progs sched i j thi thj :
  let s := wc_final (wc_init progs) sched in
  nth_error (wc_threads s) i = Some thi -> nth_error (wc_threads s) j = Some thj ->
  wc_hold (wc_pcof thi) = true -> wc_hold (wc_pcof thj) = true -> i = j.
Proof.
  cbv zeta. intros Ei Ej Hi Hj. destruct (wc_reachable_inv progs sched) as [_ L].
  destruct (L _ _ Ei) as [Li _]. destruct (L _ _ Ej) as [Lj _].
  apply Li in Hi. apply Lj in Hj. congruence.
Qed.

Lemma wc_owner_holds_pf progs sched i :
  let s := wc_final (wc_init progs) sched in
  sh_own (wc_sh s) = Some i -> exists th, nth_error (wc_threads s) i = Some th /\ wc_hold (wc_pcof th) = true.
Proof.
  cbv zeta. intros Ho. destruct (wc_reachable_inv progs sched) as [(G1 & _) L].
  specialize (G1 _ Ho). apply nth_error_Some in G1.
  destruct (nth_error (wc_threads (wc_final (wc_init progs) sched)) i) as [th|] eqn:E; [|congruence].
  exists th. split; [reflexivity|]. destruct (L _ _ E) as [Li _]. apply Li. exact Ho.
Qed.

(* no deadlock: whenever some thread is unfinished, some schedule item is enabled *)
Lemma wc_no_deadlock_pf progs sched :
  let s := wc_final (wc_init progs) sched in
  (exists i th, nth_error (wc_threads s) i = Some th /\ wc_finished_th th = false) ->
  exists it, wc_enabled s it = true.
Proof.
  cbv zeta. intros (i & th & E & Hf).
  destruct (sh_own (wc_sh (wc_final (wc_init progs) sched))) as [p|] eqn:Eo.
  - destruct (wc_owner_holds_pf progs sched p Eo) as (thp & Ep & Hh).
    exists (IRun p). unfold wc_enabled. cbn [wc_item_tid]. rewrite Ep.
    destruct (wc_pcof thp); try discriminate; reflexivity.
  - destruct (wc_pcof th) eqn:Epc.
    all: try (exists (IRun i); unfold wc_enabled; cbn [wc_item_tid]; rewrite E, Epc, ?Eo, ?Hf; reflexivity).
    exists (ITimeout i). unfold wc_enabled. cbn [wc_item_tid]. rewrite E, Epc. reflexivity.
Qed.

Lemma wc_set_thread_id l i th : nth_error l i = Some th -> wc_set_thread l i th = l.
Proof.
  unfold wc_set_thread. revert i. induction l as [|x l IH]; intros i H; destruct i; cbn in *; try discriminate.
  - inversion H; reflexivity.
  - f_equal. apply IH. exact H.
Qed.

Definition wc_mu_list (l : list wc_thread) : nat := fold_right (fun th a => wc_mu_th th + a) 0 l.

Lemma wc_mu_set_thread l i th th' :
  nth_error l i = Some th ->
  wc_mu_list (wc_set_thread l i th') + wc_mu_th th = wc_mu_list l + wc_mu_th th'.
Proof.
  unfold wc_set_thread. revert i. induction l as [|x l IH]; intros i H; destruct i; cbn [nth_error] in H; try discriminate.
  - inversion H; subst. cbn. lia.
  - specialize (IH _ H). cbn [firstn skipn app wc_mu_list fold_right] in *. unfold wc_mu_list in IH. lia.
Qed.

Lemma wc_step_pc_measure g i tmo pc todo g' pc' todo' acts :
  wc_step_pc g i tmo pc todo = (g', pc', todo', acts) ->
  (wc_effective acts = true -> wc_mu_pc pc' + 6 * length todo' < wc_mu_pc pc + 6 * length todo) /\
  (wc_effective acts = false -> g' = g /\ pc' = pc /\ todo' = todo).
Proof.
  intros H.
  unfold wc_step_pc, wc_finish, wc_perform in H.
  destruct tmo; destruct pc;
    repeat (cbn beta iota zeta in H; wc_destr H);
    cbn beta iota zeta in H; inversion H; subst; clear H; cbn [wc_effective wc_mu_pc length];
    split; intros; try discriminate; try lia; auto.
Qed.

Lemma wc_step_measure_pf s it s' acts :
  wc_step s it = (s', acts) ->
  (wc_effective acts = true -> wc_mu s' < wc_mu s) /\
  (wc_effective acts = false -> s' = s).
Proof.
  intros H. destruct (wc_step_unfold _ _ _ _ H) as [(-> & -> & _) | (th & g1 & pc1 & todo1 & E & Hs & ->)].
  - cbn. split; [discriminate | reflexivity].
  - destruct (wc_step_pc_measure _ _ _ _ _ _ _ _ _ Hs) as [M1 M2]. split.
    + intros He. specialize (M1 He). unfold wc_mu. cbn [wc_threads].
      pose proof (wc_mu_set_thread _ _ _ {| wc_pcof := pc1; wc_todo := todo1 |} E) as X.
      unfold wc_mu_list, wc_mu_th in *. cbn [wc_pcof wc_todo] in *. lia.
    + intros He. destruct (M2 He) as (-> & -> & ->). destruct s as [g l]. cbn [wc_sh wc_threads] in *.
      f_equal. destruct th as [pc todo]. cbn [wc_pcof wc_todo]. apply wc_set_thread_id. exact E.
Qed.

Lemma wc_enabled_effective_pf s it s' acts :
  wc_step s it = (s', acts) -> wc_enabled s it = wc_effective acts.
Proof.
  intros H. unfold wc_enabled.
  destruct (wc_step_unfold _ _ _ _ H) as [(-> & -> & En) | (th & g1 & pc1 & todo1 & E & Hs & ->)].
  - rewrite En. reflexivity.
  - rewrite E. destruct th as [pc todo]. cbn [wc_pcof wc_todo] in *.
    unfold wc_step_pc, wc_finish, wc_perform, wc_item_tmo, wc_finished_th in *. cbn [wc_pcof wc_todo].
    destruct it; destruct pc;
      repeat (cbn beta iota zeta in Hs; wc_destr Hs);
      cbn beta iota zeta in Hs; inversion Hs; subst; clear Hs; cbn [wc_effective negb];
      try reflexivity; try congruence.
Qed.

Lemma wc_eff_steps_bound s sched : wc_eff_steps s sched + wc_mu (wc_final s sched) <= wc_mu s.
Proof.
  unfold wc_final. revert s. induction sched as [|it r IH]; intros s; cbn [wc_eff_steps wc_run fst]; [lia|].
  destruct (wc_step s it) as [s1 acts] eqn:E. specialize (IH s1).
  destruct (wc_run s1 r) as [s2 h2] eqn:E2. cbn [fst] in *.
  destruct (wc_step_measure_pf _ _ _ _ E) as [M1 M2].
  destruct (wc_effective acts).
  - specialize (M1 eq_refl). lia.
  - rewrite (M2 eq_refl) in *. lia.
Qed.

Lemma wc_mu_init progs : wc_mu (wc_init progs) = 6 * length (concat progs).
Proof.
  unfold wc_mu, wc_init. cbn [wc_threads]. induction progs as [|p r IH]; [reflexivity|].
  cbn [map fold_right concat]. rewrite IH, app_length. unfold wc_mu_th. cbn [wc_pcof wc_todo wc_mu_pc]. lia.
Qed.

Lemma wc_terminates_pf progs sched :
  wc_eff_steps (wc_init progs) sched <= 6 * length (concat progs).
Proof. pose proof (wc_eff_steps_bound (wc_init progs) sched). rewrite wc_mu_init in H. lia. Qed.

(* ------------------------------------------------------------------ seeded faults are refuted *)
Definition wc_history_f (f : wc_fault) (s : wc_state) (sched : list wc_item) : wc_hist := snd (wc_run_f f s sched).

(* state stored Closed before the callback: a second Close returns while the callback runs *)
Lemma wc_store_early_refuted_pf :
  exists progs sched,
    let h := wc_history_f FStoreEarly (wc_init progs) sched in
    wc_close_rets h = [1] /\ wc_cb_starts h = [0] /\ wc_cb_ends h = [].
Proof.
  exists [[OpClose (Cb ONil true)]; [OpClose CbNone]].
  exists [IRun 0; IRun 0; IRun 0; IRun 0; IRun 1; IRun 1].
  vm_compute. auto.
Qed.

(* no second check under the mutex: two callbacks run *)
Lemma wc_no_recheck_refuted_pf :
  exists progs sched,
    let h := wc_history_f FNoRecheck (wc_init progs) sched in
    wc_cb_starts h = [0; 1] /\ length (wc_performs h) = 2.
Proof.
  exists [[OpClose (Cb ONil false)]; [OpClose (Cb OErr false)]].
  exists [IRun 0; IRun 0; IRun 1; IRun 1; IRun 0; IRun 0; IRun 0; IRun 1; IRun 1; IRun 1].
  vm_compute. auto.
Qed.
