(* WaitCloseProofs.v -- the invariant of proofs/WaitCloseInv.v lifted to every run of the WaitClose
   model, and the facts the C16 theorems are made of. *)
From Got Require Import Base WaitClose WaitCloseInv.
Local Open Scope nat_scope.

(* ------------------------------------------------------------------ lifting to states and runs *)
Lemma wc_set_thread_length l i th : i < length l -> length (wc_set_thread l i th) = length l.
Proof.
  intros Hi. unfold wc_set_thread. rewrite app_length. cbn [length].
  rewrite firstn_length, skipn_length. lia.
Qed.

Lemma wc_set_thread_same l i th : i < length l -> nth_error (wc_set_thread l i th) i = Some th.
Proof.
  intros Hi. unfold wc_set_thread. rewrite nth_error_app2; rewrite firstn_length; [|lia].
  replace (i - Nat.min i (length l)) with 0 by lia. reflexivity.
Qed.

Lemma wc_set_thread_other l i j th :
  i < length l -> j <> i -> nth_error (wc_set_thread l i th) j = nth_error l j.
Proof.
  unfold wc_set_thread.
  revert i j. induction l as [|x l IH]; intros i j Hi Hj; cbn [length] in Hi; [lia|].
  destruct i as [|i]; destruct j as [|j]; cbn; try reflexivity; try lia.
  apply IH; lia.
Qed.

Lemma wc_step_inv h s it s' acts :
  wc_inv h s -> wc_step s it = (s', acts) ->
  wc_inv (h ++ map (pair (wc_item_tid it)) acts) s'.
Proof.
  intros [G L] H. unfold wc_step in H.
  set (i := wc_item_tid it) in *.
  destruct (nth_error (wc_threads s) i) as [th|] eqn:E.
  2:{ inversion H; subst. cbn [map]. rewrite app_nil_r. split; assumption. }
  assert (Hi : i < length (wc_threads s)) by (apply nth_error_Some; congruence).
  destruct (wc_step_pc (wc_sh s) i match it with ITimeout _ => true | IRun _ => false end
                       (wc_pcof th) (wc_todo th)) as [[[g' pc'] todo'] a] eqn:Hs.
  inversion H; subst s' acts; clear H.
  destruct (wc_step_pc_inv _ _ _ _ _ _ _ _ _ _ _ G (L i th E) Hi Hs) as (G' & L' & F).
  split; cbn [wc_sh wc_threads].
  - rewrite wc_set_thread_length by exact Hi. exact G'.
  - intros j thj Hj. destruct (Nat.eq_dec j i) as [-> | Hne].
    + rewrite wc_set_thread_same in Hj by exact Hi. inversion Hj; subst. exact L'.
    + rewrite wc_set_thread_other in Hj by assumption.
      eapply wc_linv_frame; [exact Hne | exact F | apply L; exact Hj].
Qed.

Lemma wc_init_inv progs : wc_inv [] (wc_init progs).
Proof.
  split.
  - unfold wc_ginv. cbn. repeat split; try discriminate; try constructor; intros; try discriminate; try congruence.
  - intros i th Hn. unfold wc_init in Hn. cbn [wc_threads] in Hn.
    apply nth_error_In in Hn. apply in_map_iff in Hn. destruct Hn as [p [<- _]].
    unfold wc_linv. cbn. split; [split; discriminate | exact I].
Qed.

Lemma wc_run_inv h0 s sched :
  wc_inv h0 s -> wc_inv (h0 ++ wc_history s sched) (wc_final s sched).
Proof.
  unfold wc_history, wc_final. revert h0 s.
  induction sched as [|it r IH]; intros h0 s H; cbn [wc_run].
  - cbn [fst snd]. rewrite app_nil_r. exact H.
  - destruct (wc_step s it) as [s1 acts] eqn:E. destruct (wc_run s1 r) as [s2 h2] eqn:E2.
    cbn [fst snd]. specialize (IH _ _ (wc_step_inv _ _ _ _ _ H E)). rewrite E2 in IH. cbn [fst snd] in IH.
    rewrite <- app_assoc in IH. exact IH.
Qed.

Theorem wc_reachable_inv progs sched :
  wc_inv (wc_history (wc_init progs) sched) (wc_final (wc_init progs) sched).
Proof. apply (wc_run_inv [] _ sched). apply wc_init_inv. Qed.
