(* AntsStepsCountN.v -- the attempts of a task counted in the attempt arena: att_natt = number of attempts of the
   task, att_started <= number of its attempts whose handler was started.  Uses AntsStepsCount.v (a callback in
   innerCallbackChan was not started yet). *)
From Got Require Import Base ListAux AntsSteps AntsStepsProofs AntsStepsCount.
Local Open Scope nat_scope.

(* ------------------------------------------------------------------ counting the attempts of a task *)
Definition ast_attp_all (t : nat) (y : ast_att) : bool := ata_task y =? t.
Definition ast_attp_started (t : nat) (y : ast_att) : bool := (ata_task y =? t) && (1 <=? ata_hst y).
Definition ast_cnt (p : ast_att -> bool) (l : list ast_att) : nat := length (filter p l).

Lemma ast_cnt_snoc p l y : ast_cnt p (l ++ [y]) = ast_cnt p l + (if p y then 1 else 0).
Proof. unfold ast_cnt. rewrite filter_app, app_length. cbn [filter]. destruct (p y); reflexivity. Qed.

Lemma ast_cnt_upd p l a f y :
  nth_error l a = Some y ->
  ast_cnt p (ast_upd l a f) + (if p y then 1 else 0) = ast_cnt p l + (if p (f y) then 1 else 0).
Proof.
  unfold ast_cnt, ast_upd. intros E. rewrite E. unfold ast_set.
  assert (Hs : l = firstn a l ++ y :: skipn (S a) l).
  { clear f p. revert a E. induction l as [|z l IH]; intros [|a] E; cbn in *; try discriminate.
    - congruence.
    - f_equal. apply IH. exact E. }
  rewrite Hs at 3. rewrite !filter_app, !app_length. cbn [filter].
  destruct (p y), (p (f y)); cbn [length]; lia.
Qed.

(* pointwise comparison of two attempt arenas *)
Definition ast_att_rel (R : ast_att -> ast_att -> Prop) (l l' : list ast_att) : Prop :=
  forall a, match nth_error l a, nth_error l' a with
            | Some y, Some y' => R y y'
            | None, None => True
            | _, _ => False
            end.

Lemma ast_cnt_rel_le (R : ast_att -> ast_att -> Prop) p q :
  (forall y y', R y y' -> p y = true -> q y' = true) ->
  forall l l', ast_att_rel R l l' -> ast_cnt p l <= ast_cnt q l'.
Proof.
  intros Hpq. induction l as [|y l IH]; intros [|y' l'] H.
  - reflexivity.
  - specialize (H 0). cbn in H. contradiction.
  - specialize (H 0). cbn in H. contradiction.
  - pose proof (H 0) as H0. cbn in H0.
    assert (Ht : ast_att_rel R l l') by (intros a; exact (H (S a))).
    specialize (IH _ Ht). unfold ast_cnt in *. cbn [filter].
    destruct (p y) eqn:Ep; [rewrite (Hpq _ _ H0 Ep); cbn [length]; lia|].
    destruct (q y'); cbn [length]; lia.
Qed.

(* same task, handler state not going back *)
Definition ast_att_grow (y y' : ast_att) : Prop := ata_task y' = ata_task y /\ (1 <= ata_hst y -> 1 <= ata_hst y').

Lemma ast_att_rel_refl l : ast_att_rel ast_att_grow l l.
Proof. intros a. destruct (nth_error l a); [split; auto|exact I]. Qed.

Lemma ast_grow_all t l l' : ast_att_rel ast_att_grow l l' -> ast_cnt (ast_attp_all t) l' = ast_cnt (ast_attp_all t) l.
Proof.
  intros H. apply Nat.le_antisymm.
  - apply (ast_cnt_rel_le (fun y' y => ast_att_grow y y')).
    + intros y' y [E _]. unfold ast_attp_all. rewrite E. auto.
    + intros a. specialize (H a). destruct (nth_error l a), (nth_error l' a); auto.
  - apply (ast_cnt_rel_le ast_att_grow); [|exact H].
    intros y y' [E _]. unfold ast_attp_all. rewrite E. auto.
Qed.

Lemma ast_grow_started t l l' :
  ast_att_rel ast_att_grow l l' -> ast_cnt (ast_attp_started t) l <= ast_cnt (ast_attp_started t) l'.
Proof.
  apply ast_cnt_rel_le. intros y y' [E Hh]. unfold ast_attp_started. rewrite E. intros Hp.
  apply andb_prop in Hp. destruct Hp as [H1 H2]. rewrite H1. apply Nat.leb_le in H2. cbn [andb]. apply Nat.leb_le. auto.
Qed.

Lemma ast_grow_task l l' a y' : ast_att_rel ast_att_grow l l' -> nth_error l' a = Some y' ->
  exists y, nth_error l a = Some y /\ ata_task y' = ata_task y.
Proof.
  intros H E. specialize (H a). rewrite E in H. destruct (nth_error l a) as [y|]; [|contradiction].
  exists y. split; [reflexivity|apply H].
Qed.

Record ast_ninv (s : ast_state) : Prop := {
  ni_natt : forall t x, nth_error (ast_tasks s) t = Some x -> att_natt x = ast_cnt (ast_attp_all t) (ast_atts s);
  ni_start : forall t x, nth_error (ast_tasks s) t = Some x -> att_started x <= ast_cnt (ast_attp_started t) (ast_atts s);
  ni_task : forall a y, nth_error (ast_atts s) a = Some y -> ata_task y < length (ast_tasks s)
}.

Definition ast_tcore (x : ast_task) : nat * nat := (att_natt x, att_started x).

(* K0: task counters unchanged, attempts only grow *)
Lemma ast_ninv_same s s' :
  ast_ninv s ->
  (forall t, option_map ast_tcore (nth_error (ast_tasks s') t) = option_map ast_tcore (nth_error (ast_tasks s) t)) ->
  ast_att_rel ast_att_grow (ast_atts s) (ast_atts s') ->
  ast_ninv s'.
Proof.
  intros [N1 N2 N3] Ht Ha.
  assert (Hback : forall t x', nth_error (ast_tasks s') t = Some x' ->
            exists x, nth_error (ast_tasks s) t = Some x /\ att_natt x' = att_natt x /\ att_started x' = att_started x).
  { intros t x' H. specialize (Ht t). rewrite H in Ht. destruct (nth_error (ast_tasks s) t) as [x|]; [|discriminate].
    cbn in Ht. injection Ht as E1 E2. exists x. auto. }
  assert (Hlen : length (ast_tasks s') = length (ast_tasks s)).
  { apply Nat.le_antisymm.
    - destruct (Nat.le_gt_cases (length (ast_tasks s')) (length (ast_tasks s))) as [H|H]; [exact H|exfalso].
      specialize (Ht (length (ast_tasks s))). destruct (nth_error (ast_tasks s') (length (ast_tasks s))) eqn:E.
      + assert (nth_error (ast_tasks s) (length (ast_tasks s)) = None) by (apply nth_error_None; lia).
        rewrite H0 in Ht. discriminate.
      + apply nth_error_None in E. lia.
    - destruct (Nat.le_gt_cases (length (ast_tasks s)) (length (ast_tasks s'))) as [H|H]; [exact H|exfalso].
      specialize (Ht (length (ast_tasks s'))). destruct (nth_error (ast_tasks s) (length (ast_tasks s'))) eqn:E.
      + assert (nth_error (ast_tasks s') (length (ast_tasks s')) = None) by (apply nth_error_None; lia).
        rewrite H0 in Ht. discriminate.
      + apply nth_error_None in E. lia. }
  constructor.
  - intros t x' H. destruct (Hback _ _ H) as (x & Hx & E1 & E2). rewrite E1, (ast_grow_all t _ _ Ha). apply (N1 _ _ Hx).
  - intros t x' H. destruct (Hback _ _ H) as (x & Hx & E1 & E2). rewrite E2.
    etransitivity; [apply (N2 _ _ Hx)|apply ast_grow_started; exact Ha].
  - intros a y' H. destruct (ast_grow_task _ _ _ _ Ha H) as (y & Hy & E). rewrite E, Hlen. apply (N3 _ _ Hy).
Qed.

(* K1: newTaskCallback *)
Lemma ast_cnt_zero p l : (forall y, In y l -> p y = false) -> ast_cnt p l = 0.
Proof.
  intros H. unfold ast_cnt. induction l as [|y l IH]; [reflexivity|]. cbn [filter].
  rewrite (H y (or_introl eq_refl)). apply IH. intros z Hz. apply H. right. exact Hz.
Qed.

Lemma ast_ninv_new s s' o tid :
  ast_ninv s -> ast_tasks s' = ast_tasks s ++ [ast_new_task o tid] -> ast_atts s' = ast_atts s -> ast_ninv s'.
Proof.
  intros [N1 N2 N3] Ht Ha.
  assert (Hz : forall p, (forall y, p y = true -> ata_task y = length (ast_tasks s)) -> ast_cnt p (ast_atts s) = 0).
  { intros p Hp. apply ast_cnt_zero. intros y Hy. destruct (p y) eqn:E; [|reflexivity]. exfalso.
    apply In_nth_error in Hy. destruct Hy as [a Hy]. pose proof (N3 _ _ Hy). rewrite (Hp _ E) in H. lia. }
  constructor; rewrite ?Ha, ?Ht.
  - intros t x H. rewrite ast_snoc_nth in H. destruct (t <? length (ast_tasks s)); [apply (N1 _ _ H)|].
    destruct (Nat.eqb_spec t (length (ast_tasks s))) as [->|]; [|discriminate]. injection H as <-. cbn [ast_new_task att_natt].
    symmetry. apply Hz. intros y Hy. apply Nat.eqb_eq in Hy. exact Hy.
  - intros t x H. rewrite ast_snoc_nth in H. destruct (t <? length (ast_tasks s)); [apply (N2 _ _ H)|].
    destruct (Nat.eqb_spec t (length (ast_tasks s))) as [->|]; [|discriminate]. injection H as <-. cbn [ast_new_task att_started]. lia.
  - intros a y H. rewrite app_length. cbn [length]. pose proof (N3 _ _ H). lia.
Qed.

(* K2: runTaskOnce creates an attempt of task t *)
Lemma ast_ninv_attempt s s' t x x' y0 :
  ast_ninv s -> nth_error (ast_tasks s) t = Some x -> nth_error (ast_tasks s') t = Some x' ->
  (forall t', t' <> t -> nth_error (ast_tasks s') t' = nth_error (ast_tasks s) t') ->
  length (ast_tasks s') = length (ast_tasks s) ->
  att_natt x' = S (att_natt x) -> att_started x' = att_started x ->
  ast_atts s' = ast_atts s ++ [y0] -> ata_task y0 = t -> ata_hst y0 = 0 ->
  ast_ninv s'.
Proof.
  intros [N1 N2 N3] Hx Hx' Hoth Hlen En Es Ha Ey Eh.
  constructor; rewrite ?Ha.
  - intros t0 z H. rewrite ast_cnt_snoc. unfold ast_attp_all at 2. rewrite Ey.
    destruct (Nat.eq_dec t0 t) as [->|Hne].
    + rewrite Hx' in H. injection H as <-. rewrite Nat.eqb_refl, En, (N1 _ _ Hx). lia.
    + rewrite Hoth in H by exact Hne. destruct (Nat.eqb_spec t t0); [congruence|]. rewrite (N1 _ _ H). lia.
  - intros t0 z H. rewrite ast_cnt_snoc.
    destruct (Nat.eq_dec t0 t) as [->|Hne].
    + rewrite Hx' in H. injection H as <-. rewrite Es. pose proof (N2 _ _ Hx). destruct (ast_attp_started t y0); lia.
    + rewrite Hoth in H by exact Hne. pose proof (N2 _ _ H). destruct (ast_attp_started t0 y0); lia.
  - intros a y H. rewrite Hlen. rewrite ast_snoc_nth in H. destruct (a <? length (ast_atts s)); [apply (N3 _ _ H)|].
    destruct (a =? length (ast_atts s)); [|discriminate]. injection H as <-. rewrite Ey. apply (ast_nth_lt _ _ _ Hx).
Qed.

(* K3: an inner worker receives the callback of attempt a (not started yet) and starts the handler *)
Lemma ast_ninv_start s s' a y tid bi x x' :
  ast_ninv s -> nth_error (ast_atts s) a = Some y -> ata_hst y = 0 ->
  ast_att_rel ast_att_grow (ast_upd (ast_atts s) a (ast_a_start tid bi)) (ast_atts s') ->
  nth_error (ast_tasks s) (ata_task y) = Some x -> nth_error (ast_tasks s') (ata_task y) = Some x' ->
  (forall t', t' <> ata_task y -> nth_error (ast_tasks s') t' = nth_error (ast_tasks s) t') ->
  length (ast_tasks s') = length (ast_tasks s) ->
  att_natt x' = att_natt x -> att_started x' = S (att_started x) ->
  ast_ninv s'.
Proof.
  intros [N1 N2 N3] Hy Hh Ha Hx Hx' Hoth Hlen En Es.
  assert (HA : forall t, ast_cnt (ast_attp_all t) (ast_atts s') = ast_cnt (ast_attp_all t) (ast_atts s)).
  { intros t. rewrite (ast_grow_all t _ _ Ha).
    pose proof (ast_cnt_upd (ast_attp_all t) _ a (ast_a_start tid bi) y Hy) as H.
    unfold ast_attp_all in *. cbn [ast_a_start ata_task] in H. destruct (ata_task y =? t); lia. }
  assert (HS : forall t, ast_cnt (ast_attp_started t) (ast_atts s) + (if ata_task y =? t then 1 else 0)
                         <= ast_cnt (ast_attp_started t) (ast_atts s')).
  { intros t. etransitivity; [|apply (ast_grow_started t _ _ Ha)].
    pose proof (ast_cnt_upd (ast_attp_started t) _ a (ast_a_start tid bi) y Hy) as H.
    assert (E1 : ast_attp_started t y = false) by (unfold ast_attp_started; rewrite Hh; apply andb_false_r).
    assert (E2 : ast_attp_started t (ast_a_start tid bi y) = (ata_task y =? t))
      by (unfold ast_attp_started; cbn [ast_a_start ata_task ata_hst]; apply andb_true_r).
    rewrite E1, E2 in H. destruct (ata_task y =? t); lia. }
  constructor.
  - intros t0 z H. rewrite HA. destruct (Nat.eq_dec t0 (ata_task y)) as [->|Hne].
    + rewrite Hx' in H. injection H as <-. rewrite En. apply (N1 _ _ Hx).
    + rewrite Hoth in H by exact Hne. apply (N1 _ _ H).
  - intros t0 z H. specialize (HS t0). destruct (Nat.eq_dec t0 (ata_task y)) as [->|Hne].
    + rewrite Hx' in H. injection H as <-. rewrite Es. rewrite Nat.eqb_refl in HS. pose proof (N2 _ _ Hx). lia.
    + rewrite Hoth in H by exact Hne. pose proof (N2 _ _ H). lia.
  - intros a0 y' H. rewrite Hlen. destruct (ast_grow_task _ _ _ _ Ha H) as (y1 & Hy1 & E). rewrite E.
    rewrite ast_upd_nth in Hy1. destruct (Nat.eqb_spec a0 a) as [->|Hne].
    + rewrite Hy in Hy1. cbn in Hy1. injection Hy1 as <-. cbn. apply (N3 _ _ Hy).
    + apply (N3 _ _ Hy1).
Qed.

(* ------------------------------------------------------------------ the step *)
Ltac nk_tcore := let t := fresh "t" in intros t; ast_norm; ast_eqb; try lia;
  repeat match goal with |- context [nth_error ?l ?t] => destruct (nth_error l t) eqn:? end;
  cbn; try reflexivity; try congruence.
Ltac nk_rel := let a := fresh "a" in intros a; ast_norm; ast_eqb; try lia;
  repeat match goal with |- context [nth_error ?l ?t] => destruct (nth_error l t) eqn:? end;
  cbn [option_map]; try exact I; try (split; cbn; [reflexivity|intros; lia]); try (split; cbn; auto; fail).

Ltac nk_start_leaf Inv Hc Nv :=
  match goal with Heql : ast_ichan ?s = ?n0 :: _, Heqo0 : nth_error (ast_tasks ?s) (ast_att_task ?s ?n0) = Some ?a |- ast_ninv (ast_set_pc _ ?tid _) =>
    let Hex := fresh "Hex" in let y := fresh "y" in let Hy := fresh "Hy" in let Hh := fresh "Hh" in let Et := fresh "Et" in
    assert (Hex : ast_aown s n0 = Some AwChan) by (apply (ai_achan _ Inv); rewrite Heql; left; reflexivity);
    unfold ast_aown in Hex; destruct (nth_error (ast_atts s) n0) as [y|] eqn:Hy; [|discriminate Hex];
    pose proof (Hc n0 y (or_introl eq_refl) Hy) as Hh;
    assert (Et : ast_att_task s n0 = ata_task y) by (unfold ast_att_task; rewrite Hy; reflexivity);
    rewrite Et in *;
    apply (ast_ninv_start s _ n0 y tid (att_started a) a (ast_t_started a) Nv Hy Hh);
      [ | exact Heqo0 | ast_norm; rewrite !Nat.eqb_refl, Heqo0; reflexivity
      | let t' := fresh "t'" in let Hne := fresh "Hne" in intros t' Hne; ast_norm; ast_fin
      | ast_norm; reflexivity | reflexivity | reflexivity ];
    ast_cbn; try apply ast_att_rel_refl;
    let a0 := fresh "a0" in
    intros a0; rewrite (ast_upd_nth (ast_upd (ast_atts s) n0 (ast_a_start tid (att_started a))));
    destruct (a0 =? n0); destruct (nth_error (ast_upd (ast_atts s) n0 (ast_a_start tid (att_started a))) a0);
    cbn [option_map]; try exact I; split; cbn; auto; lia
  end.

Lemma ast_step_ninv md n s tid hint :
  ast_inv s -> ast_hinv s -> ast_ninv s -> ast_ninv (fst (fst (ast_step md n s tid hint))).
Proof.
  intros Inv Hv Nv. unfold ast_step. destruct (nth_error (ast_thr s) tid) as [th|] eqn:Eth; [|exact Nv].
  pose proof (ai_tthr _ Inv tid (ath_pc th)) as O1. unfold ast_pc_of in O1. rewrite Eth in O1.
  specialize (fun t => O1 t eq_refl).
  pose proof (ai_tchan _ Inv) as I2. pose proof (hi_chan _ Hv) as Hc.
  destruct th as [pc prog hs]. unfold ast_step_pc. cbn [ath_pc ath_prog ath_handles] in *.
  destruct pc; cbn [ast_pc_task] in O1;
    repeat first [progress (unfold ast_wait_ctx; ast_cbn) | match goal with
    | |- context [match ?x with _ => _ end] => destruct x eqn:?
    end]; try exact Nv.
  all: try (apply (ast_ninv_same s _ Nv); [nk_tcore|unfold ast_att_rel; nk_rel]; fail).
  - (* newTaskCallback *)
    apply (ast_ninv_new s _ o tid Nv); reflexivity.
  - (* first attempt *)
    assert (Hc0 : ast_town s n0 = Some AwChan) by (apply I2; left; reflexivity). unfold ast_town in Hc0.
    destruct (nth_error (ast_tasks s) n0) as [x|] eqn:Ex; [|discriminate Hc0].
    eapply (ast_ninv_attempt s _ n0 x (ast_t_natt (ast_t_owner (AwThread tid) x)) _ Nv Ex);
      [ast_norm; rewrite !Nat.eqb_refl, Ex; reflexivity
      |intros t' Hne; ast_norm; ast_fin
      |ast_norm; reflexivity|reflexivity|reflexivity|reflexivity|reflexivity|reflexivity].
  - (* retry *)
    eapply (ast_ninv_attempt s _ t a (ast_t_natt a) _ Nv Heqo);
      [ast_norm; rewrite !Nat.eqb_refl, Heqo; reflexivity
      |intros t' Hne; ast_norm; ast_fin
      |ast_norm; reflexivity|reflexivity|reflexivity|reflexivity|reflexivity|reflexivity].
  - nk_start_leaf Inv Hc Nv.
  - nk_start_leaf Inv Hc Nv.
  - nk_start_leaf Inv Hc Nv.
  - nk_start_leaf Inv Hc Nv.
Qed.

Lemma ast_init_ninv n progs : ast_ninv (ast_init n progs).
Proof.
  constructor; cbn [ast_init ast_tasks ast_atts].
  - intros t x H. destruct t; discriminate H.
  - intros t x H. destruct t; discriminate H.
  - intros a y H. destruct a; discriminate H.
Qed.

Lemma ast_run_ninv md n sched : forall s,
  ast_inv s -> ast_hinv s -> ast_ninv s -> ast_ninv (ast_run md n s sched).
Proof.
  induction sched as [|[tid h] r IH]; intros s Inv Hv Nv; [exact Nv|]. cbn [ast_run fold_left]. apply IH.
  - unfold ast_next. cbn [fst snd]. apply ast_step_inv. exact Inv.
  - unfold ast_next. cbn [fst snd]. apply ast_step_hinv; assumption.
  - unfold ast_next. cbn [fst snd]. apply ast_step_ninv; assumption.
Qed.

Lemma ast_cnt_le p q l : (forall y, p y = true -> q y = true) -> ast_cnt p l <= ast_cnt q l.
Proof.
  intros H. apply (ast_cnt_rel_le eq); [intros y y' <-; apply H|].
  intros a. destruct (nth_error l a); [reflexivity|exact I].
Qed.

(* handler invocations of a task <= attempts created for it (every attempt's handler is started at most once) *)
Lemma ast_steps_started_le_attempts md n progs s t x :
  ast_reach md n progs s -> nth_error (ast_tasks s) t = Some x -> att_started x <= att_natt x.
Proof.
  intros [sched ->] Hx.
  pose proof (ast_run_ninv md n sched _ (ast_init_inv n progs) (ast_init_hinv n progs) (ast_init_ninv n progs)) as [N1 N2 _].
  rewrite (N1 _ _ Hx). etransitivity; [apply (N2 _ _ Hx)|]. apply ast_cnt_le.
  intros y Hy. unfold ast_attp_started in Hy. apply andb_prop in Hy. apply Hy.
Qed.

