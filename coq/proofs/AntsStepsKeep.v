(* AntsStepsKeep.v -- callbacks are never dropped while the pool is open (ants step model, both modes): an attempt
   whose handler was not started is still held by the dispatcher about to enqueue it or travels in
   innerCallbackChan, unless the pool was closed. *)
From Got Require Import Base ListAux AntsSteps AntsStepsProofs AntsStepsCount.
Local Open Scope nat_scope.

Definition ast_pc_inner_att (pc : ast_pc) : option nat :=
  match pc with AstIMid a | AstICtx a _ _ | AstISend a _ _ _ | AstIStoreO a _ _ => Some a | _ => None end.

Lemma ast_pc_inner_att_att pc a : ast_pc_inner_att pc = Some a -> ast_pc_att pc = Some a.
Proof. destruct pc; cbn; congruence. Qed.

(* the attempt an inner worker is working on has been started *)
Definition ast_h2inv (s : ast_state) : Prop :=
  forall i pc a y, ast_pc_of s i = Some pc -> ast_pc_inner_att pc = Some a ->
    nth_error (ast_atts s) a = Some y -> 1 <= ata_hst y.

Ltac h2_fin H3 J :=
  ast_bounds; ast_eqb; try lia;
  repeat match type of H3 with context [nth_error ?l ?t] =>
    let E := fresh "E" in destruct (nth_error l t) eqn:E; rewrite ?E in * end;
  cbn [option_map] in *; try congruence; try lia;
  try (injection H3 as <-; cbn; first [lia | eapply J; reflexivity | eapply J; eassumption]);
  try (eapply J; first [reflexivity | eassumption]).

Ltac h2c Eth Hp I4 O4 :=
  let i := fresh "i" in let pc0 := fresh "pc0" in let a0 := fresh "a0" in let y := fresh "y" in
  let H1 := fresh "H1" in let H2 := fresh "H2" in let H3 := fresh "H3" in
  let J := fresh "J" in let J4 := fresh "J4" in
  intros i pc0 a0 y H1 H2 H3;
  try (specialize (O4 _ eq_refl));
  ast_norm; ast_eqb;
  try (rewrite Eth in H1; ast_cbn; injection H1 as <-; cbn [ast_pc_inner_att] in H2);
  try discriminate; try (injection H2 as <-);
  try (pose proof (fun y => Hp _ _ _ y H1 H2) as J);
  try (pose proof (I4 _ _ _ H1 (ast_pc_inner_att_att _ _ H2)) as J4);
  h2_fin H3 J.

Lemma ast_step_h2inv md n s tid hint : ast_inv s -> ast_h2inv s -> ast_h2inv (fst (fst (ast_step md n s tid hint))).
Proof.
  intros Inv Hp. unfold ast_step. destruct (nth_error (ast_thr s) tid) as [th|] eqn:Eth; [|exact Hp].
  destruct th as [pc prog hs]. unfold ast_step_pc. cbn [ath_pc ath_prog ath_handles].
  pose proof Inv as [I1 I2 I3 I4 I5 I6 I7].
  pose proof (I4 tid pc) as O4. pose proof (Hp tid pc) as Op.
  unfold ast_pc_of in O4, Op. rewrite Eth in O4, Op. cbn [option_map ath_pc] in O4, Op.
  specialize (fun a => O4 a eq_refl). specialize (fun a y => Op a y eq_refl).
  destruct pc; cbn [ast_pc_att ast_pc_inner_att] in O4, Op;
    repeat first [progress (unfold ast_wait_ctx; ast_cbn) | match goal with
    | |- context [match ?x with _ => _ end] => destruct x eqn:?
    end]; try exact Hp.
  all: ast_prep_ichan I5 I6; unfold ast_h2inv; ast_cbn.
  all: try (timeout 20 (h2c Eth Hp I4 O4; fail)).
  all: intros i pc0 a0 y H1 H2 H3; ast_norm; destruct (Nat.eqb_spec i tid) as [->|Hne];
    [rewrite Eth in H1; cbn in H1; injection H1 as <-; cbn in H2; injection H2 as <-; apply (Op _ _ eq_refl H3)
    |apply (Hp i pc0 a0 y); [unfold ast_pc_of; exact H1|exact H2|exact H3]].
Qed.

Lemma ast_run_h2inv md n sched : forall s, ast_inv s -> ast_h2inv s -> ast_h2inv (ast_run md n s sched).
Proof.
  induction sched as [|[tid h] r IH]; intros s Inv H; [exact H|]. cbn [ast_run fold_left]. apply IH.
  - unfold ast_next. cbn [fst snd]. apply ast_step_inv. exact Inv.
  - unfold ast_next. cbn [fst snd]. apply ast_step_h2inv; assumption.
Qed.

Lemma ast_init_h2inv n progs : ast_h2inv (ast_init n progs).
Proof. intros i pc a y H1 H2. destruct (ast_init_pcs _ _ _ _ H1) as [->|[->| ->]]; discriminate H2. Qed.

(* an attempt that was given up without its handler having been started: only on a closed pool *)
Definition ast_kinv (s : ast_state) : Prop :=
  forall a y, nth_error (ast_atts s) a = Some y -> ata_owner y = AwGone -> ata_hst y = 0 -> ast_closed s = true.

Lemma ast_choose_true f c h : ast_choose f c h = Some true -> c = true.
Proof. unfold ast_choose. destruct f, c; try discriminate; reflexivity. Qed.

Lemma ast_step_kinv md n s tid hint :
  ast_inv s -> ast_h2inv s -> ast_kinv s -> ast_kinv (fst (fst (ast_step md n s tid hint))).
Proof.
  intros Inv H2v Kv. unfold ast_step. destruct (nth_error (ast_thr s) tid) as [th|] eqn:Eth; [|exact Kv].
  destruct th as [pc prog hs]. unfold ast_step_pc. cbn [ath_pc ath_prog ath_handles].
  pose proof (H2v tid pc) as Op. unfold ast_pc_of in Op. rewrite Eth in Op. cbn [option_map ath_pc] in Op.
  specialize (fun a y => Op a y eq_refl).
  destruct pc; cbn [ast_pc_inner_att] in Op;
    repeat first [progress (unfold ast_wait_ctx; ast_cbn) | match goal with
    | |- context [match ?x with _ => _ end] => destruct x eqn:?
    end]; try exact Kv.
  all: unfold ast_kinv; ast_cbn; intros a0 y0 Hy Hg Hh.
  all: try (apply (Kv a0 y0 Hy Hg Hh); fail).
  all: try reflexivity.
  all: try (match goal with H : ast_choose _ _ _ = Some true |- _ => apply ast_choose_true in H end).
  all: revert Hy Hg Hh; ast_norm; ast_eqb; try lia;
    repeat match goal with |- context [nth_error (ast_atts ?s0) ?t] =>
      let E := fresh "E" in destruct (nth_error (ast_atts s0) t) eqn:E end;
    cbn [option_map]; intros Hy Hg Hh; try discriminate Hy; injection Hy as <-; cbn in Hg, Hh;
    try discriminate; try assumption; try (eapply Kv; eassumption).
  all: try (exfalso; match goal with E : nth_error (ast_atts _) ?a = Some ?y |- _ =>
              pose proof (Op a y eq_refl E); lia end).
Qed.

Lemma ast_run_kinv md n sched : forall s,
  ast_inv s -> ast_h2inv s -> ast_kinv s -> ast_kinv (ast_run md n s sched).
Proof.
  induction sched as [|[tid h] r IH]; intros s Inv H2 K; [exact K|]. cbn [ast_run fold_left]. apply IH.
  - unfold ast_next. cbn [fst snd]. apply ast_step_inv. exact Inv.
  - unfold ast_next. cbn [fst snd]. apply ast_step_h2inv; assumption.
  - unfold ast_next. cbn [fst snd]. apply ast_step_kinv; assumption.
Qed.

(* callbacks are never dropped while the pool is open: an attempt whose handler has not been started is held by
   the dispatcher about to enqueue it (sendInnerCallback) or is in innerCallbackChan *)
Lemma ast_steps_callbacks_never_dropped md n progs s a y :
  ast_reach md n progs s -> ast_closed s = false -> nth_error (ast_atts s) a = Some y -> ata_hst y = 0 ->
  ata_owner y = AwChan \/ exists i, ata_owner y = AwThread i.
Proof.
  intros [sched ->] Hc Hy Hh.
  pose proof (ast_run_kinv md n sched _ (ast_init_inv n progs) (ast_init_h2inv n progs)) as K.
  destruct (ata_owner y) as [i| |] eqn:Eo; [right; exists i; reflexivity|left; reflexivity|exfalso].
  assert (K0 : ast_kinv (ast_init n progs)) by (intros a0 y0 H; destruct a0; discriminate H).
  rewrite (K K0 a y Hy Eo Hh) in Hc. discriminate Hc.
Qed.
