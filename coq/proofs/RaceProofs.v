(* RaceProofs.v -- the publication protocol and the lock discipline never reach a race,
   for any number of threads and any schedule; unguarded / two-writer variants do. *)
From Got Require Import Base ListAux Race.
Local Open Scope nat_scope.

Lemma rc_upd_same {A} (f : nat -> A) i v : rc_upd f i v i = v.
Proof. unfold rc_upd. rewrite Nat.eqb_refl. reflexivity. Qed.
Lemma rc_upd_other {A} (f : nat -> A) i v j : j <> i -> rc_upd f i v j = f j.
Proof. intros H. unfold rc_upd. destruct (Nat.eqb_spec j i); [contradiction|reflexivity]. Qed.

(* ------------------------------------------------------------------ publication *)
Section Pub.
Variable p : rc_pub.
Let W := length (pb_ws p).

Definition pb_reading (s : rc_pst) (j : nat) : Prop :=
  exists k, nth_error (ps_rpcs s) j = Some (RPReading k).

Record pb_inv (s : rc_pst) : Prop := {
  pi_norace : rc_raced (ps_mon s) = false;
  pi_c0 : 1 <= rc_C (ps_mon s) 0 0;
  pi_c0w : ps_wpc s <= W -> rc_C (ps_mon s) 0 0 = 1;
  pi_w : forall x, rc_Wc (ps_mon s) x = 0 \/ (rc_Wt (ps_mon s) x = 0 /\ rc_Wc (ps_mon s) x = 1);
  pi_flag : forall o, ps_flags s o = true -> 1 <= rc_L (ps_mon s) o 0;
  pi_rd : forall j, pb_reading s j -> 1 <= rc_C (ps_mon s) (S j) 0;
  pi_noflag : ps_wpc s <= W -> forall o, ps_flags s o = false;
  pi_nord : ps_wpc s <= W -> forall j, ~ pb_reading s j;
  pi_r0 : ps_wpc s <= W -> forall x u, rc_R (ps_mon s) x u = 0;
  pi_len : length (ps_rpcs s) = length (pb_readers p)
}.

Lemma pb_init_inv : pb_inv (rc_pinit p).
Proof.
  assert (Hn : forall j, ~ pb_reading (rc_pinit p) j).
  { intros j [k H]. cbn in H. rewrite nth_error_map in H.
    destruct (nth_error (pb_readers p) j); discriminate. }
  constructor.
  - reflexivity.
  - cbn. lia.
  - intros _. reflexivity.
  - intros x. left. reflexivity.
  - intros o H. discriminate.
  - intros j H. exfalso. exact (Hn j H).
  - intros _ o. reflexivity.
  - intros _. exact Hn.
  - intros _ x u. reflexivity.
  - cbn. apply map_length.
Qed.

Lemma forallb_seq_true (f : nat -> bool) n : (forall u, f u = true) -> forallb f (seq 0 n) = true.
Proof. intros H. apply forallb_forall. intros u _. apply H. Qed.

Lemma pb_step_inv s t : pb_inv s -> pb_inv (rc_pstep false p s t).
Proof.
  intros I. destruct I as [I1 I2 I3 I4 I5 I6 I7 I8 I9 I10].
  unfold rc_pstep. fold W. destruct t as [|j].
  - (* writer *)
    destruct (Nat.ltb_spec (ps_wpc s) W) as [Hlt|Hge].
    + (* plain write *)
      set (x := nth (ps_wpc s) (pb_ws p) 0).
      assert (Hc : rc_C (ps_mon s) 0 0 = 1) by (apply I3; lia).
      constructor; cbn [ps_mon ps_wpc ps_flags ps_rpcs rc_step rc_C rc_L rc_Wt rc_Wc rc_R rc_raced].
      * rewrite I1. cbn [orb]. apply Bool.negb_false_iff. apply andb_true_intro. split.
        -- apply Nat.leb_le. destruct (I4 x) as [H0|[Ht Hc1]]; [lia|]. rewrite Ht, Hc1. lia.
        -- apply forallb_seq_true. intros u. apply Nat.leb_le. rewrite I9 by lia. lia.
      * exact I2.
      * intros _. exact Hc.
      * intros y. unfold rc_upd. destruct (Nat.eqb_spec y x); [right; split; [reflexivity|exact Hc]|apply I4].
      * exact I5.
      * exact I6.
      * intros H o. apply I7. lia.
      * intros H. apply I8. lia.
      * intros H. apply I9. lia.
      * exact I10.
    + destruct (Nat.ltb_spec (ps_wpc s) (W + length (pb_os p))) as [Hlt2|Hge2]; [|constructor; assumption].
      (* release *)
      set (o := nth (ps_wpc s - W) (pb_os p) 0).
      constructor; cbn [ps_mon ps_wpc ps_flags ps_rpcs rc_step rc_C rc_L rc_Wt rc_Wc rc_R rc_raced].
      * exact I1.
      * rewrite rc_upd_same. unfold rc_inc. rewrite rc_upd_same. lia.
      * intros H. lia.
      * exact I4.
      * intros o' H. unfold rc_upd in *. destruct (Nat.eqb_spec o' o).
        -- unfold rc_join. lia.
        -- apply I5. exact H.
      * intros j Hj. rewrite rc_upd_other by lia. apply I6. exact Hj.
      * intros H. lia.
      * intros H. lia.
      * intros H. lia.
      * exact I10.
  - (* reader j *)
    destruct (nth_error (ps_rpcs s) j) as [pc|] eqn:Epc; [|constructor; assumption].
    destruct (nth_error (pb_readers p) j) as [[o xs]|] eqn:Erd;
      [|destruct pc; constructor; assumption].
    destruct pc as [|k|].
    + (* acquire *)
      rewrite Bool.orb_false_r.
      constructor; cbn [ps_mon ps_wpc ps_flags ps_rpcs rc_step rc_C rc_L rc_Wt rc_Wc rc_R rc_raced].
      * exact I1.
      * rewrite rc_upd_other by lia. exact I2.
      * intros H. rewrite rc_upd_other by lia. apply I3. exact H.
      * exact I4.
      * exact I5.
      * intros j' [k Hk]. cbn [ps_rpcs] in Hk. unfold rc_set_nth in Hk.
        destruct (Nat.eq_dec j j') as [<-|Hne].
        -- rewrite (la_nth_error_set_same _ _ _ _ Epc) in Hk.
           destruct (ps_flags s o) eqn:Ef; [|discriminate].
           rewrite rc_upd_same. unfold rc_join. specialize (I5 o Ef). lia.
        -- rewrite (la_nth_error_set_other' _ _ _ _ _ Hne Epc) in Hk.
           rewrite rc_upd_other by lia. apply I6. exists k. exact Hk.
      * exact I7.
      * intros H j' [k Hk]. cbn [ps_rpcs] in Hk. unfold rc_set_nth in Hk.
        destruct (Nat.eq_dec j j') as [<-|Hne].
        -- rewrite (la_nth_error_set_same _ _ _ _ Epc) in Hk.
           rewrite (I7 H o) in Hk. discriminate.
        -- rewrite (la_nth_error_set_other' _ _ _ _ _ Hne Epc) in Hk.
           apply (I8 H j'). exists k. exact Hk.
      * exact I9.
      * unfold rc_set_nth. rewrite (la_set_length _ _ _ _ Epc). exact I10.
    + (* read *)
      destruct (Nat.ltb_spec k (length xs)) as [Hk|Hk]; [|constructor; assumption].
      assert (Hrd : pb_reading s j) by (exists k; exact Epc).
      assert (Hw : W < ps_wpc s).
      { destruct (Nat.le_gt_cases (ps_wpc s) W) as [Hle|Hgt]; [|exact Hgt].
        exfalso. apply (I8 Hle j Hrd). }
      set (x := nth k xs 0).
      constructor; cbn [ps_mon ps_wpc ps_flags ps_rpcs rc_step rc_C rc_L rc_Wt rc_Wc rc_R rc_raced].
      * rewrite I1. cbn [orb]. apply Bool.negb_false_iff. apply Nat.leb_le.
        destruct (I4 x) as [H0|[Ht Hc1]]; [lia|]. rewrite Ht, Hc1. apply I6. exact Hrd.
      * exact I2.
      * intros H. lia.
      * exact I4.
      * exact I5.
      * intros j' [k' Hk']. apply I6. cbn [ps_rpcs] in Hk'. unfold rc_set_nth in Hk'.
        destruct (Nat.eq_dec j j') as [<-|Hne]; [exact Hrd|].
        rewrite (la_nth_error_set_other' _ _ _ _ _ Hne Epc) in Hk'. exists k'. exact Hk'.
      * intros H. lia.
      * intros H. lia.
      * intros H. lia.
      * unfold rc_set_nth. rewrite (la_set_length _ _ _ _ Epc). exact I10.
    + constructor; assumption.
Qed.

Lemma pb_run_inv sched : pb_inv (rc_prun false p sched).
Proof.
  unfold rc_prun. generalize pb_init_inv. generalize (rc_pinit p).
  induction sched as [|t r IH]; intros s H; cbn [fold_left]; [exact H|].
  apply IH. apply pb_step_inv. exact H.
Qed.

Theorem pb_race_free sched : rc_raced (ps_mon (rc_prun false p sched)) = false.
Proof. apply pi_norace. apply pb_run_inv. Qed.

End Pub.

(* the reader that reads without checking what its acquire observed does race *)
Lemma pb_unguarded_races :
  rc_raced (ps_mon (rc_prun true {| pb_ws := [7]; pb_os := [1]; pb_readers := [(1, [7])] |} [0; 1; 1])) = true.
Proof. vm_compute. reflexivity. Qed.

(* two unordered writers to one location race *)
Lemma rc_two_writers_race :
  rc_raced (rc_run 2 [(0, RWrite 7); (1, RWrite 7)]) = true.
Proof. vm_compute. reflexivity. Qed.

(* ------------------------------------------------------------------ lock discipline *)
Section Lock.
Variable progs : list (list (list (bool * nat))).
Let n := length progs.

Record lk_inv (s : rc_lst) : Prop := {
  li_norace : rc_raced (ls_mon s) = false;
  li_inside : forall t sec pos, nth_error (ls_pcs s) t = Some (sec, pos, true) -> ls_owner s = Some t;
  li_w : forall x, rc_Wc (ls_mon s) x <= rc_L (ls_mon s) 0 (rc_Wt (ls_mon s) x)
                   \/ ls_owner s = Some (rc_Wt (ls_mon s) x);
  li_r : forall x u, rc_R (ls_mon s) x u <= rc_L (ls_mon s) 0 u \/ ls_owner s = Some u;
  li_wc : forall x, rc_Wc (ls_mon s) x <= rc_C (ls_mon s) (rc_Wt (ls_mon s) x) (rc_Wt (ls_mon s) x);
  li_rc : forall x u, rc_R (ls_mon s) x u <= rc_C (ls_mon s) u u;
  li_own : forall t, ls_owner s = Some t -> forall u, rc_L (ls_mon s) 0 u <= rc_C (ls_mon s) t u
}.

Lemma lk_init_inv : lk_inv (rc_linit progs).
Proof.
  constructor; cbn; try reflexivity; try (intros; lia); try (intros; left; lia); try (intros; discriminate).
  all: try (intros t sec pos H; rewrite nth_error_map in H; destruct (nth_error progs t); discriminate).
Qed.

Lemma lk_step_inv s t : lk_inv s -> lk_inv (rc_lstep progs s t).
Proof.
  intros I. destruct I as [I1 I2 I3 I4 I5 I6 I7]. unfold rc_lstep. fold n.
  destruct (nth_error (ls_pcs s) t) as [[[sec pos] inside]|] eqn:Epc; [|constructor; assumption].
  destruct (nth_error progs t) as [prog|] eqn:Epr; [|constructor; assumption].
  destruct (nth_error prog sec) as [accs|] eqn:Esec; [|constructor; assumption].
  destruct inside; cbn [negb].
  - (* inside: owner = t *)
    assert (Ho : ls_owner s = Some t) by (eapply I2; exact Epc).
    destruct (nth_error accs pos) as [[w x]|] eqn:Eacc.
    + (* access *)
      assert (Hokw : rc_Wc (ls_mon s) x <= rc_C (ls_mon s) t (rc_Wt (ls_mon s) x)).
      { destruct (I3 x) as [H|H].
        - etransitivity; [exact H|]. apply I7. exact Ho.
        - rewrite Ho in H. injection H as Ht. pose proof (I5 x) as H5. rewrite <- Ht in H5 at 1. exact H5. }
      destruct w.
      * (* write *)
        constructor; cbn [ls_mon ls_owner ls_pcs rc_step rc_C rc_L rc_Wt rc_Wc rc_R rc_raced].
        -- rewrite I1. cbn [orb]. apply Bool.negb_false_iff. apply andb_true_intro. split.
           ++ apply Nat.leb_le. exact Hokw.
           ++ apply forallb_forall. intros u _. apply Nat.leb_le.
              destruct (I4 x u) as [H|H].
              ** etransitivity; [exact H|]. apply I7. exact Ho.
              ** rewrite Ho in H. inversion H; subst. apply I6.
        -- intros t' sec' pos' H. unfold rc_set_nth in H.
           destruct (Nat.eq_dec t t') as [<-|Hne]; [exact Ho|].
           rewrite (la_nth_error_set_other' _ _ _ _ _ Hne Epc) in H. eapply I2. exact H.
        -- intros y. unfold rc_upd. destruct (Nat.eqb_spec y x); [right; exact Ho|apply I3].
        -- exact I4.
        -- intros y. unfold rc_upd. destruct (Nat.eqb_spec y x); [lia|apply I5].
        -- exact I6.
        -- exact I7.
      * (* read *)
        constructor; cbn [ls_mon ls_owner ls_pcs rc_step rc_C rc_L rc_Wt rc_Wc rc_R rc_raced].
        -- rewrite I1. cbn [orb]. apply Bool.negb_false_iff. apply Nat.leb_le. exact Hokw.
        -- intros t' sec' pos' H. unfold rc_set_nth in H.
           destruct (Nat.eq_dec t t') as [<-|Hne]; [exact Ho|].
           rewrite (la_nth_error_set_other' _ _ _ _ _ Hne Epc) in H. eapply I2. exact H.
        -- exact I3.
        -- intros y u. unfold rc_upd. destruct (Nat.eqb_spec y x); [|apply I4].
           destruct (Nat.eqb_spec u t); [right; subst; exact Ho|apply I4].
        -- exact I5.
        -- intros y u. unfold rc_upd. destruct (Nat.eqb_spec y x); [|apply I6].
           destruct (Nat.eqb_spec u t); [subst; lia|apply I6].
        -- exact I7.
    + (* unlock *)
      constructor; cbn [ls_mon ls_owner ls_pcs rc_step rc_C rc_L rc_Wt rc_Wc rc_R rc_raced].
      * exact I1.
      * intros t' sec' pos' H. unfold rc_set_nth in H. exfalso.
        destruct (Nat.eq_dec t t') as [<-|Hne].
        -- rewrite (la_nth_error_set_same _ _ _ _ Epc) in H. discriminate.
        -- rewrite (la_nth_error_set_other' _ _ _ _ _ Hne Epc) in H.
           pose proof (I2 _ _ _ H) as H'. rewrite Ho in H'. inversion H'. contradiction.
      * intros x. left. rewrite rc_upd_same. unfold rc_join.
        destruct (I3 x) as [H|H]; [lia|]. rewrite Ho in H. inversion H as [Ht].
        pose proof (I5 x) as H5. rewrite <- Ht in *. lia.
      * intros x u. left. rewrite rc_upd_same. unfold rc_join.
        destruct (I4 x u) as [H|H]; [lia|]. rewrite Ho in H. inversion H; subst.
        pose proof (I6 x u). lia.
      * intros x. unfold rc_upd at 1. destruct (Nat.eqb_spec (rc_Wt (ls_mon s) x) t) as [E|E].
        -- unfold rc_inc. rewrite E. rewrite rc_upd_same. pose proof (I5 x) as H5. rewrite E in H5. lia.
        -- apply I5.
      * intros x u. unfold rc_upd at 1. destruct (Nat.eqb_spec u t) as [E|E].
        -- subst u. unfold rc_inc. rewrite rc_upd_same. pose proof (I6 x t). lia.
        -- apply I6.
      * intros t' H. discriminate.
  - (* not inside: try to lock *)
    destruct (ls_owner s) as [o|] eqn:Eo; [constructor; try assumption; rewrite Eo; assumption|].
    constructor; cbn [ls_mon ls_owner ls_pcs rc_step rc_C rc_L rc_Wt rc_Wc rc_R rc_raced].
    + exact I1.
    + intros t' sec' pos' H. unfold rc_set_nth in H.
      destruct (Nat.eq_dec t t') as [<-|Hne]; [reflexivity|].
      rewrite (la_nth_error_set_other' _ _ _ _ _ Hne Epc) in H.
      pose proof (I2 _ _ _ H). discriminate.
    + intros x. left. destruct (I3 x) as [H|H]; [exact H|discriminate].
    + intros x u. left. destruct (I4 x u) as [H|H]; [exact H|discriminate].
    + intros x. unfold rc_upd. destruct (Nat.eqb_spec (rc_Wt (ls_mon s) x) t) as [E|E].
      * unfold rc_join. pose proof (I5 x) as H5. rewrite E in *. lia.
      * apply I5.
    + intros x u. unfold rc_upd. destruct (Nat.eqb_spec u t) as [E|E].
      * subst u. unfold rc_join. pose proof (I6 x t). lia.
      * apply I6.
    + intros t' H u. inversion H; subst t'. rewrite rc_upd_same. unfold rc_join. lia.
Qed.

Theorem lk_race_free sched : rc_raced (ls_mon (rc_lrun progs sched)) = false.
Proof.
  apply li_norace. unfold rc_lrun. generalize lk_init_inv. generalize (rc_linit progs).
  induction sched as [|t r IH]; intros s H; cbn [fold_left]; [exact H|].
  apply IH. apply lk_step_inv. exact H.
Qed.

End Lock.
