(* MutexWordProofs.v -- Count is truthful, TryLock step specification (models/MutexWord.v). *)
From Got Require Import Base MutexWord.
Local Open Scope Z_scope.

(* ------------------------------------------------------------------ bit facts *)

Lemma mx_odd_mod x : Z.odd x = (x mod 2 =? 1).
Proof. rewrite Zmod_odd. destruct (Z.odd x); reflexivity. Qed.

Lemma mx_land1 w : Z.land w 1 = w mod 2.
Proof. change 1 with (Z.ones 1). rewrite Z.land_ones by lia. reflexivity. Qed.

Lemma mx_land7 w : Z.land w 7 = w mod 8.
Proof. change 7 with (Z.ones 3). rewrite Z.land_ones by lia. reflexivity. Qed.

Lemma mx_shiftr3 w : Z.shiftr w 3 = w / 8.
Proof. rewrite Z.shiftr_div_pow2 by lia. reflexivity. Qed.

Lemma mx_lor1_even w : w mod 2 = 0 -> Z.lor w 1 = w + 1.
Proof.
  intros H. assert (E : Z.land w 1 = 0) by (rewrite mx_land1; exact H).
  rewrite <- (Z.lxor_lor _ _ E). symmetry. apply Z.add_nocarry_lxor. exact E.
Qed.

(* ------------------------------------------------------------------ Count *)

Lemma mx_count_fixed_spec w :
  mx_count MxFixed w = mx_waiters w + (if mx_locked w then 1 else 0).
Proof.
  unfold mx_count, mx_waiters, mx_locked. rewrite mx_land1, mx_shiftr3, mx_odd_mod.
  destruct (w mod 2 =? 1) eqn:E; lia.
Qed.

Lemma mx_count_truthful w :
  mx_valid_word w -> mx_count MxFixed w = mx_waiters w + (if mx_locked w then 1 else 0).
Proof. intros _. apply mx_count_fixed_spec. Qed.

(* the fields of a constructed word *)
Lemma mx_mk_fields n s k l :
  mx_waiters (mx_mk n s k l) = n /\ mx_starving (mx_mk n s k l) = s /\
  mx_woken (mx_mk n s k l) = k /\ mx_locked (mx_mk n s k l) = l.
Proof.
  unfold mx_waiters, mx_starving, mx_woken, mx_locked, mx_mk. rewrite !mx_odd_mod.
  destruct s, k, l; cbn [Z.b2z]; repeat split; try lia.
Qed.

Lemma mx_count_mk n s k l : mx_count MxFixed (mx_mk n s k l) = n + Z.b2z l.
Proof.
  rewrite mx_count_fixed_spec. destruct (mx_mk_fields n s k l) as (-> & _ & _ & ->).
  destruct l; reflexivity.
Qed.

Lemma mx_mk_valid n s k l : 0 <= n < 2 ^ 28 -> mx_valid_word (mx_mk n s k l).
Proof.
  unfold mx_valid_word, mx_mk. change (2 ^ 31) with (8 * 2 ^ 28). intros H.
  destruct s, k, l; cbn [Z.b2z]; lia.
Qed.

(* every valid word is a constructed one *)
Lemma mx_valid_mk w :
  mx_valid_word w -> w = mx_mk (mx_waiters w) (mx_starving w) (mx_woken w) (mx_locked w) /\ 0 <= mx_waiters w < 2 ^ 28.
Proof.
  unfold mx_valid_word, mx_mk, mx_waiters, mx_starving, mx_woken, mx_locked.
  change (2 ^ 31) with (8 * 2 ^ 28). intros H. rewrite !mx_odd_mod.
  destruct (w / 4 mod 2 =? 1) eqn:E1, (w / 2 mod 2 =? 1) eqn:E2, (w mod 2 =? 1) eqn:E3; cbn [Z.b2z]; lia.
Qed.

Lemma mx_count_orig_refuted :
  mx_valid_word 17 /\ mx_count MxOrig 17 = 2 /\ mx_waiters 17 + (if mx_locked 17 then 1 else 0) = 3 /\
  mx_valid_word 8 /\ mx_count MxOrig 8 = 2 /\ mx_waiters 8 + (if mx_locked 8 then 1 else 0) = 1.
Proof. unfold mx_valid_word. vm_compute. intuition congruence. Qed.

(* ------------------------------------------------------------------ TryLock *)

(* the snapshot a thread parked before the second CAS holds passed the test of the load step *)
Definition mx_tl_ok (pc : mx_tlpc) : Prop :=
  match pc with TLCas2 old => Z.land old 7 = 0 | _ => True end.

Definition mx_tl_spec (w w' : Z) (r : mx_tlres) : Prop :=
  match r with
  | TLRet true =>
      (* acquired: the word had all three flags clear, only the locked bit changes *)
      mx_locked w = false /\ mx_woken w = false /\ mx_starving w = false /\
      w' = w + 1 /\
      mx_locked w' = true /\ mx_woken w' = false /\ mx_starving w' = false /\
      mx_waiters w' = mx_waiters w
  | TLRet false => w' = w
  | TLCont pc' => w' = w /\ mx_tl_ok pc'
  end.

Lemma mx_flags_of_mod8 w :
  w mod 8 = 0 ->
  mx_locked w = false /\ mx_woken w = false /\ mx_starving w = false /\
  mx_locked (w + 1) = true /\ mx_woken (w + 1) = false /\ mx_starving (w + 1) = false /\
  mx_waiters (w + 1) = mx_waiters w.
Proof.
  intros H. unfold mx_locked, mx_woken, mx_starving, mx_waiters. rewrite !mx_odd_mod.
  repeat split; try (apply Z.eqb_neq); try (apply Z.eqb_eq); lia.
Qed.

Lemma mx_trylock_step_spec w pc w' r :
  mx_tl_ok pc -> mx_trylock_step w pc = (w', r) -> mx_tl_spec w w' r.
Proof.
  intros Hok H. destruct pc as [| |old]; cbn [mx_trylock_step mx_tl_ok] in *.
  - destruct (w =? 0) eqn:E; inversion H; subst; cbn [mx_tl_spec mx_tl_ok].
    + apply Z.eqb_eq in E. subst. vm_compute. intuition congruence.
    + split; [reflexivity|exact I].
  - destruct (Z.land w 7 =? 0) eqn:E; inversion H; subst; cbn [mx_tl_spec mx_tl_ok].
    + apply Z.eqb_eq in E. split; [reflexivity|exact E].
    + reflexivity.
  - destruct (w =? old) eqn:E; inversion H; subst; cbn [mx_tl_spec]; [|reflexivity].
    apply Z.eqb_eq in E. subst old. rewrite mx_land7 in Hok.
    rewrite mx_lor1_even by lia.
    pose proof (mx_flags_of_mod8 w Hok). intuition.
Qed.

(* a failing TryLock at the load step: exactly when one of the three flags is set *)
Lemma mx_trylock_load_refuses w :
  snd (mx_trylock_step w TLLoad) = TLRet false <->
  (mx_locked w = true \/ mx_woken w = true \/ mx_starving w = true).
Proof.
  cbn [mx_trylock_step]. rewrite mx_land7. unfold mx_locked, mx_woken, mx_starving. rewrite !mx_odd_mod.
  destruct (w mod 8 =? 0) eqn:E; cbn [snd]; split; intros H.
  - discriminate.
  - apply Z.eqb_eq in E. destruct H as [H | [H | H]]; apply Z.eqb_eq in H; lia.
  - apply Z.eqb_neq in E.
    destruct (w mod 2 =? 1) eqn:E1; [left; reflexivity|].
    destruct (w / 2 mod 2 =? 1) eqn:E2; [right; left; reflexivity|].
    destruct (w / 4 mod 2 =? 1) eqn:E3; [right; right; reflexivity|].
    apply Z.eqb_neq in E1, E2, E3. lia.
  - reflexivity.
Qed.

(* a whole call in an environment that rewrites the word between the accesses *)
Lemma mx_trylock_env_ok pc ws r after :
  mx_tl_ok pc -> mx_trylock_env pc ws = (r, after) ->
  match r with
  | Some true =>
      exists pre w, after = pre ++ [w + 1] /\ firstn (length after) ws = pre ++ [w] /\
                    mx_locked w = false /\ mx_woken w = false /\ mx_starving w = false /\
                    mx_locked (w + 1) = true /\ mx_waiters (w + 1) = mx_waiters w
  | _ => after = firstn (length after) ws
  end.
Proof.
  revert pc r after. induction ws as [|w rest IH]; intros pc r after Hok H; cbn [mx_trylock_env] in H.
  - inversion H; subst. reflexivity.
  - destruct (mx_trylock_step w pc) as [w' res] eqn:Es.
    pose proof (mx_trylock_step_spec w pc w' res Hok Es) as Hs.
    destruct res as [pc'|b].
    + destruct (mx_trylock_env pc' rest) as [r1 l1] eqn:E1. inversion H; subst.
      destruct Hs as [-> Hok']. specialize (IH pc' r l1 Hok' E1).
      destruct r as [[|]|]; cbn [length firstn].
      * destruct IH as (pre & w0 & Ha & Hf & Hrest). exists (w :: pre), w0.
        subst l1. rewrite Hf. cbn [app]. repeat split; try reflexivity; apply Hrest.
      * rewrite <- IH. reflexivity.
      * rewrite <- IH. reflexivity.
    + inversion H; subst. destruct b; cbn [mx_tl_spec] in Hs.
      * destruct Hs as (H1 & H2 & H3 & -> & H5 & H6 & H7 & H8).
        exists [], w. cbn [app length firstn]. repeat split; assumption.
      * subst. reflexivity.
Qed.

Theorem mx_trylock_call_spec ws r after :
  mx_trylock_env TLCas1 ws = (r, after) ->
  match r with
  | Some true =>
      exists pre w, after = pre ++ [w + 1] /\ firstn (length after) ws = pre ++ [w] /\
                    mx_locked w = false /\ mx_woken w = false /\ mx_starving w = false /\
                    mx_locked (w + 1) = true /\ mx_waiters (w + 1) = mx_waiters w
  | _ => after = firstn (length after) ws
  end.
Proof. apply mx_trylock_env_ok. exact I. Qed.

(* ------------------------------------------------------------------ Part 2: mutual exclusion *)
Local Open Scope nat_scope.

Lemma mx_w_eqb_eq a b : mx_w_eqb a b = true -> a = b.
Proof.
  destruct a as [l1 k1 s1 n1], b as [l2 k2 s2 n2]. unfold mx_w_eqb. cbn [xl xk xs xn].
  rewrite !Bool.andb_true_iff. intros [[[H1 H2] H3] H4].
  apply Bool.eqb_prop in H1, H2, H3. apply Nat.eqb_eq in H4. subst. reflexivity.
Qed.

Lemma mx_is_zero_eq r : mx_is_zero r = true -> r = mx_zero.
Proof. apply mx_w_eqb_eq. Qed.

(* weights *)
Definition mx_wH (th : mx_thread) : nat := if xh th then 1 else 0.
Definition mx_wW (th : mx_thread) : nat := match xpc th with XLWoke _ _ _ => 1 | _ => 0 end.
Definition mx_wS (th : mx_thread) : nat :=
  match xpc th with XLLoad _ _ true _ => 1 | XLCas _ _ true _ _ => 1 | _ => 0 end.
Definition mx_wP (th : mx_thread) : nat := match xpc th with XURel false => 1 | _ => 0 end.
Definition mx_wD (th : mx_thread) : nat := match xpc th with XLHand _ => 1 | XURel true => 1 | _ => 0 end.

Definition mx_sum (f : mx_thread -> nat) (l : list mx_thread) : nat :=
  fold_right (fun th a => f th + a) 0 l.

Lemma mx_sum_app f l1 l2 : mx_sum f (l1 ++ l2) = mx_sum f l1 + mx_sum f l2.
Proof. unfold mx_sum. induction l1 as [|x l IH]; simpl; [reflexivity|]. rewrite IH. lia. Qed.

Lemma mx_sum_split f l i th :
  nth_error l i = Some th ->
  mx_sum f l = f th + (mx_sum f (firstn i l) + mx_sum f (skipn (S i) l)).
Proof.
  unfold mx_sum. revert i. induction l as [|x l IH]; intros i H; destruct i; cbn [nth_error] in H; try discriminate.
  - inversion H; subst. simpl. lia.
  - specialize (IH i H). simpl. simpl in IH. lia.
Qed.

Lemma mx_sum_set f l i th' :
  mx_sum f (firstn i l ++ th' :: skipn (S i) l) = f th' + (mx_sum f (firstn i l) + mx_sum f (skipn (S i) l)).
Proof. rewrite mx_sum_app. unfold mx_sum. simpl. lia. Qed.

(* local facts of a thread parked at pc *)
Definition mx_lok (th : mx_thread) : Prop :=
  match xpc th with
  | XLLoad _ _ awoke stv => stv = true -> awoke = true
  | XLCas _ _ awoke stv _ => stv = true -> awoke = true
  | XLSpin _ _ old => xk old = false /\ xs old = false
  | XT3 old => xl old = false /\ xk old = false /\ xs old = false
  | XU1 => xh th = true
  | XUSlow old => xl old = false /\ xk old = false /\ xs old = false /\ xn old <> 0
  | _ => True
  end.

Definition mx_b2n (b : bool) : nat := if b then 1 else 0.

(* global invariant on: word, tokens, and the sums of the weights
   H holders, W woken-not-yet-loaded, S awake slow-path threads owning mutexWoken,
   P pending normal-mode Semrelease, D hand-off in progress (XLHand, pending hand-off Semrelease) *)
Definition mx_J (r : mx_w) (t H W S P D : nat) : Prop :=
  H = mx_b2n (xl r) /\
  (xs r = false -> t + P + W + S <= mx_b2n (xk r) /\ D = 0) /\
  (xs r = true -> S = 0 /\ P = 0 /\ t + W + D <= 1 /\ (xl r = true -> t + W + D = 0)).

Ltac mx_conds :=
  repeat match goal with
  | H : context [if ?c then _ else _] |- _ =>
      lazymatch c with
      | mx_w_eqb ?a ?b => let E := fresh "E" in destruct (mx_w_eqb a b) eqn:E; [apply mx_w_eqb_eq in E|]
      | mx_is_zero ?a => let E := fresh "E" in destruct (mx_is_zero a) eqn:E; [apply mx_is_zero_eq in E|]
      | _ => let E := fresh "E" in destruct c eqn:E
      end
  end.

Lemma mx_step_th_J r t th r' t' th' ev RH RW RS RP RD :
  mx_lok th ->
  mx_J r t (mx_wH th + RH) (mx_wW th + RW) (mx_wS th + RS) (mx_wP th + RP) (mx_wD th + RD) ->
  mx_step_th r t th = (r', t', th', ev) ->
  mx_lok th' /\
  mx_J r' t' (mx_wH th' + RH) (mx_wW th' + RW) (mx_wS th' + RS) (mx_wP th' + RP) (mx_wD th' + RD).
Proof.
  destruct th as [pc h todo]. unfold mx_step_th, mx_to_cas, mx_uslow_done, mx_lok, mx_J, mx_wH, mx_wW, mx_wS, mx_wP, mx_wD, mx_b2n.
  cbn [xpc xh xtodo]. intros L J Hs.
  destruct pc; [destruct todo as [|[sp st| |] rest]| | | | | destruct t as [|t0] | | | | | | | | | |];
    mx_conds; inversion Hs; subst; clear Hs;
    cbn [xpc xh xtodo mx_mkth mx_set_l mx_slow_new mx_zero xl xk xs xn] in *;
    repeat match goal with o : mx_w |- _ => destruct o as [?l ?k ?s ?n] end; cbn [xl xk xs xn] in *;
    repeat match goal with
    | H : {| xl := _; xk := _; xs := _; xn := _ |} = {| xl := _; xk := _; xs := _; xn := _ |} |- _ => inversion H; clear H; subst
    | H : {| xl := _; xk := _; xs := _; xn := _ |} = ?o |- _ => subst o
    | H : ?o = {| xl := _; xk := _; xs := _; xn := _ |} |- _ => subst o
    end;
    cbn [xl xk xs xn] in *;
    repeat match goal with b : bool |- _ => clear b end;
    repeat match goal with b : bool |- _ => destruct b end;
    cbn in *; repeat split; intros; try discriminate; try lia;
    repeat match goal with
    | H : _ /\ _ |- _ => destruct H
    | H : ?a = ?a -> _ |- _ => specialize (H eq_refl)
    | H : false = true -> _ |- _ => clear H
    | H : true = false -> _ |- _ => clear H
    end; try discriminate; try lia; try congruence.
Qed.
