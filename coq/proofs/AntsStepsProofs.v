(* AntsStepsProofs.v -- invariants of the small-step ants pool model (models/AntsSteps.v). *)
From Got Require Import Base ListAux AntsSteps.
Local Open Scope nat_scope.

(* ------------------------------------------------------------------ lists *)
Lemma ast_upd_nth {A} (l : list A) i f j :
  nth_error (ast_upd l i f) j = if j =? i then option_map f (nth_error l j) else nth_error l j.
Proof.
  unfold ast_upd. destruct (nth_error l i) eqn:E.
  - destruct (Nat.eqb_spec j i) as [->|Hn].
    + rewrite E. cbn. unfold ast_set. apply (la_nth_error_set_same l i (f a) a E).
    + unfold ast_set. apply (la_nth_error_set_other' l i j (f a) a); auto.
  - destruct (Nat.eqb_spec j i) as [->|Hn]; [rewrite E; reflexivity|reflexivity].
Qed.

Lemma ast_upd_length {A} (l : list A) i f : length (ast_upd l i f) = length l.
Proof.
  unfold ast_upd. destruct (nth_error l i) eqn:E; [|reflexivity].
  unfold ast_set. apply (la_set_length l i (f a) a E).
Qed.

Lemma ast_snoc_nth {A} (l : list A) x j :
  nth_error (l ++ [x]) j = if j <? length l then nth_error l j else if j =? length l then Some x else None.
Proof.
  destruct (Nat.ltb_spec j (length l)) as [H|H].
  - apply nth_error_app1. exact H.
  - rewrite nth_error_app2 by exact H. destruct (Nat.eqb_spec j (length l)) as [->|Hn].
    + rewrite Nat.sub_diag. reflexivity.
    + destruct (j - length l) as [|k] eqn:E; [lia|]. cbn. destruct k; reflexivity.
Qed.

Lemma ast_nth_lt {A} (l : list A) j x : nth_error l j = Some x -> j < length l.
Proof. intros H. apply nth_error_Some. congruence. Qed.

(* ------------------------------------------------------------------ who holds what *)
Definition ast_pc_task (pc : ast_pc) : option nat :=
  match pc with
  | AstSendEnq t | AstDEnq t _ _ | AstDSelect t _ _ | AstDStoreRes t _ _ _ _ | AstDStoreTo t _ _
  | AstDCancel t _ _ | AstDReadErr t _ | AstDOnErr t | AstDWgDone t => Some t
  | _ => None
  end.

Definition ast_pc_att (pc : ast_pc) : option nat :=
  match pc with
  | AstDEnq _ a _ | AstIMid a | AstICtx a _ _ | AstISend a _ _ _ | AstIStoreO a _ _ => Some a
  | _ => None
  end.

Definition ast_is_mid (pc : ast_pc) : bool := match pc with AstIMid _ => true | _ => false end.
Definition ast_is_inner (pc : ast_pc) : bool :=
  match pc with AstIStart | AstIRecv | AstIMid _ | AstICtx _ _ _ | AstISend _ _ _ _ | AstIStoreO _ _ _ => true | _ => false end.

Definition ast_count (p : ast_pc -> bool) (thr : list ast_thread) : nat :=
  length (filter (fun th => p (ath_pc th)) thr).

Definition ast_town (s : ast_state) (t : nat) : option ast_where := option_map att_owner (nth_error (ast_tasks s) t).
Definition ast_aown (s : ast_state) (a : nat) : option ast_where := option_map ata_owner (nth_error (ast_atts s) a).
Definition ast_pc_of (s : ast_state) (i : nat) : option ast_pc := option_map ath_pc (nth_error (ast_thr s) i).

Record ast_inv (s : ast_state) : Prop := {
  ai_tthr : forall i pc t, ast_pc_of s i = Some pc -> ast_pc_task pc = Some t -> ast_town s t = Some (AwThread i);
  ai_tchan : forall t, In t (ast_tchan s) -> ast_town s t = Some AwChan;
  ai_tnodup : NoDup (ast_tchan s);
  ai_athr : forall i pc a, ast_pc_of s i = Some pc -> ast_pc_att pc = Some a -> ast_aown s a = Some (AwThread i);
  ai_achan : forall a, In a (ast_ichan s) -> ast_aown s a = Some AwChan;
  ai_anodup : NoDup (ast_ichan s);
  ai_alen : forall a x, nth_error (ast_atts s) a = Some x ->
            ata_chan x = [] \/ (ata_owner x = AwGone /\ length (ata_chan x) = 1)
}.

(* ------------------------------------------------------------------ count *)
Lemma ast_count_upd p thr i f th :
  nth_error thr i = Some th ->
  ast_count p (ast_upd thr i f) + (if p (ath_pc th) then 1 else 0)
  = ast_count p thr + (if p (ath_pc (f th)) then 1 else 0).
Proof.
  unfold ast_count, ast_upd. intros E. rewrite E. unfold ast_set.
  assert (Hs : thr = firstn i thr ++ th :: skipn (S i) thr).
  { clear f p. revert i E. induction thr as [|y l IH]; intros [|i] E; cbn in *; try discriminate.
    - congruence.
    - f_equal. apply IH. exact E. }
  rewrite Hs at 3. rewrite !filter_app, !app_length. cbn [filter].
  destruct (p (ath_pc th)), (p (ath_pc (f th))); cbn [length]; lia.
Qed.

(* ------------------------------------------------------------------ running handlers <= n *)
Ltac ast_cbn :=
  cbn [fst snd ast_set_pc ast_upd_task ast_upd_att ast_with_thr ast_with_tasks ast_with_atts ast_with_tchan
       ast_with_ichan ast_with_closed ast_with_now ast_with_running ast_with_discards
       ast_thr ast_tasks ast_atts ast_tchan ast_ichan ast_closed ast_now ast_running ast_discards
       ast_start_attempt ast_finish_handler ast_wait_ctx ath_pc ath_prog ath_handles option_map
       ast_pc_task ast_pc_att ast_blocked_res] in *.

Record ast_cinv (n : nat) (s : ast_state) : Prop := {
  ci_run : ast_running s = ast_count ast_is_mid (ast_thr s);
  ci_inner : ast_count ast_is_inner (ast_thr s) <= n
}.

Lemma ast_count_le p q thr : (forall pc, p pc = true -> q pc = true) -> ast_count p thr <= ast_count q thr.
Proof.
  intros H. unfold ast_count. induction thr as [|th l IH]; cbn [filter]; [lia|].
  destruct (p (ath_pc th)) eqn:E; [rewrite (H _ E); cbn [length]; lia|].
  destruct (q (ath_pc th)); cbn [length]; lia.
Qed.

Ltac ast_cnt Eth :=
  match goal with
  | |- context [ast_count ?p (ast_upd ?thr ?tid ?f)] =>
      let H := fresh "Hc" in pose proof (ast_count_upd p thr tid f _ Eth) as H; cbn [ath_pc ast_is_mid ast_is_inner] in H;
      generalize dependent (ast_count p (ast_upd thr tid f)); intros
  end.

Lemma ast_step_cinv md n s tid hint : ast_cinv n s -> ast_cinv n (fst (fst (ast_step md n s tid hint))).
Proof.
  intros Inv. unfold ast_step. destruct (nth_error (ast_thr s) tid) as [th|] eqn:Eth; [|exact Inv].
  destruct th as [pc prog hs]. unfold ast_step_pc. cbn [ath_pc ath_prog ath_handles].
  destruct Inv as [C1 C2].
  destruct pc;
    repeat first [progress (unfold ast_wait_ctx; ast_cbn) | match goal with
    | |- context [match ?x with _ => _ end] => destruct x eqn:?
    end]; try (split; assumption);
    split; ast_cbn; repeat (ast_cnt Eth); try lia.
Qed.

Lemma ast_count_app p a b : ast_count p (a ++ b) = ast_count p a + ast_count p b.
Proof. unfold ast_count. rewrite filter_app, app_length. reflexivity. Qed.

Lemma ast_count_repeat p th k : ast_count p (repeat th k) = if p (ath_pc th) then k else 0.
Proof.
  unfold ast_count. induction k as [|k IH]; cbn [repeat filter]; [destruct (p (ath_pc th)); reflexivity|].
  destruct (p (ath_pc th)); cbn [length]; lia.
Qed.

Lemma ast_count_clients p progs :
  p AstIdle = false ->
  ast_count p (map (fun pr => {| ath_pc := AstIdle; ath_prog := pr; ath_handles := [] |}) progs) = 0.
Proof.
  intros H. unfold ast_count. induction progs as [|x l IH]; cbn [map filter ath_pc]; [reflexivity|].
  rewrite H. exact IH.
Qed.

Lemma ast_init_cinv n progs : ast_cinv n (ast_init n progs).
Proof.
  split; cbn [ast_init ast_running ast_thr]; rewrite !ast_count_app, !ast_count_repeat, ast_count_clients by reflexivity;
    cbn [ath_pc ast_is_mid ast_is_inner]; lia.
Qed.

Lemma ast_run_cinv md n sched : forall s, ast_cinv n s -> ast_cinv n (ast_run md n s sched).
Proof.
  induction sched as [|[tid h] r IH]; intros s H; [exact H|]. cbn [ast_run fold_left]. apply IH.
  unfold ast_next. cbn [fst snd]. apply ast_step_cinv. exact H.
Qed.

(* handlers run only on the n inner workers *)
Lemma ast_steps_concurrency_bound md n progs sched :
  ast_running (ast_run md n (ast_init n progs) sched) <= n.
Proof.
  destruct (ast_run_cinv md n sched _ (ast_init_cinv n progs)) as [H1 H2]. rewrite H1.
  etransitivity; [|exact H2]. apply ast_count_le. intros pc. destruct pc; cbn; congruence.
Qed.
