(* AntsStepsProofs.v -- invariants of the small-step ants pool model (models/AntsSteps.v). *)
From Got Require Import Base ListAux AntsSteps.
Local Open Scope nat_scope.

(* ------------------------------------------------------------------ lists *)
Lemma ast_upd_nth {A} (l : list A) i f j :
  nth_error (ast_upd l i f) j = if j =? i then option_map f (nth_error l j) else nth_error l j.
Proof.
  unfold ast_upd. destruct (nth_error l i) eqn:E.
  - destruct (Nat.eqb_spec j i) as [->|Hn].
    + rewrite E. cbn. unfold ast_set. apply (la_nth_error_set_same l i (f a) a E).
    + unfold ast_set. apply (la_nth_error_set_other' l i j (f a) a); auto.
  - destruct (Nat.eqb_spec j i) as [->|Hn]; [rewrite E; reflexivity|reflexivity].
Qed.

Lemma ast_upd_length {A} (l : list A) i f : length (ast_upd l i f) = length l.
Proof.
  unfold ast_upd. destruct (nth_error l i) eqn:E; [|reflexivity].
  unfold ast_set. apply (la_set_length l i (f a) a E).
Qed.

Lemma ast_snoc_nth {A} (l : list A) x j :
  nth_error (l ++ [x]) j = if j <? length l then nth_error l j else if j =? length l then Some x else None.
Proof.
  destruct (Nat.ltb_spec j (length l)) as [H|H].
  - apply nth_error_app1. exact H.
  - rewrite nth_error_app2 by exact H. destruct (Nat.eqb_spec j (length l)) as [->|Hn].
    + rewrite Nat.sub_diag. reflexivity.
    + destruct (j - length l) as [|k] eqn:E; [lia|]. cbn. destruct k; reflexivity.
Qed.

Lemma ast_nth_lt {A} (l : list A) j x : nth_error l j = Some x -> j < length l.
Proof. intros H. apply nth_error_Some. congruence. Qed.

(* ------------------------------------------------------------------ who holds what *)
Definition ast_pc_task (pc : ast_pc) : option nat :=
  match pc with
  | AstSendEnq t | AstDEnq t _ _ | AstDSelect t _ _ | AstDStoreRes t _ _ _ _ | AstDStoreTo t _ _
  | AstDCancel t _ _ | AstDReadErr t _ | AstDOnErr t | AstDWgDone t => Some t
  | _ => None
  end.

Definition ast_pc_att (pc : ast_pc) : option nat :=
  match pc with
  | AstDEnq _ a _ | AstIMid a | AstICtx a _ _ | AstISend a _ _ _ | AstIStoreO a _ _ => Some a
  | _ => None
  end.

Definition ast_is_mid (pc : ast_pc) : bool := match pc with AstIMid _ => true | _ => false end.
Definition ast_is_inner (pc : ast_pc) : bool :=
  match pc with AstIStart | AstIRecv | AstIMid _ | AstICtx _ _ _ | AstISend _ _ _ _ | AstIStoreO _ _ _ => true | _ => false end.

Definition ast_count (p : ast_pc -> bool) (thr : list ast_thread) : nat :=
  length (filter (fun th => p (ath_pc th)) thr).

Definition ast_town (s : ast_state) (t : nat) : option ast_where := option_map att_owner (nth_error (ast_tasks s) t).
Definition ast_aown (s : ast_state) (a : nat) : option ast_where := option_map ata_owner (nth_error (ast_atts s) a).
Definition ast_pc_of (s : ast_state) (i : nat) : option ast_pc := option_map ath_pc (nth_error (ast_thr s) i).

Record ast_inv (s : ast_state) : Prop := {
  ai_tthr : forall i pc t, ast_pc_of s i = Some pc -> ast_pc_task pc = Some t -> ast_town s t = Some (AwThread i);
  ai_tchan : forall t, In t (ast_tchan s) -> ast_town s t = Some AwChan;
  ai_tnodup : NoDup (ast_tchan s);
  ai_athr : forall i pc a, ast_pc_of s i = Some pc -> ast_pc_att pc = Some a -> ast_aown s a = Some (AwThread i);
  ai_achan : forall a, In a (ast_ichan s) -> ast_aown s a = Some AwChan;
  ai_anodup : NoDup (ast_ichan s);
  ai_alen : forall a x, nth_error (ast_atts s) a = Some x ->
            ata_chan x = [] \/ (ata_owner x = AwGone /\ length (ata_chan x) = 1)
}.

(* ------------------------------------------------------------------ count *)
Lemma ast_count_upd p thr i f th :
  nth_error thr i = Some th ->
  ast_count p (ast_upd thr i f) + (if p (ath_pc th) then 1 else 0)
  = ast_count p thr + (if p (ath_pc (f th)) then 1 else 0).
Proof.
  unfold ast_count, ast_upd. intros E. rewrite E. unfold ast_set.
  assert (Hs : thr = firstn i thr ++ th :: skipn (S i) thr).
  { clear f p. revert i E. induction thr as [|y l IH]; intros [|i] E; cbn in *; try discriminate.
    - congruence.
    - f_equal. apply IH. exact E. }
  rewrite Hs at 3. rewrite !filter_app, !app_length. cbn [filter].
  destruct (p (ath_pc th)), (p (ath_pc (f th))); cbn [length]; lia.
Qed.

(* ------------------------------------------------------------------ running handlers <= n *)
Ltac ast_cbn :=
  cbn [fst snd ast_set_pc ast_upd_task ast_upd_att ast_with_thr ast_with_tasks ast_with_atts ast_with_tchan
       ast_with_ichan ast_with_closed ast_with_now ast_with_running ast_with_discards
       ast_thr ast_tasks ast_atts ast_tchan ast_ichan ast_closed ast_now ast_running ast_discards
       ast_start_attempt ast_finish_handler ast_wait_ctx ath_pc ath_prog ath_handles option_map
       ast_pc_task ast_pc_att ast_blocked_res] in *.

Record ast_cinv (n : nat) (s : ast_state) : Prop := {
  ci_run : ast_running s = ast_count ast_is_mid (ast_thr s);
  ci_inner : ast_count ast_is_inner (ast_thr s) <= n
}.

Lemma ast_count_le p q thr : (forall pc, p pc = true -> q pc = true) -> ast_count p thr <= ast_count q thr.
Proof.
  intros H. unfold ast_count. induction thr as [|th l IH]; cbn [filter]; [lia|].
  destruct (p (ath_pc th)) eqn:E; [rewrite (H _ E); cbn [length]; lia|].
  destruct (q (ath_pc th)); cbn [length]; lia.
Qed.

Ltac ast_cnt Eth :=
  match goal with
  | |- context [ast_count ?p (ast_upd ?thr ?tid ?f)] =>
      let H := fresh "Hc" in pose proof (ast_count_upd p thr tid f _ Eth) as H; cbn [ath_pc ast_is_mid ast_is_inner] in H;
      generalize dependent (ast_count p (ast_upd thr tid f)); intros
  end.

Lemma ast_step_cinv md n s tid hint : ast_cinv n s -> ast_cinv n (fst (fst (ast_step md n s tid hint))).
Proof.
  intros Inv. unfold ast_step. destruct (nth_error (ast_thr s) tid) as [th|] eqn:Eth; [|exact Inv].
  destruct th as [pc prog hs]. unfold ast_step_pc. cbn [ath_pc ath_prog ath_handles].
  destruct Inv as [C1 C2].
  destruct pc;
    repeat first [progress (unfold ast_wait_ctx; ast_cbn) | match goal with
    | |- context [match ?x with _ => _ end] => destruct x eqn:?
    end]; try (split; assumption);
    split; ast_cbn; repeat (ast_cnt Eth); try lia.
Qed.

Lemma ast_count_app p a b : ast_count p (a ++ b) = ast_count p a + ast_count p b.
Proof. unfold ast_count. rewrite filter_app, app_length. reflexivity. Qed.

Lemma ast_count_repeat p th k : ast_count p (repeat th k) = if p (ath_pc th) then k else 0.
Proof.
  unfold ast_count. induction k as [|k IH]; cbn [repeat filter]; [destruct (p (ath_pc th)); reflexivity|].
  destruct (p (ath_pc th)); cbn [length]; lia.
Qed.

Lemma ast_count_clients p progs :
  p AstIdle = false ->
  ast_count p (map (fun pr => {| ath_pc := AstIdle; ath_prog := pr; ath_handles := [] |}) progs) = 0.
Proof.
  intros H. unfold ast_count. induction progs as [|x l IH]; cbn [map filter ath_pc]; [reflexivity|].
  rewrite H. exact IH.
Qed.

Lemma ast_init_cinv n progs : ast_cinv n (ast_init n progs).
Proof.
  split; cbn [ast_init ast_running ast_thr]; rewrite !ast_count_app, !ast_count_repeat, ast_count_clients by reflexivity;
    cbn [ath_pc ast_is_mid ast_is_inner]; lia.
Qed.

Lemma ast_run_cinv md n sched : forall s, ast_cinv n s -> ast_cinv n (ast_run md n s sched).
Proof.
  induction sched as [|[tid h] r IH]; intros s H; [exact H|]. cbn [ast_run fold_left]. apply IH.
  unfold ast_next. cbn [fst snd]. apply ast_step_cinv. exact H.
Qed.

(* handlers run only on the n inner workers *)
Lemma ast_steps_concurrency_bound md n progs sched :
  ast_running (ast_run md n (ast_init n progs) sched) <= n.
Proof.
  destruct (ast_run_cinv md n sched _ (ast_init_cinv n progs)) as [H1 H2]. rewrite H1.
  etransitivity; [|exact H2]. apply ast_count_le. intros pc. destruct pc; cbn; congruence.
Qed.

(* ------------------------------------------------------------------ ownership *)
Ltac ast_eqb :=
  repeat match goal with
  | H : context [?a =? ?b] |- _ => destruct (Nat.eqb_spec a b); [subst|]
  | |- context [?a =? ?b] => destruct (Nat.eqb_spec a b); [subst|]
  | H : context [?a <? ?b] |- _ => destruct (Nat.ltb_spec a b)
  | |- context [?a <? ?b] => destruct (Nat.ltb_spec a b)
  end.

Ltac ast_norm := unfold ast_pc_of, ast_town, ast_aown in *; ast_cbn;
  rewrite ?ast_upd_nth, ?ast_snoc_nth, ?ast_upd_length, ?app_length in *; ast_cbn.

Lemma ast_some_lt {A B} (f : A -> B) l t w : option_map f (nth_error l t) = Some w -> t < length l.
Proof. destruct (nth_error l t) eqn:E; [intros _; apply nth_error_Some; congruence|discriminate]. Qed.

Ltac ast_bounds :=
  repeat match goal with
  | H : option_map _ (nth_error ?l ?t) = Some _ |- _ =>
      lazymatch goal with
      | _ : t < length l |- _ => fail
      | _ => pose proof (ast_some_lt _ _ _ _ H)
      end
  end.

Ltac ast_fin :=
  ast_bounds; ast_eqb; try lia;
  repeat match goal with
  | |- context [nth_error ?l ?t] => let E := fresh "E" in destruct (nth_error l t) eqn:E; rewrite ?E in *
  end; ast_cbn; cbn in *; try congruence; try lia.

Ltac ast_thr_clause Eth O1 O4 I1 I4 :=
  let i := fresh "i" in let pc0 := fresh "pc0" in let x := fresh "x" in
  let H1 := fresh "H1" in let H2 := fresh "H2" in
  intros i pc0 x H1 H2; ast_norm; ast_eqb;
  try (rewrite Eth in H1; ast_cbn; injection H1 as <-; ast_cbn);
  try discriminate; try (injection H2 as <-);
  try (pose proof (I1 _ _ _ H1 H2) as J1; unfold ast_town in J1);
  try (pose proof (I4 _ _ _ H1 H2) as J4; unfold ast_aown in J4);
  try (specialize (O1 _ eq_refl); unfold ast_town in O1);
  try (specialize (O4 _ eq_refl); unfold ast_aown in O4);
  ast_fin.

Lemma ast_nodup_snoc {A} (l : list A) x : NoDup l -> ~ In x l -> NoDup (l ++ [x]).
Proof.
  intros H Hn. induction H as [|y l Hy H IH]; cbn; [constructor; [intros []|constructor]|].
  constructor.
  - intros Hi. apply in_app_or in Hi. destruct Hi as [Hi|[->|[]]]; [contradiction|apply Hn; left; reflexivity].
  - apply IH. intros Hi. apply Hn. right. exact Hi.
Qed.

Ltac ast_prep_tchan I2 I3 :=
  try match goal with Hq : ast_tchan ?s = ?h :: ?l |- _ =>
    let F1 := fresh "F1" in let F2 := fresh "F2" in let F3 := fresh "F3" in let F4 := fresh "F4" in
    pose proof (I2 h) as F4; try rewrite Hq in F4; specialize (F4 (or_introl eq_refl)); unfold ast_town in F4;
    assert (F2 : ~ In h l) by (try rewrite Hq in I3; inversion I3; assumption);
    assert (F3 : NoDup l) by (try rewrite Hq in I3; inversion I3; assumption);
    assert (F1 : forall x, In x l -> In x (h :: l) /\ x <> h)
      by (intros x Hx; split; [right; exact Hx|intros ->; contradiction])
  end.
Ltac ast_prep_ichan I5 I6 :=
  try match goal with Hq : ast_ichan ?s = ?h :: ?l |- _ =>
    let F1 := fresh "G1" in let F2 := fresh "G2" in let F3 := fresh "G3" in let F4 := fresh "G4" in
    pose proof (I5 h) as F4; try rewrite Hq in F4; specialize (F4 (or_introl eq_refl)); unfold ast_aown in F4;
    assert (F2 : ~ In h l) by (try rewrite Hq in I6; inversion I6; assumption);
    assert (F3 : NoDup l) by (try rewrite Hq in I6; inversion I6; assumption);
    assert (F1 : forall x, In x l -> In x (h :: l) /\ x <> h)
      by (intros x Hx; split; [right; exact Hx|intros ->; contradiction])
  end.

Ltac ast_chan_clause O1 O4 I2 I5 :=
  let x := fresh "x" in let Hin := fresh "Hin" in
  intros x Hin;
  try (apply in_app_or in Hin; destruct Hin as [Hin|[<-|[]]]);
  try match goal with F : forall y, In y ?l -> In y _ /\ y <> _ |- _ =>
        match type of Hin with In _ l => destruct (F _ Hin) as [Hin0 Hne] end end;
  try (pose proof (I2 _ Hin) as J2; unfold ast_town in J2);
  try (pose proof (I5 _ Hin) as J5; unfold ast_aown in J5);
  try match goal with Hin0 : In _ (_ :: _) |- _ => pose proof (I2 _ Hin0) as J2'; unfold ast_town in J2' end;
  try match goal with Hin0 : In _ (_ :: _) |- _ => pose proof (I5 _ Hin0) as J5'; unfold ast_aown in J5' end;
  try (specialize (O1 _ eq_refl); unfold ast_town in O1);
  try (specialize (O4 _ eq_refl); unfold ast_aown in O4);
  ast_norm; ast_fin.

Ltac ast_nodup_clause O1 O4 I2 I5 :=
  apply ast_nodup_snoc; [assumption|];
  let Hin := fresh "Hin" in intros Hin;
  try (pose proof (I2 _ Hin) as J2; unfold ast_town in J2);
  try (pose proof (I5 _ Hin) as J5; unfold ast_aown in J5);
  try (specialize (O1 _ eq_refl); unfold ast_town in O1);
  try (specialize (O4 _ eq_refl); unfold ast_aown in O4);
  congruence.

Ltac ast_alen_clause O4 I7 :=
  let a := fresh "a" in let x := fresh "x" in let Hx := fresh "Hx" in
  intros a x Hx; ast_norm;
  try (specialize (O4 _ eq_refl); unfold ast_aown in O4);
  unfold ast_att_chan in *;
  ast_eqb; try lia;
  repeat match type of Hx with context [nth_error ?l ?t] =>
    let E := fresh "E" in destruct (nth_error l t) eqn:E; rewrite ?E in * end;
  cbn in Hx; try discriminate; try (injection Hx as <-);
  try (eapply I7; eassumption);
  try (left; reflexivity);
  match goal with E : nth_error _ _ = Some ?x0 |- _ =>
    let K := fresh "K" in let K1 := fresh "K1" in let K2 := fresh "K2" in
    destruct (I7 _ _ E) as [K|[K1 K2]]; cbn in *;
    first [ left; congruence | right; split; congruence
          | match goal with Hq : ata_chan _ = _ :: ?r |- _ => rewrite Hq in *; destruct r; cbn in *; [left; reflexivity|lia] end
          | congruence ]
  end.

Lemma ast_step_inv md n s tid hint : ast_inv s -> ast_inv (fst (fst (ast_step md n s tid hint))).
Proof.
  intros Inv. unfold ast_step. destruct (nth_error (ast_thr s) tid) as [th|] eqn:Eth; [|exact Inv].
  destruct th as [pc prog hs]. unfold ast_step_pc. cbn [ath_pc ath_prog ath_handles].
  pose proof Inv as [I1 I2 I3 I4 I5 I6 I7].
  pose proof (I1 tid pc) as O1. pose proof (I4 tid pc) as O4.
  unfold ast_pc_of in O1, O4. rewrite Eth in O1, O4. cbn [option_map ath_pc] in O1, O4.
  specialize (fun t => O1 t eq_refl). specialize (fun a => O4 a eq_refl).
  destruct pc; cbn [ast_pc_task ast_pc_att] in O1, O4;
    repeat first [progress (unfold ast_wait_ctx; ast_cbn) | match goal with
    | |- context [match ?x with _ => _ end] => destruct x eqn:?
    end]; try exact Inv.
  all: ast_prep_tchan I2 I3; ast_prep_ichan I5 I6; constructor; ast_cbn; auto.
  all: try (ast_thr_clause Eth O1 O4 I1 I4; fail).
  all: try (ast_chan_clause O1 O4 I2 I5; fail).
  all: try (ast_nodup_clause O1 O4 I2 I5; fail).
  all: try (ast_alen_clause O4 I7; fail).
Qed.

Lemma ast_init_pcs n progs i pc :
  ast_pc_of (ast_init n progs) i = Some pc -> pc = AstIdle \/ pc = AstDStart \/ pc = AstIStart.
Proof.
  unfold ast_pc_of. cbn [ast_init ast_thr]. destruct (nth_error _ i) as [th|] eqn:E; [|discriminate].
  cbn. intros [= <-]. apply nth_error_In in E. apply in_app_or in E. destruct E as [E|E].
  - apply in_map_iff in E. destruct E as [p [<- _]]. left. reflexivity.
  - apply in_app_or in E. destruct E as [E|E]; apply repeat_spec in E; subst; cbn; auto.
Qed.

Lemma ast_init_inv n progs : ast_inv (ast_init n progs).
Proof.
  constructor.
  - intros i pc t H1 H2. destruct (ast_init_pcs _ _ _ _ H1) as [->|[->| ->]]; discriminate.
  - intros t [].
  - constructor.
  - intros i pc t H1 H2. destruct (ast_init_pcs _ _ _ _ H1) as [->|[->| ->]]; discriminate.
  - intros t [].
  - constructor.
  - intros a x H. destruct a; discriminate.
Qed.

Lemma ast_run_inv md n sched : forall s, ast_inv s -> ast_inv (ast_run md n s sched).
Proof.
  induction sched as [|[tid h] r IH]; intros s H; [exact H|]. cbn [ast_run fold_left]. apply IH.
  unfold ast_next. cbn [fst snd]. apply ast_step_inv. exact H.
Qed.

Definition ast_reach (md : ast_mode) (n : nat) (progs : list (list ast_op)) (s : ast_state) : Prop :=
  exists sched, s = ast_run md n (ast_init n progs) sched.

Lemma ast_reach_inv md n progs s : ast_reach md n progs s -> ast_inv s.
Proof. intros [sched ->]. apply ast_run_inv. apply ast_init_inv. Qed.

(* a task is never held by two threads: the client about to enqueue it, or the ONE dispatcher running it *)
Lemma ast_steps_task_single_holder md n progs s i j pci pcj t :
  ast_reach md n progs s ->
  ast_pc_of s i = Some pci -> ast_pc_task pci = Some t ->
  ast_pc_of s j = Some pcj -> ast_pc_task pcj = Some t -> i = j.
Proof.
  intros R Hi Ti Hj Tj. pose proof (ast_reach_inv _ _ _ _ R) as Inv.
  pose proof (ai_tthr _ Inv _ _ _ Hi Ti) as A. pose proof (ai_tthr _ Inv _ _ _ Hj Tj) as B. congruence.
Qed.

(* a held task is not in the task channel as well *)
Lemma ast_steps_task_not_queued md n progs s i pci t :
  ast_reach md n progs s -> ast_pc_of s i = Some pci -> ast_pc_task pci = Some t -> ~ In t (ast_tchan s).
Proof.
  intros R Hi Ti Hin. pose proof (ast_reach_inv _ _ _ _ R) as Inv.
  pose proof (ai_tthr _ Inv _ _ _ Hi Ti) as A. pose proof (ai_tchan _ Inv _ Hin) as B. congruence.
Qed.

(* the per-attempt channel never holds more than one message ... *)
Lemma ast_steps_attempt_chan_le1 md n progs s a x :
  ast_reach md n progs s -> nth_error (ast_atts s) a = Some x -> length (ata_chan x) <= 1.
Proof.
  intros R Hx. destruct (ai_alen _ (ast_reach_inv _ _ _ _ R) _ _ Hx) as [->|[_ ->]]; cbn; lia.
Qed.

(* ... and the inner worker's send on it never blocks *)
Lemma ast_steps_inner_send_never_blocks md n progs s tid th a v e d :
  ast_reach md n progs s -> nth_error (ast_thr s) tid = Some th -> ath_pc th = AstISend a v e d ->
  ast_is_blocked md n s tid = false.
Proof.
  intros R Hth Hpc. pose proof (ast_reach_inv _ _ _ _ R) as Inv.
  assert (Ho : ast_aown s a = Some (AwThread tid)).
  { apply (ai_athr _ Inv tid (AstISend a v e d)); [unfold ast_pc_of; rewrite Hth; cbn; congruence|reflexivity]. }
  unfold ast_aown in Ho. destruct (nth_error (ast_atts s) a) as [x|] eqn:Ex; [|discriminate].
  cbn in Ho. injection Ho as Ho.
  destruct (ai_alen _ Inv _ _ Ex) as [Hc|[Hg _]]; [|congruence].
  unfold ast_is_blocked, ast_step. rewrite Hth. unfold ast_step_pc. rewrite Hpc.
  unfold ast_att_chan. rewrite Ex, Hc. reflexivity.
Qed.

(* ------------------------------------------------------------------ who writes result/err *)
Definition ast_stores (pc : ast_pc) (t : nat) : bool :=
  match pc with AstDStoreRes t' _ _ _ _ | AstDStoreTo t' _ _ => t' =? t | AstIStoreO _ _ _ => true | _ => false end.

(* result and err of a task change only in the store step of the dispatcher that holds it *)
Lemma ast_step_writes n s tid hint th t x x' :
  nth_error (ast_thr s) tid = Some th -> ast_stores (ath_pc th) t = false ->
  nth_error (ast_tasks s) t = Some x ->
  nth_error (ast_tasks (fst (fst (ast_step AstFixed n s tid hint)))) t = Some x' ->
  att_res x' = att_res x /\ att_err x' = att_err x.
Proof.
  intros Eth Hst Hx. unfold ast_step. rewrite Eth.
  destruct th as [pc prog hs]. unfold ast_step_pc. cbn [ath_pc ath_prog ath_handles] in *.
  destruct pc; cbn [ast_stores] in Hst;
    repeat first [progress (unfold ast_wait_ctx; ast_cbn) | match goal with
    | |- context [match ?x with _ => _ end] => destruct x eqn:?
    end]; intros Hx'; ast_norm; ast_eqb; try lia; try discriminate;
    repeat match type of Hx' with context [nth_error ?l ?t] =>
      let E := fresh "E" in destruct (nth_error l t) eqn:E; rewrite ?E in * end;
    cbn in *; try discriminate; try (injection Hx' as <-); try (injection Hx as <-); cbn; try (split; congruence).
  all: try (apply ast_nth_lt in Hx; lia).
Qed.

Definition ast_is_storeo (pc : ast_pc) : bool := match pc with AstIStoreO _ _ _ => true | _ => false end.

(* the fixed code has no store by the inner callback: that pc is unreachable *)
Lemma ast_step_no_storeo n s tid hint :
  (forall i pc, ast_pc_of s i = Some pc -> ast_is_storeo pc = false) ->
  forall i pc, ast_pc_of (fst (fst (ast_step AstFixed n s tid hint))) i = Some pc -> ast_is_storeo pc = false.
Proof.
  intros Inv. unfold ast_step. destruct (nth_error (ast_thr s) tid) as [th|] eqn:Eth; [|exact Inv].
  pose proof (Inv tid (ath_pc th)) as O. unfold ast_pc_of in O. rewrite Eth in O. specialize (O eq_refl).
  destruct th as [pc prog hs]. unfold ast_step_pc. cbn [ath_pc ath_prog ath_handles] in *.
  destruct pc; cbn [ast_is_storeo] in O; try discriminate;
    repeat first [progress (unfold ast_wait_ctx; ast_cbn) | match goal with
    | |- context [match ?x with _ => _ end] => destruct x eqn:?
    end]; try exact Inv;
    intros ii pc0 H1; ast_norm; ast_eqb;
    try (rewrite Eth in H1; ast_cbn; injection H1 as <-; reflexivity);
    try (apply (Inv ii); unfold ast_pc_of; exact H1).
Qed.

Lemma ast_run_no_storeo n sched : forall s,
  (forall i pc, ast_pc_of s i = Some pc -> ast_is_storeo pc = false) ->
  forall i pc, ast_pc_of (ast_run AstFixed n s sched) i = Some pc -> ast_is_storeo pc = false.
Proof.
  induction sched as [|[tid h] r IH]; intros s H; [exact H|]. cbn [ast_run fold_left]. apply IH.
  unfold ast_next. cbn [fst snd]. apply ast_step_no_storeo. exact H.
Qed.

(* ONLY THE DISPATCHER RUNNING A TASK WRITES ITS result/err: in every reachable state of the fixed code a step changes
   result or err of task t only if the stepping thread is parked before one of the two stores of runTaskOnce for t;
   that thread holds t, and no other thread does (ast_steps_task_single_holder) *)
Lemma ast_steps_only_dispatcher_writes n progs s tid hint th t x x' :
  ast_reach AstFixed n progs s ->
  nth_error (ast_thr s) tid = Some th ->
  nth_error (ast_tasks s) t = Some x ->
  nth_error (ast_tasks (fst (fst (ast_step AstFixed n s tid hint)))) t = Some x' ->
  (att_res x', att_err x') <> (att_res x, att_err x) ->
  (exists a i v e, ath_pc th = AstDStoreRes t a i v e) \/ (exists a i, ath_pc th = AstDStoreTo t a i).
Proof.
  intros [sched ->] Hth Hx Hx' Hne.
  destruct (ast_stores (ath_pc th) t) eqn:Hs.
  - destruct (ath_pc th) eqn:Hpc; cbn [ast_stores] in Hs; try discriminate.
    + apply Nat.eqb_eq in Hs. subst. left. eauto.
    + apply Nat.eqb_eq in Hs. subst. right. eauto.
    + exfalso. assert (H : ast_is_storeo (AstIStoreO a v e) = false); [|discriminate].
      apply (ast_run_no_storeo n sched (ast_init n progs)) with (i := tid).
      * intros i pc H1. destruct (ast_init_pcs _ _ _ _ H1) as [->|[->| ->]]; reflexivity.
      * unfold ast_pc_of. rewrite Hth. cbn. congruence.
  - exfalso. apply Hne. destruct (ast_step_writes n _ tid hint th t x x' Hth Hs Hx Hx') as [-> ->]. reflexivity.
Qed.
