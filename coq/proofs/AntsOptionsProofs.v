(* AntsOptionsProofs.v -- lemmas about models/AntsOptions.v (option lists, several pools per process). *)
From Got Require Import Base Ants AntsProofs AntsOptions.
Local Open Scope Z_scope.

(* ------------------------------------------------------------------ pool options *)
Lemma apo_create_snoc_l l o : apo_create (l ++ [o]) = apo_apply (apo_create l) o.
Proof. unfold apo_create. rewrite fold_left_app. reflexivity. Qed.

Lemma apo_fold_size_pos l c : 1 <= apo_size c -> 1 <= apo_size (fold_left apo_apply l c).
Proof.
  revert c. induction l as [|o r IH]; intros c Hc; cbn [fold_left]; [exact Hc|].
  apply IH. destruct o as [n|[b|]]; cbn [apo_apply]; [|exact Hc|exact Hc].
  destruct (0 <? n) eqn:E; cbn [apo_size]; lia.
Qed.

Lemma apo_fold_size_same l c :
  (forall n, In (ApoSize n) l -> n <= 0) -> apo_size (fold_left apo_apply l c) = apo_size c.
Proof.
  revert c. induction l as [|o r IH]; intros c H; cbn [fold_left]; [reflexivity|].
  rewrite IH by (intros n Hn; apply H; right; exact Hn).
  destruct o as [n|[b|]]; cbn [apo_apply]; try reflexivity.
  assert (Hn : n <= 0) by (apply H; left; reflexivity).
  destruct (0 <? n) eqn:E; [lia|reflexivity].
Qed.

Lemma apo_fold_builder_same l c :
  (forall b, ~ In (ApoBuilder (Some b)) l) -> apo_builder (fold_left apo_apply l c) = apo_builder c.
Proof.
  revert c. induction l as [|o r IH]; intros c H; cbn [fold_left]; [reflexivity|].
  rewrite IH by (intros b Hb; apply (H b); right; exact Hb).
  destruct o as [n|[b|]]; cbn [apo_apply]; try reflexivity.
  - destruct (0 <? n); reflexivity.
  - exfalso. apply (H b). left. reflexivity.
Qed.

Lemma ants_pool_size_l l :
  1 <= apo_size (apo_create l) /\
  ((forall n, In (ApoSize n) l -> n <= 0) -> apo_size (apo_create l) = 1) /\
  ((forall b, ~ In (ApoBuilder (Some b)) l) -> apo_builder (apo_create l) = None) /\
  (forall n, apo_size (apo_create (l ++ [ApoSize n])) = if 0 <? n then n else apo_size (apo_create l)) /\
  (forall b, apo_size (apo_create (l ++ [ApoBuilder b])) = apo_size (apo_create l)).
Proof.
  split; [apply apo_fold_size_pos; cbn; lia|].
  split; [intros H; unfold apo_create; rewrite apo_fold_size_same by exact H; reflexivity|].
  split; [intros H; unfold apo_create; rewrite apo_fold_builder_same by exact H; reflexivity|].
  split.
  - intros n. rewrite apo_create_snoc_l. cbn [apo_apply]. destruct (0 <? n); reflexivity.
  - intros b. rewrite apo_create_snoc_l. destruct b; reflexivity.
Qed.

(* ------------------------------------------------------------------ task options *)
Lemma ato_create_snoc_l l o : ato_create (l ++ [o]) = ato_apply (ato_create l) o.
Proof. unfold ato_create. rewrite fold_left_app. reflexivity. Qed.

Lemma ato_fold_pos l c :
  0 < ato_timeout c /\ 0 < ato_retry c ->
  0 < ato_timeout (fold_left ato_apply l c) /\ 0 < ato_retry (fold_left ato_apply l c).
Proof.
  revert c. induction l as [|o r IH]; intros c Hc; cbn [fold_left]; [exact Hc|].
  apply IH. destruct o as [t|n|b|cb]; cbn [ato_apply].
  - destruct (0 <? t) eqn:E; cbn [ato_timeout ato_retry]; lia.
  - destruct (0 <? n) eqn:E; cbn [ato_timeout ato_retry]; lia.
  - exact Hc.
  - exact Hc.
Qed.

Lemma ato_fold_same l c :
  ((forall t, In (AtoTimeout t) l -> t <= 0) -> ato_timeout (fold_left ato_apply l c) = ato_timeout c) /\
  ((forall n, In (AtoRetry n) l -> n <= 0) -> ato_retry (fold_left ato_apply l c) = ato_retry c) /\
  ((forall b, ~ In (AtoDiscard b) l) -> ato_discard (fold_left ato_apply l c) = ato_discard c) /\
  ((forall b, ~ In (AtoError b) l) -> ato_onerr (fold_left ato_apply l c) = ato_onerr c).
Proof.
  revert c. induction l as [|o r IH]; intros c; cbn [fold_left]; [repeat split; reflexivity|].
  destruct (IH (ato_apply c o)) as (I1 & I2 & I3 & I4).
  repeat split; intros H.
  - rewrite I1 by (intros t Ht; apply H; right; exact Ht).
    destruct o as [t|n|b|cb]; cbn [ato_apply]; try reflexivity.
    + assert (t <= 0) by (apply H; left; reflexivity). destruct (0 <? t) eqn:E; [lia|reflexivity].
    + destruct (0 <? n); reflexivity.
  - rewrite I2 by (intros t Ht; apply H; right; exact Ht).
    destruct o as [t|n|b|cb]; cbn [ato_apply]; try reflexivity.
    + destruct (0 <? t); reflexivity.
    + assert (n <= 0) by (apply H; left; reflexivity). destruct (0 <? n) eqn:E; [lia|reflexivity].
  - rewrite I3 by (intros t Ht; apply (H t); right; exact Ht).
    destruct o as [t|n|b|cb]; cbn [ato_apply]; try reflexivity.
    + destruct (0 <? t); reflexivity.
    + destruct (0 <? n); reflexivity.
    + exfalso. apply (H b). left. reflexivity.
  - rewrite I4 by (intros t Ht; apply (H t); right; exact Ht).
    destruct o as [t|n|b|cb]; cbn [ato_apply]; try reflexivity.
    + destruct (0 <? t); reflexivity.
    + destruct (0 <? n); reflexivity.
    + exfalso. apply (H cb). left. reflexivity.
Qed.

Lemma ants_task_options_l l :
  let c := ato_create l in
  0 < ato_timeout c /\ 0 < ato_retry c /\
  ((forall t, In (AtoTimeout t) l -> t <= 0) -> ato_timeout c = 365 * ato_day) /\
  ((forall n, In (AtoRetry n) l -> n <= 0) -> ato_retry c = 1) /\
  ((forall b, ~ In (AtoDiscard b) l) -> ato_discard c = true) /\
  ((forall b, ~ In (AtoError b) l) -> ato_onerr c = false) /\
  (forall o, ato_create (l ++ [o]) = ato_apply c o).
Proof.
  cbn zeta. unfold ato_create at 1 2 3 4 5 6.
  destruct (ato_fold_pos l ato_default) as [P1 P2]; [cbn; lia|].
  destruct (ato_fold_same l ato_default) as (S1 & S2 & S3 & S4).
  repeat split; auto. intros o. apply ato_create_snoc_l.
Qed.

(* ------------------------------------------------------------------ the calls of one process *)
Lemma ano_fresh_gen cs s :
  ano_pools (fold_left (ano_call_step AnoFresh) cs s) = ano_pools s ++ ano_want_pools cs /\
  ano_tasks (fold_left (ano_call_step AnoFresh) cs s) = ano_tasks s ++ ano_want_tasks cs.
Proof.
  revert s. induction cs as [|c r IH]; intros s; cbn [fold_left ano_want_pools ano_want_tasks].
  - rewrite !app_nil_r. split; reflexivity.
  - destruct (IH (ano_call_step AnoFresh s c)) as [I1 I2]. rewrite I1, I2.
    destruct c as [l|p l]; cbn [ano_call_step ano_pools ano_tasks]; rewrite <- ?app_assoc; split; reflexivity.
Qed.

Lemma ants_config_own_options_only_l cs :
  ano_pools (ano_calls AnoFresh cs) = ano_want_pools cs /\
  ano_tasks (ano_calls AnoFresh cs) = ano_want_tasks cs.
Proof. unfold ano_calls. destruct (ano_fresh_gen cs ano_proc0) as [H1 H2]. rewrite H1, H2. split; reflexivity. Qed.

Definition ano_leak_calls : list ano_call :=
  [AnoNewPool [ApoSize 3]; AnoSend 0%nat [AtoRetry 5; AtoTimeout 1000]; AnoNewPool []; AnoNewPool [ApoSize 0]; AnoSend 1%nat []].

Lemma ants_shared_default_options_refuted_l :
  map apo_size (ano_pools (ano_calls AnoSharedDefault ano_leak_calls)) = [3; 3; 3] /\
  map apo_size (ano_want_pools ano_leak_calls) = [3; 1; 1] /\
  map (fun x => (ato_retry (snd x), ato_timeout (snd x))) (ano_tasks (ano_calls AnoSharedDefault ano_leak_calls)) = [(5, 1000); (5, 1000)] /\
  map (fun x => (ato_retry (snd x), ato_timeout (snd x))) (ano_want_tasks ano_leak_calls) = [(5, 1000); (1, 365 * ato_day)].
Proof. vm_compute. repeat split; reflexivity. Qed.

(* ------------------------------------------------------------------ several pools *)
Lemma anm_run_inv (P : anm_state -> Prop) urg :
  (forall s e s', P s -> anm_step urg s e = Some s' -> P s') ->
  forall evs s s', P s -> anm_run urg s evs = Some s' -> P s'.
Proof.
  intros Hstep evs. induction evs as [|e r IH]; intros s s' HP Hrun; cbn [anm_run] in Hrun.
  - inversion Hrun; subst; exact HP.
  - destruct (anm_step urg s e) as [s1|] eqn:E; [|discriminate].
    eapply IH; [|exact Hrun]. eapply Hstep; eauto.
Qed.

(* every step of the single-pool machine other than the clock keeps the clock *)
Lemma an_step_now cfg s e s' :
  an_step cfg s e = Some s' -> (forall dt, e <> AnAdvance dt) -> an_now s' = an_now s.
Proof.
  intros Hs Hne.
  destruct e; an_inv_step Hs; try (inversion Hs; subst; clear Hs); try reflexivity.
  - (* decide via doneChan *)
    match goal with |- an_now (an_after ?s ?k ?a ?f) = _ =>
      destruct (an_after_cases s k a f) as [[_ E]|[(_ & _ & E)|(_ & _ & E)]]; rewrite E; reflexivity end.
  - (* decide via ctx1.Done() *)
    match goal with |- an_now (an_after ?s ?k ?a ?f) = _ =>
      destruct (an_after_cases s k a f) as [[_ E]|[(_ & _ & E)|(_ & _ & E)]]; rewrite E; reflexivity end.
  - exfalso. eapply Hne. reflexivity.
Qed.

Lemma an_step_advance_now cfg s dt s' :
  an_step cfg s (AnAdvance dt) = Some s' -> an_now s' = an_now s + dt.
Proof. intros Hs. an_inv_step Hs. inversion Hs; subst. reflexivity. Qed.

Lemma an_at_reach cfg now : 0 <= now -> an_reach cfg (an_at now).
Proof.
  intros H. exists [AnAdvance now]. cbn [an_run an_step].
  assert (E : (0 <=? now) = true) by lia. rewrite E.
  unfold an_quiet, an_init; cbn [an_tchan an_ichan an_workers an_active forallb andb].
  rewrite !orb_true_r. cbn [andb]. reflexivity.
Qed.

Definition anm_inv (urg : bool) (s : anm_state) : Prop :=
  0 <= anm_now s /\
  forall p pl, nth_error (anm_pools s) p = Some pl ->
    an_reach (anm_cfg urg (anm_popts pl)) (anm_st pl) /\ an_now (anm_st pl) = anm_now s.

Lemma anm_set_nth l p x q :
  nth_error (anm_set l p x) q =
  if Nat.eqb q p then (match nth_error l p with Some _ => Some x | None => None end) else nth_error l q.
Proof.
  revert p q. induction l as [|y r IH]; intros p q.
  - cbn [anm_set]. destruct p, q; cbn; try reflexivity. destruct (Nat.eqb q p); reflexivity.
  - destruct p as [|p]; destruct q as [|q]; cbn [anm_set nth_error Nat.eqb]; try reflexivity. apply IH.
Qed.

Lemma anm_adv_nth urg dt l l' :
  anm_adv urg dt l = Some l' ->
  forall p pl', nth_error l' p = Some pl' ->
    exists pl, nth_error l p = Some pl /\ anm_popts pl' = anm_popts pl /\
               an_step (anm_cfg urg (anm_popts pl)) (anm_st pl) (AnAdvance dt) = Some (anm_st pl').
Proof.
  revert l'. induction l as [|y r IH]; intros l' H p pl' Hn; cbn [anm_adv] in H.
  - inversion H; subst. destruct p; discriminate.
  - destruct (an_step (anm_cfg urg (anm_popts y)) (anm_st y) (AnAdvance dt)) as [st|] eqn:E; [|discriminate].
    destruct (anm_adv urg dt r) as [r'|] eqn:E2; [|discriminate]. inversion H; subst; clear H.
    destruct p as [|p]; cbn [nth_error] in *.
    + inversion Hn; subst. exists y. cbn [anm_popts anm_st]. repeat split; auto.
    + eapply IH; eauto.
Qed.

Lemma anm_on_inv urg s p e s' :
  anm_inv urg s -> (forall dt, e <> AnAdvance dt) -> anm_on urg s p e = Some s' -> anm_inv urg s'.
Proof.
  intros [H0 H] Hne Hs. unfold anm_on in Hs.
  destruct (nth_error (anm_pools s) p) as [pl|] eqn:E; [|discriminate].
  destruct (an_step (anm_cfg urg (anm_popts pl)) (anm_st pl) e) as [st|] eqn:E2; [|discriminate].
  inversion Hs; subst; clear Hs. split; [exact H0|]. cbn [anm_now anm_pools].
  intros q pl' Hq. rewrite anm_set_nth in Hq. destruct (Nat.eqb q p) eqn:Eq.
  - rewrite E in Hq. inversion Hq; subst; clear Hq. cbn [anm_popts anm_st].
    destruct (H p pl E) as [Hr Hn]. split.
    + eapply an_reach_step; eauto.
    + rewrite (an_step_now _ _ _ _ E2 Hne). exact Hn.
  - apply (H q pl'). exact Hq.
Qed.

Lemma anm_inv_step urg s e s' : anm_inv urg s -> anm_step urg s e = Some s' -> anm_inv urg s'.
Proof.
  intros Hi Hs. destruct e as [l|p l behs|p e|dt]; cbn [anm_step] in Hs.
  - inversion Hs; subst; clear Hs. destruct Hi as [H0 H]. split; [exact H0|]. cbn [anm_now anm_pools].
    intros q pl Hq. destruct (Nat.lt_ge_cases q (length (anm_pools s))) as [Hl|Hl].
    + rewrite nth_error_app1 in Hq by exact Hl. apply (H q pl). exact Hq.
    + rewrite nth_error_app2 in Hq by exact Hl.
      destruct (q - length (anm_pools s))%nat as [|d]; cbn [nth_error] in Hq.
      * inversion Hq; subst. cbn [anm_popts anm_st]. split; [apply an_at_reach; exact H0|reflexivity].
      * destruct d; discriminate.
  - eapply anm_on_inv; [exact Hi| |exact Hs]. intros dt; discriminate.
  - destruct (anm_local e) eqn:El; [|discriminate].
    eapply anm_on_inv; [exact Hi| |exact Hs]. intros dt ->; discriminate.
  - destruct (0 <=? dt) eqn:Ed; [|discriminate].
    destruct (anm_adv urg dt (anm_pools s)) as [ps|] eqn:E; [|discriminate].
    inversion Hs; subst; clear Hs. destruct Hi as [H0 H]. split; [cbn [anm_now]; lia|]. cbn [anm_now anm_pools].
    intros q pl' Hq. destruct (anm_adv_nth _ _ _ _ E q pl' Hq) as (pl & Hn & Ho & Hst).
    destruct (H q pl Hn) as [Hr Hnow]. rewrite Ho. split.
    + eapply an_reach_step; eauto.
    + rewrite (an_step_advance_now _ _ _ _ Hst), Hnow. reflexivity.
Qed.

(* every pool of a multi-pool run is, by itself, a run of the single-pool machine whose configuration
   is computed from that pool's own option list; all pools show the same clock *)
Lemma ants_multi_pool_projection_l urg evs s :
  anm_run urg anm_init evs = Some s ->
  forall p pl, nth_error (anm_pools s) p = Some pl ->
    (exists h, an_run (anm_cfg urg (anm_popts pl)) an_init h = Some (anm_st pl)) /\ an_now (anm_st pl) = anm_now s.
Proof.
  intros Hrun.
  assert (Hi : anm_inv urg s).
  { eapply (anm_run_inv (anm_inv urg) urg); [apply anm_inv_step| |exact Hrun].
    split; [cbn; lia|]. intros p pl Hp. destruct p; discriminate. }
  intros p pl Hp. exact (proj2 Hi p pl Hp).
Qed.

Lemma ants_multi_pool_concurrency_l urg evs s p pl :
  anm_run urg anm_init evs = Some s -> nth_error (anm_pools s) p = Some pl ->
  let N := Z.to_nat (apo_size (apo_create (anm_popts pl))) in
  (an_nrun (an_workers (anm_st pl)) <= N)%nat /\ (an_maxrun (anm_st pl) <= N)%nat /\ (1 <= N)%nat /\
  ((forall n, In (ApoSize n) (anm_popts pl) -> n <= 0) -> N = 1%nat).
Proof.
  intros Hrun Hp N.
  destruct (ants_multi_pool_projection_l urg evs s Hrun p pl Hp) as [[h Hh] _].
  destruct (ants_concurrency_bound_l _ _ _ Hh) as (C1 & C2 & _).
  destruct (ants_pool_size_l (anm_popts pl)) as (S1 & S2 & _).
  cbn [anm_cfg an_N] in C1, C2. fold N in C1, C2.
  repeat split; auto; [unfold N; lia|]. intros H. unfold N. rewrite (S2 H). reflexivity.
Qed.

(* witness: two pools in one process, NewPool(WithSize(2)) first, then NewPool(): the second pool has one inner
   worker; the first runs two handlers at once while the second pool's second task waits in its queue *)
Definition anm_w_beh : an_beh := {| ab_dur := 500; ab_honours := true; ab_val := Some 7; ab_err := AnNil |}.
Definition anm_w_history : list anm_event :=
  [AnmNewPool [ApoSize 2]; AnmNewPool [];
   AnmSend 0%nat [AtoTimeout 1000] [anm_w_beh]; AnmSend 0%nat [AtoTimeout 1000] [anm_w_beh];
   AnmSend 1%nat [AtoTimeout 1000; AtoRetry 0] [anm_w_beh]; AnmSend 1%nat [AtoRetry (-1); AtoDiscard false] [anm_w_beh];
   AnmOn 0%nat (AnPick 0%nat); AnmOn 0%nat (AnEnqueue 0%nat); AnmOn 0%nat (AnStart 0%nat 1%nat);
   AnmOn 0%nat (AnPick 1%nat); AnmOn 0%nat (AnEnqueue 1%nat); AnmOn 0%nat (AnStart 1%nat 1%nat);
   AnmOn 1%nat (AnPick 0%nat); AnmOn 1%nat (AnEnqueue 0%nat); AnmOn 1%nat (AnStart 0%nat 1%nat);
   AnmAdvance 500].

Definition anm_w_obs :=
  match anm_run true anm_init anm_w_history with
  | Some s =>
      match anm_pools s with
      | [p0; p1] =>
          Some (anm_now s, an_N (anm_cfg true (anm_popts p0)), an_N (anm_cfg true (anm_popts p1)),
                an_maxrun (anm_st p0), an_maxrun (anm_st p1), an_tchan (anm_st p1),
                ao_R (at_opts (an_tk (anm_st p1) 1%nat)), ao_T (at_opts (an_tk (anm_st p1) 1%nat)),
                match anm_step true s (AnmOn 1%nat (AnPick 1%nat)) with None => true | Some _ => false end)
      | _ => None
      end
  | None => None
  end.

Lemma ants_multi_pool_witness_l :
  anm_w_obs = Some (500, 2%nat, 1%nat, 2%nat, 1%nat, [1%nat], 1%nat, 365 * ato_day, true).
Proof. vm_compute. reflexivity. Qed.
