(* AntsGettersProofs.v -- Get1 / Get2 / Err agree (models/AntsGetters.v). *)
From Got Require Import Base Ants AntsProofs AntsGetters.
Local Open Scope Z_scope.

Lemma ants_getters_agree_l cfg evs s k :
  an_fixed cfg -> an_run cfg an_init evs = Some s ->
  let t := an_tk s k in
  (* Get1 and Get2 return exactly when run() has returned (wg.Done) or the task was discarded *)
  (an_call_get2 s k <> None <-> at_phase t = AnDone \/ at_phase t = AnDiscarded) /\
  (an_call_get1 s k <> None <-> an_call_get2 s k <> None) /\
  (forall p, an_call_get2 s k = Some p ->
     (* Get1 returns the first component, Err() the second *)
     an_call_get1 s k = Some (fst p) /\ an_call_err s k = snd p /\
     (* every read made so far by a waiting call returned this same pair, not before the release *)
     (forall g, In g (at_get2 t) -> fst g = p) /\
     (at_phase t = AnDiscarded -> p = (None, AnDiscard)) /\
     (* the call is the machine's AnGet2 step: enabled, recording this pair at the current instant *)
     exists s', an_step cfg s (AnGet2 k) = Some s' /\ at_get2 (an_tk s' k) = (p, an_now s) :: at_get2 t).
Proof.
  intros Hf Hrun. cbn zeta.
  assert (Hinv : an_tinv (an_tk s k)).
  { apply (proj1 (an_tinv_reach cfg s Hf (ex_intro _ evs Hrun))). }
  unfold an_call_get1, an_call_get2, an_call_err, an_final.
  split.
  { destruct (at_phase (an_tk s k)); split; intros H; try congruence; try (destruct H; discriminate);
      try (left; reflexivity); try (right; reflexivity). }
  split.
  { destruct (at_phase (an_tk s k)); split; intros H; congruence. }
  intros p Hp.
  unfold an_tinv in Hinv. cbn [an_step].
  destruct (at_phase (an_tk s k)) eqn:Eph; try discriminate Hp; inversion Hp; subst p; clear Hp.
  - destruct Hinv as (n & p & f & rest & _ & _ & _ & _ & _ & Hfl & _ & _ & Hg & _).
    split; [reflexivity|]. split; [reflexivity|]. split.
    + intros g Hin. rewrite Forall_forall in Hg. rewrite Hfl. exact (proj1 (Hg g Hin)).
    + split; [intros; discriminate|]. eexists. split; [reflexivity|].
      cbn [an_tk an_with_task]. rewrite an_upd_same. reflexivity.
  - destruct Hinv as (_ & _ & Hfl & _ & Hg & _).
    split; [reflexivity|]. split; [reflexivity|]. split.
    + intros g Hin. rewrite Forall_forall in Hg. rewrite Hfl. exact (Hg g Hin).
    + split; [intros _; exact Hfl|]. eexists. split; [reflexivity|].
      cbn [an_tk an_with_task]. rewrite an_upd_same. reflexivity.
Qed.
