(* AntsGettersProofs.v -- Get1 / Get2 / Err agree (models/AntsGetters.v). *)
From Got Require Import Base Ants AntsProofs AntsGetters.
Local Open Scope Z_scope.

Lemma ants_getters_agree_l cfg evs s k :
  an_fixed cfg -> an_run cfg an_init evs = Some s ->
  let t := an_tk s k in
  (* Get1 and Get2 return exactly when run() has returned (wg.Done) or the task was discarded *)
  (an_call_get2 s k <> None <-> at_phase t = AnDone \/ at_phase t = AnDiscarded) /\
  (an_call_get1 s k <> None <-> an_call_get2 s k <> None) /\
  (forall p, an_call_get2 s k = Some p ->
     (* Get1 returns the first component, Err() the second *)
     an_call_get1 s k = Some (fst p) /\ an_call_err s k = snd p /\
     (* every read made so far by a waiting call returned this same pair, not before the release *)
     (forall g, In g (at_get2 t) -> fst g = p) /\
     (at_phase t = AnDiscarded -> p = (None, AnDiscard)) /\
     (* the call is the machine's AnGet2 step: enabled, recording this pair at the current instant *)
     exists s', an_step cfg s (AnGet2 k) = Some s' /\ at_get2 (an_tk s' k) = (p, an_now s) :: at_get2 t).
Proof.
  intros Hf Hrun. cbn zeta.
  assert (Hinv : an_tinv (an_tk s k)).
  { apply (proj1 (an_tinv_reach cfg s Hf (ex_intro _ evs Hrun))). }
  unfold an_call_get1, an_call_get2, an_call_err, an_final.
  split.
  { destruct (at_phase (an_tk s k)); split; intros H; try congruence; try (destruct H; discriminate);
      try (left; reflexivity); try (right; reflexivity). }
  split.
  { destruct (at_phase (an_tk s k)); split; intros H; congruence. }
  intros p Hp.
  unfold an_tinv in Hinv. cbn [an_step].
  destruct (at_phase (an_tk s k)) eqn:Eph; try discriminate Hp; inversion Hp; subst p; clear Hp.
  - destruct Hinv as (n & p & f & rest & _ & _ & _ & _ & _ & Hfl & _ & _ & Hg & _).
    split; [reflexivity|]. split; [reflexivity|]. split.
    + intros g Hin. rewrite Forall_forall in Hg. rewrite Hfl. exact (proj1 (Hg g Hin)).
    + split; [intros; discriminate|]. eexists. split; [reflexivity|].
      cbn [an_tk an_with_task]. rewrite an_upd_same. reflexivity.
  - destruct Hinv as (_ & _ & Hfl & _ & Hg & _).
    split; [reflexivity|]. split; [reflexivity|]. split.
    + intros g Hin. rewrite Forall_forall in Hg. rewrite Hfl. exact (Hg g Hin).
    + split; [intros _; exact Hfl|]. eexists. split; [reflexivity|].
      cbn [an_tk an_with_task]. rewrite an_upd_same. reflexivity.
Qed.

(* error identity: whatever non-nil error the attempt's pair carries -- a handler error AnE, but also AnDiscard
   (another pool's discard error returned by the handler as its own), AnDeadline, AnCanceled -- a decided attempt
   a < R is followed by attempt a + 1; no error value ends the retry loop early *)
Lemma ants_any_error_is_retried_l cfg s k a c v e s' :
  an_fixed cfg ->
  at_phase (an_tk s k) = AnWait a c -> an_chan_find a (at_chan (an_tk s k)) = Some (v, e) ->
  an_is_nil e = false -> (a < ao_R (at_opts (an_tk s k)))%nat ->
  an_step cfg s (AnDecide k true) = Some s' ->
  at_phase (an_tk s' k) = AnEnq (S a) (an_now s) /\ at_fields (an_tk s' k) = (v, e) /\
  at_rel (an_tk s' k) = at_rel (an_tk s k) /\ at_onerr (an_tk s' k) = at_onerr (an_tk s k).
Proof.
  intros Hf Hph Hch He Ha Hs. unfold an_fixed in Hf. cbn [an_step] in Hs. rewrite Hph, Hch, Hf in Hs.
  inversion Hs; subst s'; clear Hs.
  destruct (an_after_cases s k a (v, e)) as [[E _]|[(_ & _ & E)|(_ & E & _)]].
  - cbn [snd] in E. congruence.
  - rewrite E. cbn [an_tk an_with_task]. rewrite an_upd_same. cbn. repeat split; reflexivity.
  - apply Nat.ltb_ge in E. lia.
Qed.
